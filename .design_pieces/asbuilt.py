# As-built paragraphs per property; {q} / {t} are replaced by the measured quick / thorough summary lines
ASBUILT = {
"C01": """**As built.** `Correlation.tla` (+ `TraceCorrelation`). TLC: `Correlation_3/4.cfg` with the invariants above and the
liveness property `EveryCallReturns`; the id-format and queue-drop switches each violate `NothingLost`. Binding B: several
library clients × goroutines issue `tools/call`, `resources/read`, `prompts/get` with nonces, random handler delays and payloads
across the 64 KiB mark on Streamable JSON / SSE / stateless / sessions-disabled, legacy SSE and stdio (a real child process
running the library's stdio server); the call / handler / return log is validated by TLC. Clients are positioned at request
counters 10^6−1, 2^31−1 and 2^53−3 (`VerifSetNextRequestID`). Binding A: an id table (integers up to 2^53, strings incl. empty,
numeric-looking, Unicode, 1 000 characters) is replayed by raw peers on all six modes and the echoed id compared as a JSON
value; every frame carrying a request's id is counted for 7 *error* outcomes × 6 server kinds (exactly one answer also when the
outcome is an error); a legacy SSE stream reader is stalled while 180 large answers are produced. Not built: the gate-forced
interleavings of the legacy / stdio pipelines (the recorded concurrent workloads exercise them; the queue and id defects were
found without gates). {q} {t}
**Result.** Found and repaired: answers matched through `%v` keys (ids ≥ 10^6 as float64 vs int64) `be69638`; legacy SSE
dropped answers when the session queue was full `6c76459`.""",
"C02": """**As built.** `Wire.tla` enumerates 1 207 abstract values (tool results: item kind {text, image, audio, embedded text /
blob} × 8 string classes × error flag × 6 structured-content classes, ordered pairs of kinds, empty content; prompt results: roles ×
items × description classes; resource contents; handler errors × message classes; tool / prompt / resource descriptors) and states
the channel as the identity. Each value is concretised (4–6 representatives per string class chosen by seed + index; every third
item carries annotations), returned by a real handler and fetched by the real client over Streamable JSON / SSE / stateless, legacy
SSE and stdio (real child). Both sides are projected — by code that reads the public struct fields directly — onto trees of kinds,
SHA-256 digests + lengths, mime types, roles, flags; TLC validates every (value, sent, got) record against `TraceWire` (`got = sent`,
value ∈ `Values`). The 8 MiB class and triples of items were dropped (2 MiB and pairs remain). {q} {t}
**Result.** Found and repaired: embedded resources encoded as `embedded_resource` but decoded as `resource` `73bf7a1`; audio not
decodable `82380d8`; empty text / image data / resource text refused `91c592f`; annotations of content items dropped `50f8f5f`.""",
"C03": """**As built.** `Core.tla` enumerates the request classes (14 methods - the whole dispatch table, one unserved and one unknown method - × parameter classes × id kinds × handler outcomes) with
the admitted reactions; 40 envelope / path / syntax mutations are added by the check. Every request goes as identical bytes to six
server kinds (`rpcprobe`: Streamable JSON, SSE, stateless, sessions disabled; legacy SSE; stdio through `VerifServeStdio`), and the
list methods also to a server with nothing registered. Each exchange (request class, admitted reactions, HTTP status, every frame as a
tagged tree) is validated by TLC against `TraceWellFormed`, which evaluates `MsgGrammar` — written from the protocol documents, not
from the Go structs. The thorough tier sends every class with three ids per kind (small, ≥ 10^6, near 2^53; plain, Unicode, 300 characters).
Deviation: the round-0 plan mentioned a Python JSON-schema oracle beside the grammar; only the TLA+ grammar is
used. {q} {t}
**Result.** Found and repaired (7): nil result / null arrays `7ebf8fc`; unencodable result answered 200-empty instead of −32603
`46abc8b`; wrong path answered 200-empty `41b1321`; error responses without `id` `b88bd4e`; stdio silent on non-JSON-RPC lines `add2d79`;
`prompts/get` / `resources/read` with non-object arguments `3f0e9b5` `a8748b7`; legacy SSE silent on an accepted but undecodable
request `e31e023`.""",
"C04": """**As built.** `SessionLifecycle.tla`, 6 configurations × 2–3 session slots (+ `Session_expiry`). Binding A: an edge cover of
each configuration's state graph (thorough: plus seeded random walks) is walked online against a real `mcp.NewServer` behind
`httptest` by the raw peer; model ids are bound to real ids as they are issued; compared after every step: status, presence and value
of `Mcp-Session-Id`, `GetActiveSessions()`, EOF of the open GET body after DELETE; every issued id is checked for format and
distinctness. Binding B: the step logs are validated by `TraceSession`. {q} {t}
**Result.** Found and repaired: GET with sessions disabled dereferenced a nil session manager `238983b`.""",
"C05": """**As built.** `Push.tla` for the Streamable and the legacy SSE server (`Push_streamable_2/3/mid`, `Push_legacy_2/3`).
Binding A: edge cover with one raw reference peer per session (each holds its stream open and records frames); request ids chosen by
the server (`ListRoots` inside a tool) and by the caller (`SendRequest` with one caller-chosen id on two sessions); the wrong-session
answer is posted by peer B with A's id; return values of the four send APIs and `VerifPendingServerRequests` after quiescence are
compared with the model. Binding B: `TracePush`. stdio (one session) is covered by C01 / C09 only. {q} {t}
**Result.** Found and repaired: pending server→client requests keyed by id only — another session could answer — on Streamable
`3a91910` and legacy SSE `4f29539` `3b1adb6`; legacy sessions never marked initialized, so `SendNotification` always failed `87f7a2c`;
`NewNotification` dropped a `_meta` of type `mcp.Meta` `6070937`.""",
"C06": """**As built.** `Survive.tla` enumerates fault classes (the field × JSON-type lattice of C03, truncations, invalid UTF-8, deep
nesting, multi-MiB strings and lines, header classes, verbs, wrong paths, answers to requests never sent) and orderings with
well-formed traffic. `rpcprobe` feeds batches to six server kinds with bounded waits; after each batch: a ping on the same session, a
fresh handshake + ping, library goroutines versus the state before the batch. A crash of the server process is bisected to the input.
Binding B: `TraceSurvive`. Deviation: the server runs in the harness process (crash capture through the harness runner) rather than in
a separate child, and no byte-level fuzzing is used (§6). {q} {t}
**Result.** The defects found here are the ones listed under C03 / C04 (shared probes); no further divergence on the repaired tree.""",
"C07": """**As built.** `ClientSurvive.tla`: 14 bad-frame classes × 3 positions; `ReaderSurvives`, `NeverWrongAnswer`,
`LaterCallCompletes`, liveness. Scripted servers (HTTP / SSE, and the `stdiopeer` child) emit concrete bytes per class and variant —
garbage, non-JSON, wrong kind, unknown id, id of the wrong type, 100 KiB / 8 MiB frames, blank lines, comments, neither / both of result
and error, invalid UTF-8, repeated `endpoint`, truncated JSON, and well-formed answers with wrongly typed fields (12 variants) —
against the Streamable client (JSON answers, SSE answers, listening stream), the legacy SSE client and the stdio client. Observed: how
call 1 and a later call end, CPU burnt while idle (spin detector: > 150 ms in each of up to 4 consecutive 300 ms windows), `Close()`,
delivery of a later notification on the listening stream. Binding B: `TraceClientSurvive` (silent reader steps). {q} {t}
**Result.** Found and repaired: repeated `endpoint` event crashed the legacy client `88a44af`; the stdio reader spun on an undecodable
line `f4de088`; the JSON-mode client returned an answer carrying another id `f00666a`; a > 64 KiB line silently ended the listening
stream reader `87c1ca6`.""",
"C08": """**As built.** `CallEnds.tla` and `PeerGone.tla` (+ trace modules). Client side: a raw TCP server speaking minimal HTTP/1.1 cuts
the answer at a boundary (nothing sent, inside / after the headers, inside an event, between events, after the complete answer), at
sampled byte offsets, or half-way through a 6 MiB request body, then sends FIN, RST or nothing; the `stdiopeer` child exits, kills
itself (SIGKILL) or goes silent at the same boundaries; 1..3 calls pending; contexts with deadline / cancel / none; `Close()` while calls
are pending; and — with the reader parked by the `client.resp.found` hook — cancel and `Close()` racing a late answer, followed by a
further call. Observed per call: outcome and time relative to the fault and the context end (1 s bound); after `Close()`: library
goroutines, net/http connection goroutines, descriptors, child process, pending table, all relative to the state before the client
existed. Server side: a raw peer brings real Streamable (JSON / SSE answers) and legacy servers into each `PeerGone` state (idle stream,
handler running, handler waiting for `roots/list`, request registered but not yet written — gated) and closes / resets all its
connections; everything must be back within 2 s. Deviation: level `model_checking` rather than `fault_enumeration` (liveness is checked
by TLC and every log is trace-validated). {q} {t}
**Result.** Found and repaired: SSE response body of a POST never closed `2e2f200`; stdio `Close()` called `Wait` a second time
concurrently (goroutine left / 5 s stall) `8fc57a9`; legacy server never ended a request's context after the client had gone `e8d7e7b`;
a call cancelled as its answer arrived killed the stdio reader `b85ca50`; an answer arriving during `Close()` crashed the legacy client
(`send on closed channel`) `51f3f56`.""",
"C09": """**As built.** `Framing.tla`; the schedules are all root-to-leaf paths of the *unlocked* model (every interleaving of the Write
calls of 2–4 frames × 2–3 parts), forced through the `stdio.write.*` / `sse.write.*` gates on the stdio server's stdout and the GET
stream; a step blocked by a lock is simply not realisable. An independent reference reader cuts the recorded bytes; ungated stress runs
(stdio, GET stream, legacy SSE; payloads across pipe and bufio boundaries, CR / LF / U+2028 inside) add chunk logs; all are validated by
`TraceFraming`. {q} {t}
**Result.** Found and repaired: the stdio server wrote frames without its output lock `e9d2101`; the stdio client's error answers
bypassed the request mutex `49f80d6`.""",
"C10": """**As built.** `InCall.tla` (`InCall_2/3`, bug switch two-generators). Scenarios (k ≤ 3 notifications × kinds × registered
handler subsets × JSON / SSE mode × 2 concurrent calls) come from the state graph; the real client and server run them; compared: the
handler-side sequence, its order relative to the call's return, raw `id:` lines captured from the response body; `TraceInCall`. {q} {t}
**Result.** Found and repaired: two event-id generators on one POST stream `827f5ca`.""",
"C11": """**As built.** `GetStream.tla` was refined twice while binding it: the write lock shared by sends and the stream's teardown
(`SendStart / SendAcquire / SendEnd`, `CleanupBegin / Cleanup`) and the `Probe` step became explicit because the real handler serialises
them. Every schedule of {old teardown, new registration, sends} for 2 connections + 1–2 sends (thorough: 3 connections, sampled from
70 000 edges) is forced through the `get.*` / `push.*` gates; internal steps the code performs on its own are best-effort so that fewer
than 20 % of the schedules are unrealised; reconnect storms without gates are validated by `TraceGetStream`. {q} {t}
**Result.** Found and repaired: an exiting handler deleted the newer stream's entry `afeae16`; headers flushed before the entry was stored
`897d6a7`; writes to a stream after its handler had returned `db0d15a`.""",
"C12": """**As built.** `Registry.tla`; recorded invoke / response histories of concurrent register / unregister / list / call operations
(through the API and through clients on the three servers) are checked for linearizability *in TLA+* (`TraceRegistry`, silent
`Linearize`); gate-forced schedules at `reg.list.item` park a lister between two items while the registry changes; a crash of the
workload process (`concurrent map read and map write`) is a divergence. {q} {t}
**Result.** Found and repaired: `prompts/get` / `resources/read` read the registries without the lock `7eb10f8`. One hand-made mutant
(a tool replaced in two steps) is caught only with luck: the window is not gated (§5.21).""",
"C13": """**As built.** `ReqContext.tla` (context functions → body → stages). k requests with distinct header tokens are held inside the
context function / while their body is still arriving (a slow body is a natural gate) / inside middleware, filter and handler until all are
inside, then released in every order of the model; each stage echoes what it sees; `TraceContext`. Streamable stateful / stateless and
legacy SSE. {q} {t}
**Result.** Conforms; no defect found.""",
"C14": """**As built.** `Core.tla` is the reference; the classes of the 8 common methods (× id kinds × 4 registration sets: rich, empty,
a second set, and one that registers tool / prompt / resource names twice), initialize requests with unsupported / empty / older / newer
protocol versions, all as identical bytes on six server kinds; answers are normalised (order of listed items, wording of messages) and
must be pairwise equal and admitted by `Core` (`TraceParity`). Client part: a scripted server gives 23 answers (every content kind,
structured content, errors, lists, prompt messages, resource contents) to the Streamable (JSON, SSE), legacy SSE and stdio clients; the
values / error classes they return must be equal. The thorough tier uses three ids per kind as in C03. {q} {t}
**Result.** The parity defects were the ones repaired under C03; none further.""",
"C15": """**As built.** `Middleware.tla` (`Middleware_2/3/4`): all chains with pass / short-circuit / error behaviours are executed on the
real Streamable, legacy and stdio servers; enter / leave events and what the caller receives are validated by `TraceMiddleware`. {q} {t}
**Result.** Conforms; no defect found.""",
"C16": """**As built.** `Handshake.tla` (server and client machines). Edge-cover walks: raw peers drive real servers through
request-before-initialize, repeated initialize, notifications in every state; scripted servers (incl. the `stdiopeer` child) answer
`initialize` with ok / RPC error / malformed result / nothing, and the real clients' state and the outcome of each operation are
compared; `TraceHandshake`. {q} {t}
**Result.** Found and repaired: `SendRootsListChangedNotification` worked before the handshake `3b8dbb0`.""",
"C17": """**As built.** `Retry.tla` (`Retry_none/0/1/2/3`) and `RetryClamp.tla` (units of 100 µs: TLC integers are 32-bit). Every leaf
of the model (failure-class sequence × cancel point) is replayed into the real retry loop (`VerifRetryExecute`) with a recording clock;
end-to-end runs with scripted HTTP failures (status classes, connection faults) through the three clients; configuration validation
(`VerifRetryValidate`) over boundary values incl. NaN / Inf; `TraceRetry`. {q} {t}
**Result.** Found and repaired: a NaN back-off factor slipped through validation `eb0ce64`. **Known finding** (not repaired, §7): the
legacy client's error text contains the response body and the classifier matches status codes as substrings.""",
"C18": """**As built.** `Schema.tla` part 1 enumerates 435 one- and two-field struct types (29 field kinds × 8 tag classes, pairs) × the
3 styles = 1 305 cases; each is built with `reflect.StructOf` (recursive and shared shapes come from a corpus of compile-time types used
as field types), the real generator runs under a 10 s bound (`VerifSchemaForType`), a fully populated value (16 levels deep, 2^53−1 in
`int64`) is encoded by `encoding/json` and pushed through the typed handlers' argument binding (`VerifBindArguments`). Part 2 defines the
JSON-Schema subset *in TLA+* (pointer resolution, `RefsResolve`, `Accepts`, `Names`); TLC evaluates five predicates per case
(`TraceSchema`). Deviation: the round-0 plan named the Python `jsonschema` package as oracle; the oracle is the TLA+ semantics, so that
the property is decided by the specification. Both tiers run the full enumeration (≈ 10 s). {q} {t}
**Result.** Found and repaired: `time.Time`, `[]byte`, `json.RawMessage`, interface values described by their Go kind `e01f0e4`; embedded
structs not promoted `72f1a33`; `,string` ignored `0cbd089`; inline style typed everything beyond the recursion cut as object `59bf17f`.""",
"C19": """**As built.** `Customise.tla` for the Streamable and the legacy SSE client: configuration {static headers (one two-valued),
before-request function none / ok / failing for one request kind, custom handler, custom path, listening stream on / off} × call
histories up to 4 operations (handshake, calls, notifications, server requests answered with a result and with an error, refused and
accepted DELETE). Per configuration an edge cover of the histories (thorough: every maximal history) is replayed on the real client
against a recording reference server, a recording request handler and a recording before-request function; per operation its result
and the records of the requests received are validated by `TraceCustomise` (the operation must be enabled and put exactly these records
on the wire). The statement's "custom http.Client" dimension is unreachable: the library has no option to set one. {q} {t}
**Result.** Found and repaired: the Streamable client's answers to server requests ignored the custom path and the before-request
function, its DELETE ignored function and handler `d23b45b`; the legacy client's answers skipped the function `801eb0a`.""",
}
