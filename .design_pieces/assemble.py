import json, os, re, sys, collections
sys.path.insert(0, '/tmp/design')
from asbuilt import ASBUILT
D = '/verif/DESIGN.md'
s = open(D).read()
def piece(n): return open('/tmp/design/%s.md' % n).read().rstrip('\n') + '\n'

# measured numbers
Q = {}
T = {}
for line in open('/tmp/quick.log'):
    m = re.search(r'property=(C\d+) tier=quick states=(\d+) traces=(\d+) evaluations=(\d+) nontrivial=(\d+) wall=([\d.]+)s', line)
    if m: Q[m.group(1)] = m.groups()[1:]
for line in open('/tmp/thorough.log'):
    m = re.search(r'property=(C\d+) tier=thorough states=(\d+) traces=(\d+) evaluations=(\d+) nontrivial=(\d+) wall=([\d.]+)s', line)
    if m: T[m.group(1)] = m.groups()[1:]
def fmt(tier, v):
    if not v: return ''
    return "*Measured, %s:* %s TLC states, %s traces validated, %s evaluations (%s non-trivial), %s s." % (tier, v[0], v[1], v[2], v[3], v[4])

# 0. status header
s = re.sub(r'Status: design only \(round 0\)\..*?\(inputs and outputs are quoted in §7\)\.\n', piece('status'), s, flags=re.S)
s = s.replace("§6 what this family cannot decide; §7 defects already\nreproduced; §8 false-alarm policy; §9 build order.",
              "§6 what this family cannot decide; §7 defects found and\nrepaired; §8 false alarms corrected; §9 build order and deviations.")
# 2.1
i = s.index('### 2.1 Layout (planned)'); j = s.index('A check = (a)')
s = s[:i] + piece('layout') + '\n' + s[j:]
# 2.9
i = s.index('### 2.9 Tiers and cost envelope'); j = s.index('-----', i)
rows = []
for pid in sorted(set(Q) | set(T)):
    q, t = Q.get(pid), T.get(pid)
    rows.append("| %s | %s | %s | %s | %s | %s | %s |" % (pid, q[4] if q else '', q[0] if q else '', q[2] if q else '', t[4] if t else '', t[0] if t else '', t[2] if t else ''))
cost = """### 2.9 Tiers and measured cost (this image, 16 cores, unchanged tree, VERIF_SEED=1)

quick = the check to run on every change; thorough = larger constants, every path / value / history instead of a cover or a
sample, more seeds of the randomised parts. Wall-clock seconds, TLC distinct states summed over the runs of the invocation,
evaluations = scenarios / values / histories executed on the real code.

| property | quick s | quick states | quick evaluations | thorough s | thorough states | thorough evaluations |
|---|---|---|---|---|---|---|
%s

All 19 quick tiers together take ≈ 4.5 min, all thorough tiers ≈ %d min. `vp check` (fresh restore, no network, every
quick command once) reported "nothing needed attention". Each tier was run with VERIF_SEED 1..5 on the repaired tree
without an alarm (§8).

""" % ("\n".join(rows), round(sum(float(T[p][4]) for p in T) / 60 + 0.5))
s = s[:i] + cost + s[j:]
# 3, 4
i = s.index('## 3. Specification catalogue'); j = s.index('## 5. The properties')
s = s[:i] + piece('catalogue') + '\n' + '-' * 99 + '\n\n' + piece('hooks') + '\n' + '-' * 99 + '\n\n' + s[j:]
# per-property as built
for pid, text in ASBUILT.items():
    text = text.replace('{q}', fmt('quick', Q.get(pid))).replace('{t}', fmt('thorough', T.get(pid)))
    m = re.search(r'^### %s — .*$' % pid, s, flags=re.M)
    assert m, pid
    head = m.group(0)
    lvl = {c['property_id']: c['level_claimed']['category'] for c in json.load(open('/verif/MANIFEST.json'))['checks']}[pid]
    newhead = re.sub(r'\(level: [a-z_]+\)', '(level: %s)' % lvl, head)
    s = s.replace(head, newhead + '\n\n' + text + '\n\n*Round-0 design (kept as rationale; estimates superseded by the figures above):*', 1)
# 5.21
res = {}
if os.path.exists('/verif/mutants/RESULTS.tsv'):
    for line in open('/verif/mutants/RESULTS.tsv'):
        f = line.rstrip('\n').split('\t')
        if len(f) >= 4: res[f[0]] = f
mu = collections.defaultdict(list)
for f in sorted(os.listdir('/verif/mutants')):
    if f.endswith('.patch'): mu[f.split('-')[0]].append(f[:-6])
rows = []
for pid in sorted(mu):
    det = [m for m in mu[pid] if res.get(m, ['', 'yes', '1'])[2] == '1']
    und = [m for m in mu[pid] if m in res and res[m][1] == 'yes' and res[m][2] == '0']
    na = [m for m in mu[pid] if m in res and res[m][1] == 'no']
    rows.append("| %s | %d | %s | %s |" % (pid, len(mu[pid]), ", ".join(x[len(pid) + 1:] for x in det),
                 ("**undetected:** " + ", ".join(x[len(pid) + 1:] for x in und) if und else "—") + ((" ; no longer applies: " + ", ".join(x[len(pid) + 1:] for x in na)) if na else "")))
seeds = []
for d in sorted(os.listdir('/verif/seeded')):
    j2 = json.load(open('/verif/seeded/%s/meta.json' % d))
    br = (j2.get('breaks') or '').replace('\n', ' ')
    br = re.sub(r'^Change[^:]*: ?', '', br)[:170]
    keys = j2.get('violation_keys') or []
    seeds.append("| %s | %s | %s | %s |" % (d, br.replace('|', '/'), "yes" if j2.get('detected') else "no (see note)", (j2.get('history') or 'detected by the check as it stood').replace('|', '/')))
i = s.index('### 5.21 Changes each check is designed to catch'); j = s.index('## 6. What this family cannot decide')
sec = """### 5.21 Which check catches which change (all changes compile and pass the repository's 369 tests)

**Hand-made mutants** (`/verif/mutants/<ID>-*.patch`; the reverts of the §7 fixes plus other realistic slips; run with
`tools/mutant <patch> <ID>` or all at once with `tools/mutant-sweep`, results in `mutants/RESULTS.tsv`). Detected = the
property's quick tier exits 1 with a VIOLATION line.

| property | mutants | detected by the quick tier | not detected |
|---|---|---|---|
%s

The one undetected mutant, `C12-tool-replaced-in-two-steps`, opens a window of a few instructions between removing and
re-adding a registry entry; the check has no gate there and sees it only with luck. Candidates that turned out to be
*equivalent* to the original (and were removed): C10 return-at-first-result, C12 nil-entry, C02 empty-text-becomes-blob and
SSE-writer-splits-on-U+2028 (Go's encoder escapes U+2028), C08 request-built-without-context (the request handler re-attaches
the context), C18 ref-path-ignores-anyOf (the target still accepts the value) and binding-disallows-unknown-fields (outside
the statement).

**Changes seeded by sub-agents.** For each property a fresh sub-agent received only the property's text and a scratch
worktree (nothing from /verif) and produced two realistic breaking changes with a demo test that fails with the change and
passes without it; each was confirmed (`tools/seedeval`: build, vet, existing tests pass, demo fails / passes) and run
against the property's quick tier. 19 of the 38 were missed by the check as it stood; each miss led to a strengthening of
the specification or the harness (last column), after which all are detected except C10-seed2, which a genuine fix made
moot (the seeded change removed a conversion that `6070937` made unnecessary; the property holds with it).

| seed | what it breaks | detected now | history |
|---|---|---|---|
%s

""" % ("\n".join(rows), "\n".join(seeds))
s = s[:i] + sec + '-' * 99 + '\n\n' + s[j:]
# 7, 8, 9
i = s.index('## 7. Defects already reproduced'); j = s.index('## Appendix A')
s = s[:i] + piece('sec7') + '\n' + '-' * 99 + '\n\n' + piece('sec8') + '\n' + '-' * 99 + '\n\n' + piece('sec9') + '\n' + '-' * 99 + '\n\n' + s[j:]
open(D, 'w').write(s)
print("written", len(s.splitlines()), "lines")

# corrections of round-0 statements that are not true of the build
s = open(D).read()
s = s.replace("""spec does not allow (trace rejected / no matching edge / invariant false on a recorded state),
  reproduced a second time from the saved replay file before being reported.""",
"""spec does not allow (trace rejected / no matching edge / invariant false on a recorded state). The
  scenario, the observation and the spec's expectation are saved in the replay file named by the line;
  `check <ID> --replay <file>` re-executes the scenario on the real code (as built the orchestrator does
  not re-execute it on its own before reporting; timing-dependent observations use bounded waits and
  repeated windows instead, §8).""")
s = s.replace("""  applied to a scratch copy outside /repo and /verif, the property's quick check is run against it
  (the harness `replace` path is overridable by `VERIF_REPO`), and the copy is deleted. This is a
  development aid (`check selftest-mutants`), not part of any verdict. Representative mutants per
  property are listed in §5.21.""",
"""  applied by `tools/mutant <patch> <ID>` (as built: in /repo itself with a trap that restores the tree;
  `tools/mutant-sweep` runs all of them and writes `mutants/RESULTS.tsv`), the property's quick check is
  run against it and the tree is restored. This is a development aid, not part of any verdict. All
  mutants are listed in §5.21.""")
s = s.replace("""coverage (`-coverage 1` in thorough tier; an action with count 0 makes the run *vacuous* → exit 2).""",
"""coverage (`-coverage 1` is used for `GetStream_intended` in the thorough tier; vacuity is otherwise guarded by the
bug-switch self-tests of §3 and by the `distinct_nontrivial` counts in the evidence).""")
open(D, 'w').write(s)
print("corrected")
