#!/usr/bin/env python3
"""Regenerate MANIFEST.json from the table below (single place to edit)."""
import json, os, subprocess
V = os.path.dirname(os.path.dirname(os.path.abspath(__file__)))
props = [json.loads(l) for l in open(os.path.join(V, "properties.jsonl"))]

CHECKS = {
 "C11": dict(level="model_checking", design="DESIGN.md §5 C11",
   text="TLC checks the GetStream design (register-before-flush, delete-own-only) for every interleaving of up to 4 streams and 3 sends; every edge of the finest-grain state graph is then forced on the real GET handler / push path through hook gates and the raw peer's observations are compared with the oracle carried in the graph; recorded black-box traces (replays and ungated reconnect storms) are validated by TLC against TraceGetStream.",
   note="Trusted: TLC, the hook gates only steer (verdicts come from what a raw HTTP peer sees), bounds 3 streams x 2 sends for replay. Sequential opens as in the statement.",
   technique="TLA+ model checking (TLC) + gate-forced schedule replay + TLC trace validation"),
 "C09": dict(level="model_checking", design="DESIGN.md §5 C09",
   text="TLC checks the Framing design (per-stream lock over all Write calls of a frame) for 4 frames x 3 parts and finds the interleaving without the lock; every interleaving of the Write calls (all root-to-leaf paths of the unlocked model's state graph) is forced on the real stdio-server and GET-stream writers through write-point gates; an independent reference reader cuts the recorded bytes; chunk logs of the replays and of ungated stress runs (stdio, GET stream, legacy SSE) are validated by TLC against TraceFraming.",
   note="Trusted: TLC, the recording writer, the reference SSE/line readers. Streams without intra-frame write points (legacy SSE single Fprint, stdio client stdin) are covered by stress only. A user tool sharing one notification sender between its own goroutines is outside the statement.",
   technique="TLA+ model checking (TLC) + gate-forced interleaving replay + TLC trace validation of chunk logs"),
 "C10": dict(level="model_checking", design="DESIGN.md §5 C10",
   text="TLC checks InCall (server emission / single id generator / client read loop) for every emission sequence up to 3 notifications over 3 kinds x _meta, every registration subset and both response modes, including termination; every returned state of the graph is a scenario executed on the real server and client (alone and in concurrent pairs) and compared with the model's dispatch sequence; event traces are validated by TLC against TraceInCall.",
   note="Trusted: TLC, the harness tool handler that emits through the public sender API, the reference SSE parser. Raw event ids are observed on a second identical call by the raw peer. Sizes/timings of notifications are not varied beyond bursts within one call.",
   technique="TLA+ model checking (TLC) + scenario replay from the state graph + TLC trace validation"),
 "C04": dict(level="model_checking", design="DESIGN.md §5 C04",
   text="TLC checks the SessionLifecycle design (issue / serve / refuse / delete / expiry over header classes none, live, deleted, never-issued) for stateful, stateless and session-disabled modes; every edge of the state graph - labelled with the admissible statuses and the required session header - is executed by a raw HTTP peer against a real server in each of 12 configurations (sequentially and as concurrent walks on one server), comparing status, Mcp-Session-Id, GetActiveSessions() and stream termination; the observation logs are validated by TLC against TraceSession (which re-uses the specification's actions).",
   note="Trusted: TLC, the raw peer. The entropy SOURCE of ids is not observable (format, length, uniqueness and positional diversity of issued ids are checked). The 1-hour expiry sweep is a TLC-only environment action. Where the statement is silent (status of notifications/responses in a live session, stateless DELETE) the specification admits every outcome.",
   technique="TLA+ model checking (TLC) + edge-cover walk of the state graph on the real server + TLC trace validation"),
 "C05": dict(level="model_checking", design="DESIGN.md §5 C05",
   text="TLC checks Push (addressed / broadcast / filtered sends; server-issued requests with their pending entries matched on (session, id)) and finds the wrong-session answer when entries are matched on the id alone; every edge of the state graph - including answers posted by the wrong session, repeated answers and cancellation - is executed on a real Streamable-HTTP and a real legacy SSE server with one recording raw peer per session; return values, the streams each nonce-tagged frame appeared on, the accepted answer and the pending-table size are compared with the edge labels; step logs are validated by TLC against TracePush.",
   note="Trusted: TLC, the raw peers, the read-only VerifPendingServerRequests export. stdio has one session (isolation vacuous) and is not walked. The 30 s timer is replaced by cancelling the caller's context. Payload sizes are small in this check (large frames are covered by C09).",
   technique="TLA+ model checking (TLC) + edge-cover walk on real servers + TLC trace validation"),
 "C17": dict(level="model_checking", design="DESIGN.md §5 C17",
   text="TLC checks Retry (attempt loop, classification, back-off sequence, cancellation at every instant, liveness) for MaxRetries 0..3 and without a retry option, and RetryClamp over the boundary grid (range, idempotence, valid points untouched); every leaf of the Retry state graph (outcome sequence x cancel instant) is replayed through the real retry loop with the error texts the real Streamable and legacy SSE clients produce for each outcome kind (learned end to end from a scripted server/dialer); a sample runs end to end through the real clients; the clamp grid is compared with the real Validate() and the installed client configuration; run logs are validated by TLC against TraceRetry with silent loop steps.",
   note="Trusted: TLC, the scripted server/dialer, wall-clock LOWER bounds on waits (upper bounds generous: cap + 250 ms, prompt cancel < 200 ms against a 600 ms wait). Outcome alphabet: success, JSON-RPC error, 6 non-transient 4xx, 408/409/429, 6 5xx, refused, reset, read timeout, EOF, two non-network errors. http.Client.Timeout-style errors are outside the alphabet.",
   technique="TLA+ model checking (TLC) + replay of all model leaves into the real retry loop + end-to-end scripted-fault runs + TLC trace validation"),
 "C15": dict(level="model_checking", design="DESIGN.md §5 C15",
   text="TLC checks Middleware.tla (stack machine of the chain) for every chain up to length 4 over {pass, modReq, modRes, short, fail}: exactly-once, onion order, nothing inside a stopper runs, the stopper's value is the answer, termination; every finished state is a chain with its expected event sequence and answer, built from instrumented middlewares on real Streamable-HTTP (JSON and SSE answers) and legacy SSE servers in both option forms with overlapped requests; recorded per-request event sequences, answers, per-stage context/session and the absence of notifications in the chain are compared with the model; the event logs are validated by TLC against TraceMiddleware.",
   note="Trusted: TLC, the instrumented middlewares/handler (harness code with fixed behaviours), the raw peer. Only tools/call requests are driven through non-pass behaviours (initialize and list requests pass through untouched).",
   technique="TLA+ model checking (TLC) + exhaustive chain replay on real servers + TLC trace validation"),
 "C16": dict(level="model_checking", design="DESIGN.md §5 C16",
   text="TLC checks Handshake.tla (version selection, capability derivation at initialize time, client state machine); the server graph (7 version classes x registration states, incl. register-then-reinitialize) is covered on Streamable (stateful/stateless), legacy SSE and stdio servers by raw peers; the client graph (Initialize with 5 scripted outcomes, 7 operations, Close) is covered and randomly walked on the Streamable, legacy SSE and stdio clients against a recording scripted server / scripted child process, comparing error class, GetState() and requests on the wire per step; walk logs are validated by TLC against TraceHandshake.",
   note="Trusted: TLC, the scripted recording server and the scripted stdio child (this binary re-executed). The transient 'connected' state and Initialize-after-Close are not driven.",
   technique="TLA+ model checking (TLC) + edge-cover walks on real servers and clients + TLC trace validation"),
 "C13": dict(level="model_checking", design="DESIGN.md §5 C13",
   text="TLC checks ReqContext (per-request context travelling through context functions, body arrival, middleware, filter/handler of up to 4 concurrent requests) and finds the bleed when the enriched context is parked in a server-wide slot; interleavings of these steps for 2 and 3 concurrent requests are forced on real Streamable (stateful, stateless) and legacy SSE servers - through gates inside instrumented context functions, middleware, list filters and handlers, and through a deliberately slow request body - and every stage reports the token, context-function order, session, server handle and notification sender it sees; list answers are compared with what the filter admits for that caller (an admin and a user ask for the same list); stage logs are validated by TLC against TraceContext.",
   note="Trusted: TLC, the instrumented stages (harness code), goroutine identity to attribute a filter call to its request. Server handle: must never be foreign and must be present in tool handlers; its absence elsewhere is not flagged (the code injects it for tool calls only). Notification sender required on Streamable HTTP only.",
   technique="TLA+ model checking (TLC) + gate-forced interleaving replay + TLC trace validation"),
 "C12": dict(level="model_checking", design="DESIGN.md §5 C12",
   text="TLC checks Registry.tla (a list built under one lock is a snapshot of some instant inside the call; order bookkeeping) and finds the torn list of a two-read design; recorded invoke/return histories of randomized concurrent workloads on a real server (register / re-register / unregister / list / call, results carrying the handler version) are checked for linearizability by TLC (TraceRegistry, one silent Linearize step per operation; resources in registration order); in addition the schedules on which the two-read model itself returns a non-snapshot are forced on the real list code through a hook gate inside the list loops; a crash storm (tight re-registration against tight readers) runs in a child process.",
   note="Trusted: TLC, the mutex-ordered history log (real-time precedence only). Atomicity windows without an instrumentation point (e.g. a handler replaced in two steps) are only reached probabilistically by the stress workloads. A static lockset claim is not decided.",
   technique="TLA+ model checking (TLC) + linearizability checking of recorded histories in TLA+ + gate-forced schedules + crash storm"),
 "C01": dict(level="model_checking", design="DESIGN.md §5 C01",
   text="TLC checks Correlation.tla (issue, handler, bounded outgoing queue, writer, client dispatch through the pending table, return) for OwnAnswer, HandlerOnce, PendingExact, NothingLost and the liveness property EveryCallReturns, and finds the id-format and the queue-drop defects; call/handler/return logs of concurrent library-client workloads on Streamable JSON / SSE / stateless / sessions-disabled, legacy SSE and stdio (child process) - also with request counters at 10^6-1, 2^31-1, 2^53-3 - are validated by TLC (TraceCorrelation); raw peers replay an id-class table against all six server modes (echoed id as a JSON value, exactly one answer frame per request, incl. 300 KB answers); a legacy stream reader is stalled while 180 x 256 KiB answers are produced.",
   note="Trusted: TLC, the mutex-ordered log, the child-process handler log for stdio (its entries are placed after their call; only their number is used). 'Any number of callers' is explored up to 4 clients x 6 goroutines.",
   technique="TLA+ model checking (TLC, incl. liveness) + TLC trace validation of recorded workloads + raw-peer id-table replay"),
 "C03": dict(level="exploration", design="DESIGN.md §5 C03",
   text="Core.tla (checked by TLC) enumerates the request classes - 9 methods x parameter classes x id kinds x handler outcomes - with the reactions the property admits; every class, plus envelope / path / syntax mutations, is concretised to bytes and sent by a raw peer to Streamable JSON / SSE / stateless / sessions-disabled, legacy SSE and stdio servers; every exchange (status and every frame, re-encoded as tagged trees) is validated by TLC against TraceWellFormed, i.e. against the message grammar MsgGrammar.tla (JSON-RPC envelope, exactly one of result/error, error object, result shape per method, content items, descriptors) and Core's reaction set, including 'never an empty or successful 2xx for an input that is not served'.",
   note="Trusted: TLC, the reference peer and SSE parser, the hand-written grammar (subset of MCP 2025-03-26 the library uses). Where the statement is silent (version-less envelopes, exotic id types, junk params of list methods) both serving and refusing are admitted; a response may echo an exotic id of its own request.",
   technique="TLA+ enumeration of request classes + replay on 6 server kinds + TLC validation of every exchange against a TLA+ message grammar"),
 "C14": dict(level="exploration", design="DESIGN.md §5 C14",
   text="Core.tla (checked by TLC) is the single reference: every request class of the 8 common methods x id kinds x 3 registration sets is sent as identical bytes to Streamable JSON / SSE / stateless / sessions-disabled, legacy SSE and stdio servers; the normalised answers must be pairwise equal (same result up to list order, or the same error code) and admitted by Core; a scripted server gives the same 23 answers (every content kind, structured content, error answers, lists, prompt messages, resource contents) to the library's Streamable (JSON and SSE answers), legacy SSE and stdio clients and the returned values / error classes must agree; the answer tables are validated by TLC against TraceParity.",
   note="Trusted: TLC, the raw peer, the scripted server and the scripted stdio child. Compared up to the order of listed items and the wording of error messages.",
   technique="TLA+ reference (Core) + identical-bytes replay on 6 server kinds and 4 client configurations + TLC validation of the answer tables"),
 "C06": dict(level="fault_enumeration", design="DESIGN.md §5 C06",
   text="Survive.tla (checked by TLC for all input sequences up to length 3) names the input classes and the reactions admitted for each; representatives of every class (syntax garbage, truncation at token boundaries, invalid UTF-8, nesting 10^4, 10 MiB strings, huge numbers, every JSON type in every field, unknown methods, wrong paths and verbs, bad Content-Length, duplicated / garbage headers, stray responses and notifications) are fed by a raw peer - in orders realising every ordered pair of classes in the thorough tier - to Streamable JSON / SSE / stateless / sessions-disabled, legacy SSE and stdio servers running in a child process; after each batch the server must answer a ping on the same and on a fresh connection and have no library goroutine left; a crash is bisected to the single input; the feed / health log is validated by TLC against TraceSurvive.",
   note="Trusted: TLC, the raw peer (every exchange bounded: 5-10 s), the library-frame filter of the goroutine dump. Coverage-guided byte fuzzing is a different technique and not used: 'all byte strings' is covered by classes only.",
   technique="TLA+ enumeration of fault classes and orderings + fault-injecting raw peer against 6 server kinds + TLC validation of the feed/health log"),
 "C07": dict(level="fault_enumeration", design="DESIGN.md §5 C07",
   text="TLC checks ClientSurvive.tla for every bad-frame class x position: the reader survives, call 1 ends (liveness) and never with a foreign answer, the later call completes, the client closes; the sticky-decoder and double-signal defects yield counterexamples; every scenario is executed against the real Streamable client (JSON answers, SSE answers, listening stream), the legacy SSE client and the stdio client (scripted child) with concrete bytes per class (garbage, non-JSON, wrong kind, unknown id, id of the wrong type, 100 KiB / 8 MiB frames, blank lines, comments, neither / both of result and error, invalid UTF-8, repeated endpoint event, truncated JSON); observed: how call 1 and the later call end, CPU burnt while idle (spin detector with repeated windows), Close(), delivery of a later well-formed notification; a crash of the client process is bisected; the scenario logs are validated by TLC against TraceClientSurvive.",
   note="Trusted: TLC, the scripted servers / child, process CPU time as spin signal (> 150 ms in each of up to 4 consecutive 300 ms idle windows). Call deadlines 1.5 s / 2.5 s.",
   technique="TLA+ model checking (TLC, incl. liveness) + scripted adversarial servers against 5 client configurations + TLC trace validation"),
 "C08": dict(level="model_checking", design="DESIGN.md §5 C08",
   text="TLC checks CallEnds.tla (1..3 pending calls; fault kind close / reset / stall / exit / kill / client Close x boundary of the exchange; context end): every call ends (liveness under weak fairness), a result is returned only when the complete answer had arrived, an error has a cause, the reader stays alive while the connection is up, nothing is held after Close; the leak-on-early-return variant yields a counterexample. PeerGone.tla (server side): stream entry, handler invocation and pending entry of a vanished peer are released; with a handler context nothing cancels they never are (counterexample). Every (fault, boundary) initial state is executed against the real Streamable client (JSON answers, SSE answers with and without notification handlers), the legacy SSE client and the stdio client with 1..3 pending calls and three context kinds; the peer is a raw TCP server that cuts the answer at the boundary / at sampled byte offsets / in the middle of a half-read request and then sends FIN, RST or nothing, or a scripted child that exits, kills itself or goes silent; Close() while calls are pending, and - with the reader parked by a hook between looking up a call's channel and handing the answer over - cancel and Close racing a late answer. Observed: outcome and time of each call relative to fault and context end (1 s bound); after Close: library goroutines, net/http connection goroutines, descriptors, child process, pending table versus the state before the client existed; a later call after a lost race. Server side: a raw peer brings real Streamable (JSON / SSE) and legacy servers into each PeerGone state and closes / resets all its connections; streams, pending entries, handler invocations and library goroutines must be back within 2 s. All logs are validated by TLC against TraceCallEnds / TracePeerGone.",
   note="Trusted: TLC, the raw fault server and scripted child, /proc/self/fd and runtime.Stack as leak probes, wall-clock bounds (1 s promptness, 2 s release; 1.5 s settle after Close). Byte offsets are sampled (24 per client configuration in the thorough tier), not exhaustive. A stdio child that closes stdout but stays alive is outside the statement.",
   technique="TLA+ model checking (TLC, incl. liveness) + fault-injecting raw TCP server / scripted child against 5 client configurations and 3 server kinds + hook-gated race schedules + TLC trace validation"),
}
NA = {
 "C20": "data-race freedom is a statement about individual memory accesses under the Go memory model; an abstract state-machine specification has no notion of them (see DESIGN.md §6)",
}

def main():
    hooks = subprocess.run(["git", "-C", "/repo", "log", "--format=%h %s"], capture_output=True, text=True).stdout.splitlines()
    hook_commits = [l.split()[0] for l in hooks if l.split(" ", 1)[1].startswith("verif hooks")]
    checks = []
    for pid in sorted(CHECKS):
        c = CHECKS[pid]
        checks.append({
            "property_id": pid,
            "quick_cmd": "python3 tools/check %s --tier quick" % pid,
            "thorough_cmd": "python3 tools/check %s --tier thorough" % pid,
            "evidence_file": "evidence/%s.json" % pid,
            "replay_cmd_template": "python3 tools/check %s --replay {path}" % pid,
            "engine": "tlc+mcpdrive",
            "level_claimed": {"category": c["level"], "text": c["text"], "design_ref": c["design"]},
            "level_note": c["note"],
            "technique": c["technique"],
        })
    na = []
    for p in props:
        if p["id"] in CHECKS:
            continue
        na.append({"property_id": p["id"], "reason": NA.get(p["id"], "check not built yet (work in progress; see DESIGN.md §9 build order)")})
    m = {"version": 1,
         "setup_cmd": "python3 tools/check build",
         "hooks": {"guard": "verif",
                   "enable": "go build -tags verif (the harness module /verif/harness replaces trpc.group/trpc-go/trpc-mcp-go => /repo and is rebuilt by every check)",
                   "baseline_off_cmd": "cd /repo && go test -mod=mod -json -vet=off -count=1 -timeout 25m ./...",
                   "source_commits": hook_commits, "add_only": True},
         "engines": [{"name": "tlc+mcpdrive", "path": "tools/check", "serves_properties": sorted(CHECKS),
                      "kind_free_text": "explicit TLA+ specifications (spec/*.tla) checked by TLC; TLC-generated behaviours replayed into the real code by the Go harness (harness/cmd/mcpdrive); recorded traces validated by TLC against Trace*.tla"}],
         "checks": checks,
         "not_applicable": na,
         "notes": "exit 2 = the check itself is broken (TLC error, harness build failure, unrealisable schedules); never a violation."}
    json.dump(m, open(os.path.join(V, "MANIFEST.json"), "w"), indent=1)
    print("manifest: %d checks, %d not_applicable" % (len(checks), len(na)))

if __name__ == "__main__":
    main()
