"""C17 - retry: bounded attempts, only transient failures, capped back-off, prompt cancel, clamping.

1. TLC: Retry (attempt loop, classification, back-off sequence, cancellation at every instant) for
   MaxRetries 0..3 and without a retry option: Bounded, OnlyAfterTransient, NeverAfterFinal, WaitsOK,
   NoRetryMeansOnce, CancelStops, NoAttemptAfterCancelSeen, Termination.  RetryClamp: every point of the
   boundary grid is clamped into the documented ranges, idempotently, valid points untouched.
2. Binding A: (a) how each outcome kind surfaces as an error of the REAL Streamable and legacy SSE
   clients is learned end to end (scripted server: status codes, RST, refused port, silent close, read
   timeout); (b) every leaf of the Retry state graph (outcome sequence x cancel instant) is replayed
   through the real retry loop with those error texts; attempts, returned error, wait lower bounds and
   promptness of cancel are compared; (c) a sample of the scripts is run end to end through the real
   clients with millisecond back-offs; (d) the clamp grid is compared with the real Validate() and with
   what WithRetry installs.
3. Binding B: the log of every direct replay is validated by TLC against TraceRetry (silent loop steps)."""
import json
import random
from concurrent.futures import ThreadPoolExecutor

from vlib import common, tla, tracebatch

PROP = "C17"
KINDS = ["success", "rpcError", "s4xx", "other", "s408", "s409", "s429", "s5xx", "refused", "reset", "timeout", "eof"]
TRANSIENT = {"s408", "s409", "s429", "s5xx", "refused", "reset", "timeout", "eof"}
PREFIX = "tool call request failed: "


def leaves(graph):
    """every terminated behaviour: (outcomes, cancel position) with the model's result."""
    out = {}
    parent = {}
    for (src, dst, name, args) in graph.edges:
        parent[dst] = (src, name, args)
    for nid, st in graph.nodes.items():
        if st["phase"] != "done":
            continue
        # walk back to find where Cancel happened
        seq = []
        n = nid
        while n in parent:
            src, name, args = parent[n]
            seq.append((name, args, graph.nodes[src]))
            n = src
        seq.reverse()
        cancel = None
        for name, args, before in seq:
            if name == "Cancel":
                k = len(before["outcomes"])
                if before["phase"] == "check" and k == 0:
                    cancel = ("before", 0)
                elif before["phase"] == "attempting":
                    cancel = ("attempt", k + 1)
                else:   # waiting, or the check right after a wait: same observable instant
                    cancel = ("wait", k)
        key = (tuple(st["outcomes"]), cancel)
        out[key] = {"outcomes": list(st["outcomes"]), "cancel": cancel, "result": st["result"], "waits": list(st["waits"])}
    return list(out.values())


def real_cfg(maxr, cancel):
    """concrete back-off configuration: tiny waits, except that a wait that must be interrupted is long."""
    if cancel and cancel[0] == "wait":
        k = cancel[1]
        f = 10.0
        init = 600.0 / (f ** (k - 1))
        return {"max": maxr, "initial_ms": init, "factor": f, "max_ms": 1000.0}
    return {"max": maxr, "initial_ms": 1.0, "factor": 2.0, "max_ms": 3.0}


def backoff(cfg, k):
    return min(cfg["initial_ms"] * cfg["factor"] ** (k - 1), cfg["max_ms"])


def learn(run):
    """error text per (client, kind, variant)."""
    scripts = []
    for client in ("streamable", "legacy"):
        for kind in KINDS:
            if kind in ("success", "rpcError", "other"):
                continue
            nvar = 6 if kind in ("s4xx", "s5xx") else 1
            for v in range(nvar):
                scripts.append({"id": "%s|%s|%d" % (client, kind, v), "client": client, "retry": None, "outcomes": [kind], "variant": v, "body_var": 0})
    out = common.run_harness_json(["c17"], {"e2e": scripts}, timeout=300)
    texts = {}
    for r in out["e2e"]:
        if r.get("broken"):
            raise common.Broken("learning %s: %s" % (r["id"], r["broken"]))
        client, kind, v = r["id"].split("|")
        if r["ok"] or r["attempts"] != 1:
            raise common.Broken("learning %s: unexpected %s" % (r["id"], r))
        texts.setdefault((client, kind), []).append(r["err"][len(PREFIX):] if r["err"].startswith(PREFIX) else r["err"])
    for client in ("streamable", "legacy"):
        texts[(client, "other")] = ["failed to serialize request: json: unsupported value", "response missing result field"]
        texts[(client, "success")] = [""]
        texts[(client, "rpcError")] = [""]
    return texts


def run(tier, replay=None):
    run_ = common.Run(PROP, "model_checking", tier)
    rnd = random.Random(common.seed())
    if replay:
        doc = json.load(open(replay))
        print(json.dumps(common.run_harness_json(doc["replay"]["cmd"], doc["replay"]["input"]), indent=1)[:6000])
        return 0
    tla.sany("Retry")
    tla.sany("RetryClamp")
    tla.sany("TraceRetry")
    if tier == "thorough":
        # the attempt bound for ANY MaxRetries: an inductive invariant discharged by Apalache (RetryInd.tla = Retry.tla with the
        # history sequences replaced by their lengths); TLC covers MaxRetries 0..3 only
        obligations = tla.apalache_inductive("RetryInd")
        if not all(ok for _, ok, _ in obligations):
            raise common.Broken("RetryInd: Apalache refutes %s" % [n for n, ok, _ in obligations if not ok])
        run_.extra["apalache_inductive_invariant"] = [{"obligation": n, "holds": ok, "seconds": round(sec, 1)} for n, ok, sec in obligations]
    cfgs = ["none", "0", "1", "2"] + (["3"] if tier == "thorough" else [])
    scripts = []
    for c in cfgs:
        r = tla.run_tlc("Retry", "Retry_%s.cfg" % c, dump=True)
        if not r.ok:
            raise common.Broken("Retry_%s violates %s" % (c, r.violation))
        run_.add_tlc(r)
        for lf in leaves(r.graph):
            lf["cfg"] = c
            scripts.append(lf)
    if tier == "quick":
        # all of none/0/1 and a seeded sample of the two-retry scripts
        two = [s for s in scripts if s["cfg"] == "2"]
        rnd.shuffle(two)
        scripts = [s for s in scripts if s["cfg"] != "2"] + two[:400]
    texts = learn(run_)

    # ---- (b) direct replay
    direct = []
    meta = {}
    for n, s in enumerate(scripts):
        for client in ("streamable", "legacy"):
            sid = "d%d%s" % (n, client[0])
            maxr = None if s["cfg"] == "none" else int(s["cfg"])
            cfg = None if maxr is None else real_cfg(maxr, s["cancel"])
            errs = [rnd.choice(texts[(client, o)]) for o in s["outcomes"]]
            d = {"id": sid, "retry": cfg, "errors": errs, "cancel": {"at": s["cancel"][0] if s["cancel"] else "", "k": s["cancel"][1] if s["cancel"] else 0}}
            direct.append(d)
            meta[sid] = (s, client, cfg, errs)
    # the cap must bite on EVERY wait: a configuration whose uncapped waits explode (40, 400, 4000 ms) against a 50 ms cap
    capc = [s for s in scripts if len(s["waits"]) >= 2 and not s["cancel"] and s["cfg"] != "none"]
    rnd.shuffle(capc)
    for n, s in enumerate(capc[:16 if tier == "quick" else 80]):
        sid = "cap%d" % n
        cfg = {"max": int(s["cfg"]), "initial_ms": 40.0, "factor": 10.0, "max_ms": 50.0}
        errs = [rnd.choice(texts[("streamable", o)]) for o in s["outcomes"]]
        direct.append({"id": sid, "retry": cfg, "errors": errs, "cancel": {"at": "", "k": 0}})
        meta[sid] = (s, "streamable", cfg, errs)
    # waits grow by the FACTOR also when it is not an integer: 40, 60, 90 ms with factor 1.5 (and 40, 70, 122.5 with 1.75)
    for n, s in enumerate(capc[:8 if tier == "quick" else 40]):
        sid = "frac%d" % n
        cfg = {"max": int(s["cfg"]), "initial_ms": 40.0, "factor": [1.5, 1.75][n % 2], "max_ms": 1000.0}
        errs = [rnd.choice(texts[("streamable", o)]) for o in s["outcomes"]]
        direct.append({"id": sid, "retry": cfg, "errors": errs, "cancel": {"at": "", "k": 0}})
        meta[sid] = (s, "streamable", cfg, errs)
    # the wait begins when the attempt has FAILED: attempts that take 30 ms themselves, back-offs of 40, 80 ms
    for n, s in enumerate([x for x in capc if len(x["outcomes"]) >= 2][:4 if tier == "quick" else 12]):
        sid = "slowop%d" % n
        cfg = {"max": int(s["cfg"]), "initial_ms": 40.0, "factor": 2.0, "max_ms": 1000.0}
        errs = [rnd.choice(texts[("streamable", o)]) for o in s["outcomes"]]
        direct.append({"id": sid, "retry": cfg, "errors": errs, "op_ms": 30.0, "cancel": {"at": "", "k": 0}})
        meta[sid] = (s, "streamable", cfg, errs)
    # the cap bites where MaxBackoff / InitialBackoff is not an integer: 400, 600, 790 ms (the upper bound of a wait is cap + 250 ms)
    for n, s in enumerate([x for x in capc if len(x["outcomes"]) >= 2][:4 if tier == "quick" else 12]):
        sid = "capfrac%d" % n
        cfg = {"max": int(s["cfg"]), "initial_ms": 400.0, "factor": 1.5, "max_ms": 790.0}
        errs = [rnd.choice(texts[("streamable", o)]) for o in s["outcomes"]]
        direct.append({"id": sid, "retry": cfg, "errors": errs, "cancel": {"at": "", "k": 0}})
        meta[sid] = (s, "streamable", cfg, errs)
    nproc = 12
    chunks = [direct[i::nproc] for i in range(nproc)]

    def one(ch):
        return common.run_harness_json(["c17"], {"direct": ch}, timeout=900)["direct"] if ch else []

    items = {c: [] for c in cfgs}
    rps = {}
    with ThreadPoolExecutor(max_workers=nproc) as ex:
        for res in ex.map(one, chunks):
            for r in res:
                s, client, cfg, errs = meta[r["id"]]
                run_.evaluations += 1
                rp = {"cmd": ["c17"], "input": {"direct": [d for d in direct if d["id"] == r["id"]]}, "model": s, "observed": r, "spec": "Retry"}
                rps[r["id"]] = rp
                kinds = s["outcomes"]
                desc = "outcomes=%s cancel=%s retry=%s" % (kinds, s["cancel"], s["cfg"])
                last = kinds[-1] if kinds else None
                if r["attempts"] != len(kinds) or r.get("extra_attempts_requested"):
                    which = "more" if r["attempts"] > len(kinds) or r.get("extra_attempts_requested") else "fewer"
                    after = kinds[r["attempts"] - 2] if which == "more" and 1 < r["attempts"] <= len(kinds) + 1 else (last or "none")
                    run_.diverge("client=%s attempts-%s after=%s cancel=%s" % (client, which, after, s["cancel"][0] if s["cancel"] else "no"),
                                 "%d attempts were made, the specification allows exactly %d (%s); error texts %s" % (r["attempts"], len(kinds), desc, errs), rp)
                exp = s["result"]
                if exp in ("success", "rpcError"):
                    okres = r["err"] == ""
                elif exp == "ctxErr":
                    okres = r["is_ctx_err"]
                else:
                    okres = r["err"] == errs[-1] and not r["is_ctx_err"]
                if not okres and r["attempts"] == len(kinds):
                    run_.diverge("client=%s result expected=%s" % (client, exp if exp in ("ctxErr", "success", "rpcError") else "last-error"),
                                 "the loop returned %r (ctx error: %s), expected %s (%s)" % (r["err"][:120], r["is_ctx_err"], exp, desc), rp)
                if cfg and r["attempts"] == len(kinds):
                    for k, gap in enumerate(r.get("gaps_ms") or [], 1):
                        if gap < backoff(cfg, k) - 0.05:
                            run_.diverge("client=%s wait-too-short k=%d" % (client, k), "wait %d lasted %.2f ms, must be %.2f ms (%s)" % (k, gap, backoff(cfg, k), cfg), rp)
                        if not (s["cancel"] and s["cancel"][0] == "wait" and s["cancel"][1] == k) and gap > backoff(cfg, k) + 250:
                            run_.diverge("client=%s wait-uncapped k=%d" % (client, k), "wait %d lasted %.1f ms, cap is %.1f ms (%s)" % (k, gap, backoff(cfg, k), cfg), rp)
                if s["cancel"] and s["cancel"][0] == "wait" and r["attempts"] == len(kinds):
                    if r["after_cancel_ms"] > 200:
                        run_.diverge("client=%s cancel-not-prompt" % client, "the loop returned %.0f ms after the cancel (the wait had ~600 ms left)" % r["after_cancel_ms"], rp)
                if len(kinds) > 1 or s["cancel"]:
                    run_.nontriv([client, kinds, s["cancel"], s["cfg"]])
                # trace for TLC
                ev = [{"e": "cfg"}]
                c = s["cancel"]
                if c and c[0] == "before":
                    ev.append({"e": "cancel"})
                for i in range(r["attempts"]):
                    if c and c[0] == "attempt" and c[1] == i + 1:
                        ev.append({"e": "cancel"})
                    ev.append({"e": "attempt", "o": kinds[i] if i < len(kinds) else "other"})
                    if c and c[0] == "wait" and c[1] == i + 1:
                        ev.append({"e": "cancel"})
                if r["err"] == "":
                    resv = "ok"
                elif r["is_ctx_err"]:
                    resv = "ctxErr"
                else:
                    resv = "err:" + (kinds[min(r["attempts"], len(kinds)) - 1] if kinds else "other")
                ev.append({"e": "done", "result": resv})
                items[s["cfg"]].append((r["id"], ev))
                if len(run_.samples) < 3 and len(kinds) > 1:
                    run_.sample({"script": s, "client_error_texts": errs, "config_ms": cfg, "observed": r, "trace": ev})
    had = bool(run_.violations) or bool(run_.known_hit)
    for c in cfgs:
        rej = tracebatch.validate(run_, "TraceRetry", "TraceRetry_%s.cfg" % c, items[c])
        for tid, (pos, line) in rej.items():
            if not had:
                raise common.Broken("TLC rejects the log of %s at %s although the comparison accepted it" % (tid, line))
            s, client, cfg, errs = meta[tid]
            run_.diverge("client=%s trace-rejected at=%s" % (client, line.get("e")), "TLC rejects the run log of %s at %d %s" % (tid, pos, json.dumps(line)), rps[tid])

    # ---- (c) end to end through the real clients
    e2e = []
    cand = [s for s in scripts if not s["cancel"] and s["cfg"] not in ("none",) and "other" not in s["outcomes"]]
    rnd.shuffle(cand)
    ne2e = 60 if tier == "quick" else 400
    for n, s in enumerate(cand[:ne2e]):
        for client in ("streamable", "legacy"):
            e2e.append({"id": "e%d|%s" % (n, client), "client": client, "retry": real_cfg(int(s["cfg"]), None), "outcomes": s["outcomes"],
                        "variant": rnd.randrange(6), "body_var": 0, "_model": s})
    # without a retry option every request is sent exactly once
    for n, k in enumerate(KINDS):
        if k == "other":
            continue
        for client in ("streamable", "legacy"):
            e2e.append({"id": "n%d|%s" % (n, client), "client": client, "retry": None, "outcomes": [k, k, k], "variant": n, "body_var": 0,
                        "_model": {"outcomes": [k], "result": k, "cfg": "none"}})
    # a 4xx whose BODY mentions retryable status codes is still a 4xx
    for client in ("streamable", "legacy"):
        e2e.append({"id": "body|%s" % client, "client": client, "retry": {"max": 3, "initial_ms": 1.0, "factor": 2.0, "max_ms": 3.0},
                    "outcomes": ["s4xx", "s4xx", "s4xx", "s4xx"], "variant": 0, "body_var": 1,
                    "_model": {"outcomes": ["s4xx"], "result": "s4xx", "cfg": "3"}})
    # the caller's deadline passes while the loop waits between attempts: the call ends at once with the CONTEXT's error
    for client in ("streamable", "legacy"):
        for k, o in enumerate(("s5xx", "s429", "reset")):
            e2e.append({"id": "dl%d|%s" % (k, client), "client": client, "retry": {"max": 3, "initial_ms": 2500.0, "factor": 2.0, "max_ms": 5000.0},
                        "outcomes": [o, o, o, o], "variant": k, "body_var": 0, "deadline_ms": 400,
                        "_model": {"outcomes": [o], "result": "ctxErr", "cfg": "3"}})
    # a final failure stays final whatever the request's own id is: ids that look like retryable status codes
    for client in ("streamable", "legacy"):
        for sid in (408, 409, 429, 500, 502, 503, 504):
            for v in (0, 1):
                e2e.append({"id": "id%d-%d|%s" % (sid, v, client), "client": client, "retry": {"max": 3, "initial_ms": 1.0, "factor": 2.0, "max_ms": 3.0},
                            "outcomes": ["s4xx", "s4xx", "s4xx", "s4xx"], "variant": v, "body_var": 0, "start_id": sid,
                            "_model": {"outcomes": ["s4xx"], "result": "s4xx", "cfg": "3"}})
    chunks = [e2e[i::nproc] for i in range(nproc)]

    def one2(ch):
        return common.run_harness_json(["c17"], {"e2e": [{k: v for k, v in s.items() if k != "_model"} for s in ch]}, timeout=900)["e2e"] if ch else []

    byid = {s["id"]: s for s in e2e}
    with ThreadPoolExecutor(max_workers=nproc) as ex:
        for res in ex.map(one2, chunks):
            for r in res:
                s = byid[r["id"]]
                m = s["_model"]
                client = s["client"]
                run_.evaluations += 1
                if r.get("broken"):
                    raise common.Broken("e2e %s: %s" % (r["id"], r["broken"]))
                rp = {"cmd": ["c17"], "input": {"e2e": [{k: v for k, v in s.items() if k != "_model"}]}, "model": m, "observed": r}
                want = len(m["outcomes"])
                if r["attempts"] != want:
                    last = m["outcomes"][-1]
                    bodytag = " body-mentions-status-codes" if s["body_var"] == 1 else ""
                    run_.diverge("client=%s e2e attempts after=%s retry=%s%s" % (client, last if r["attempts"] > want else "transient", m["cfg"], bodytag),
                                 "the scripted server saw %d attempts, the specification allows %d (script %s, error %r)"
                                 % (r["attempts"], want, s["outcomes"], r.get("err", "")[:160]), rp)
                if (m["result"] == "success") != r["ok"]:
                    run_.diverge("client=%s e2e result" % client, "call ok=%s, model result %s (script %s)" % (r["ok"], m["result"], s["outcomes"]), rp)
                if m["result"] == "ctxErr" and r["attempts"] == want:
                    if not r.get("is_ctx_err"):
                        run_.diverge("client=%s e2e deadline-in-wait result-not-context-error" % client,
                                     "the caller's deadline passed during the back-off wait; the call returned %r instead of the context's error" % r.get("err", "")[:200], rp)
                    elif r.get("ms", 0) > s["deadline_ms"] + 700:
                        run_.diverge("client=%s e2e deadline-in-wait late" % client,
                                     "the call returned %.0f ms after it started, its deadline was %d ms" % (r["ms"], s["deadline_ms"]), rp)
                run_.nontriv(["e2e", client, s["outcomes"], s["retry"], s["body_var"]])

    # ---- (c') without a retry option a request is TRANSMITTED once - also when its connection dies before the first byte of the
    # answer (Retry: NoRetryMeansOnce; the raw fault server of C08 counts the copies of every request it receives); with
    # MaxRetries = 1 nothing is said here (the configured retry re-sends)
    lost = [{"id": "once-%s-%s-%d" % (client, fault, n), "client": client, "fault": fault, "at": "b0", "ncalls": n, "ctx": "none"}
            for client in ("json", "sse", "legacy") for fault in ("close", "reset") for n in (1, 2)]
    lout = common.run_harness_json(["c08"], {"scenarios": lost}, timeout=600, crash_ok=True)
    if "_crash" in lout:
        run_.diverge("no-retry process-crash", lout["_crash"][:1200], {"cmd": ["c08"], "input": {"scenarios": lost}})
    else:
        for sc, r in zip(lost, lout["results"]):
            if r.get("broken"):
                raise common.Broken("no-retry scenario %s: %s" % (sc["id"], r["broken"]))
            run_.evaluations += 1
            run_.nontriv(["once", sc["id"]])
            extra = {k: v for k, v in (r.get("seen") or {}).items() if v > 1}
            if extra:
                run_.diverge("client=%s no-retry request-transmitted-twice" % sc["client"],
                             "no retry option is configured and the connection was %s before the first byte of the answer: the peer received %s" % (sc["fault"], r.get("seen")),
                             {"cmd": ["c08"], "input": {"scenarios": [sc]}, "observed": {"seen": r.get("seen"), "calls": r["calls"]}, "spec": "Retry (NoRetryMeansOnce)"})
    # ---- (d) clamping
    cr = tla.run_tlc("RetryClamp", "RetryClamp.cfg", dump=True)
    if not cr.ok:
        raise common.Broken("RetryClamp violates %s" % cr.violation)
    run_.add_tlc(cr)
    grid = []
    for st in cr.graph.nodes.values():
        c, o = st["cfg"], st["out"]
        grid.append(({"retries": c["retries"], "initial_us": c["initial"] * 100.0, "factor": c["factor"] / 100.0, "max_us": c["max"] * 100.0}, o))
    if tier == "quick":
        rnd.shuffle(grid)
        grid = grid[:1500]
    specials = [({"retries": 3, "initial_us": 1000.0, "factor": 0.0, "max_us": 5000.0, "special": sp}, None) for sp in ("nan", "+inf", "-inf")]
    allc = grid + specials
    out = common.run_harness_json(["c17"], {"clamp": [g[0] for g in allc]}, timeout=600)["clamp"]
    for (cin, exp), got in zip(allc, out):
        run_.evaluations += 1
        rp = {"cmd": ["c17"], "input": {"clamp": [cin]}, "expected": exp, "observed": got, "spec": "RetryClamp"}
        if exp is not None:
            want = {"retries": exp["retries"], "initial_us": exp["initial"] * 100.0, "factor": exp["factor"] / 100.0, "max_us": exp["max"] * 100.0}
            gotv = {k: got[k] for k in want}
            if any(abs(gotv[k] - want[k]) > 1e-6 for k in want):
                field = [k for k in want if abs(gotv[k] - want[k]) > 1e-6][0]
                run_.diverge("clamp field=%s" % field, "Validate(%s) = %s, the documented ranges give %s" % (cin, gotv, want), rp)
        else:
            if not (1.0 <= got["factor"] <= 10.0):
                run_.diverge("clamp factor=%s" % cin["special"], "a %s back-off factor is not clamped into 1..10: %s" % (cin["special"], got["factor_s"]), rp)
        if not got["idempotent"]:
            run_.diverge("clamp not-idempotent", "Validate(Validate(c)) differs from Validate(c) for %s" % cin, rp)
        if not got["via_option_equal"]:
            run_.diverge("clamp option", "WithRetry installs a configuration different from Validate() for %s" % cin, rp)
        # the other entry points: WithRetry on the legacy client, WithSimpleRetry(n) on both clients
        if not got.get("via_option_equal_legacy", True):
            run_.diverge("clamp option client=legacy", "WithRetry on the legacy client installs a configuration different from Validate() for %s" % cin, rp)
        if exp is not None:
            for k, name in enumerate(("streamable", "legacy")):
                sr = (got.get("simple_retries") or [exp["retries"], exp["retries"]])[k]
                if sr != exp["retries"]:
                    run_.diverge("clamp option=WithSimpleRetry field=retries", "WithSimpleRetry(%d) on the %s client installs %d retries, the documented range gives %d"
                                 % (cin["retries"], name, sr, exp["retries"]), rp)
        if not got.get("simple_valid", True):
            run_.diverge("clamp option=WithSimpleRetry not-in-range", "WithSimpleRetry(%d) installs a configuration that Validate() would change" % cin["retries"], rp)
    run_.exhaustive = tier == "thorough"
    run_.extra["direct_scripts"] = len(direct)
    run_.extra["e2e_scripts"] = len(e2e)
    run_.extra["clamp_points"] = len(allc)
    run_.rule = ("scripts = leaves of the Retry state graph (every outcome sequence up to MaxRetries+1 over 12 outcome kinds x every cancel "
                 "instant), replayed directly with error texts learned from the real clients (both clients), a sample end to end, plus the "
                 "clamp grid from RetryClamp; non-trivial = scripts with a retry or a cancellation, and all end-to-end scripts")
    run_.assumptions = ["upper bounds on waits are generous (cap + 250 ms); only lower bounds are tight",
                        "a cancel that lands between the end of a wait and the next context check is replayed as a cancel during that wait",
                        "http.Client.Timeout style errors are not part of the script alphabet (ambiguous classification)"]
    return run_.finish()
