"""C11 - a newer listening stream owns the session; an old one's exit never evicts it.

1. TLC: the intended design (GetStream, FlushFirst=FALSE, DeleteByKey=FALSE) satisfies SendOK & co for
   every interleaving; each defect switch alone yields a counterexample (sensitivity of the spec).
2. Binding A: the state graph of the finest-grain model is dumped, covered edge by edge with paths,
   and every path is forced on the real GET handler / push path through the hook gates.  What the raw
   peer observes for every send is compared with the oracle value carried in the graph's states.
3. Binding B: the black-box event log of every replay (and of ungated reconnect storms) is validated
   by TLC against TraceGetStream (the oracle part of the same module)."""
import json
import os
import random
import tempfile
from concurrent.futures import ThreadPoolExecutor

from vlib import common, tla, graphwalk

PROP = "C11"
OPS = {"Open": "open", "Proceed": "proceed", "ClientClose": "close", "CleanupBegin": "cleanupbegin", "Cleanup": "cleanup",
       "SendStart": "sstart", "SendAcquire": "sacq", "SendEnd": "send"}


def model_check(run, tier):
    tla.sany("GetStream")
    tla.sany("TraceGetStream")
    cfgs = ["GetStream_intended_quick.cfg", "GetStream_intended.cfg"]
    if tier == "thorough":
        cfgs.append("GetStream_intended_big.cfg")
    for c in cfgs:
        r = tla.run_tlc("GetStream", c, coverage=(tier == "thorough" and c == "GetStream_intended.cfg"))
        if not r.ok:
            raise common.Broken("spec invariant %s fails on the intended design (%s)" % (r.violation, c))
        if r.coverage_zero:
            actions = [z for z in r.coverage_zero if z.startswith("action")]
            if actions:
                raise common.Broken("vacuous model: %s" % actions)
        run.add_tlc(r)
    for c, inv in (("GetStream_bug_deletebykey.cfg", "SendOK"), ("GetStream_bug_flushfirst.cfg", "SendOK"),
                   ("GetStream_reach.cfg", "ReachStrict")):
        r = tla.run_tlc("GetStream", c)
        if r.ok or r.violation != inv:
            raise common.Broken("spec self-test: %s should violate %s, got %s" % (c, inv, r.violation))
        run.add_tlc(r)


def schedules_from_graph(g, paths, rnd, prefix):
    out = []
    for n, path in enumerate(paths):
        nodes = [g.nodes[x] for x in graphwalk.path_nodes(g, path)]
        steps = []
        nprobe = 0
        for k, i in enumerate(path):
            _, _, name, args = g.edges[i]
            st = {"op": OPS[name], "arg": args[0]}
            if name == "SendStart":
                st["kind"] = rnd.choice(["notif", "notif", "request"])
            steps.append(st)
            if name == "SendAcquire" and nodes[k + 1]["spc"][args[0]] == "done":
                steps.append({"op": "send", "arg": args[0]})
            # an ungated probe wherever the oracle is strict and no scheduled send is parked inside a write lock
            after = nodes[k + 1]
            nw = after["newest"]
            if name in ("Cleanup", "Proceed", "Open", "SendEnd", "CleanupBegin") and nw != "none" and nw not in after["dropped"] \
                    and all(v != "writing" for v in after["spc"].values()) and rnd.random() < 0.7:
                nprobe += 1
                steps.append({"op": "probe", "arg": "pr%d" % nprobe, "_expect": nw, "_pos": k + 1})
        out.append({"id": "%s%d" % (prefix, n), "steps": steps, "gated": True, "_path": path, "_nodes": nodes})
    return out


def run_schedules(scheds, nproc=8):
    """Run schedules on the harness, several processes in parallel."""
    chunks = [[] for _ in range(nproc)]
    for i, s in enumerate(scheds):
        pub = {k: v for k, v in s.items() if not k.startswith("_")}
        pub["steps"] = [{k: v for k, v in st.items() if not k.startswith("_")} for st in s["steps"]]
        chunks[i % nproc].append(pub)
    chunks = [c for c in chunks if c]

    def one(chunk):
        out = common.run_harness_json(["c11"], {"schedules": chunk}, timeout=1200, crash_ok=True)
        if "_crash" not in out:
            return out["results"]
        # the process died inside the library: find the schedule(s) that kill it
        res = []
        for s in chunk:
            o = common.run_harness_json(["c11"], {"schedules": [s]}, timeout=300, crash_ok=True)
            if "_crash" in o:
                res.append({"id": s["id"], "crash": o["_crash"], "obs": [], "trace": [], "eof": {}})
            else:
                res.extend(o["results"])
        return res

    results = {}
    with ThreadPoolExecutor(max_workers=nproc) as ex:
        for res in ex.map(one, chunks):
            for r in res:
                results[r["id"]] = r
    return results


def judge(run, g, s, r):
    """Compare what the real code did on schedule s with the oracle in the graph states."""
    nodes = s["_nodes"]
    replay = {"schedule": {"id": s["id"], "gated": True, "steps": [{k: v for k, v in st.items() if not k.startswith("_")} for st in s["steps"]]}, "result": r,
              "spec": "GetStream (oracle: SendConforms)", "constants": "FlushFirst/DeleteByKey as-built-shaped graph"}
    if r.get("crash"):
        hist = " ".join("%s(%s)" % (st["op"], st["arg"]) for st in s["steps"])
        run.diverge("process-crash", "the server process crashed while replaying: %s\n%s" % (hist, r["crash"][:1500]), replay)
        return "strict"
    if r.get("stuck"):
        hist = " ".join("%s(%s)" % (st["op"], st["arg"]) for st in s["steps"])
        run.diverge("open-gets-no-headers", "a new listening stream could not be opened: %s; schedule %s" % (r["stuck"], hist), replay)
        return "strict"
    if r.get("unrealised"):
        return "unrealised"
    for o in r["obs"]:
        # the harness recovers a panic raised inside SendNotification / SendRequest so that the batch goes on; in a
        # user's program it is a crash of the goroutine that called the library
        if str(o.get("err", "")).startswith("panic:"):
            hist = " ".join("%s(%s)" % (st["op"], st["arg"]) for st in s["steps"])
            run.diverge("send-panics", "a send panicked inside the library while replaying: %s\n%s" % (hist, o["err"][:400]), replay)
            return "strict"
    obs = [o for o in r["obs"] if o["op"] == "send"]
    oi = 0
    strict = False
    byk = {o["arg"]: o for o in obs}
    for pos, ei in enumerate(s["_path"]):
        _, _, name, args = g.edges[ei]
        if name not in ("SendEnd", "SendAcquire"):
            continue
        k = args[0]
        if nodes[pos + 1]["spc"][k] != "done":
            continue
        exp = nodes[pos]["exp"][k]
        o = byk.get(k)
        if o is None:
            continue
        if exp != "any":
            strict = True
            if not (o["ok"] and o["on"] == exp):
                hist = " ".join("%s(%s)" % (st["op"], st["arg"]) for st in s["steps"][:pos + 1])
                key = classify(g, s, pos)
                run.diverge(key, "send %s must arrive on %s (newest stream, headers received) but ok=%s on=%s err=%s; history: %s"
                            % (k, exp, o["ok"], o["on"], o.get("err"), hist), replay)
    probes = {o["arg"]: o for o in r["obs"] if o["op"] == "probe"}
    for st in s["steps"]:
        if st["op"] != "probe" or st["arg"] not in probes:
            continue
        o = probes[st["arg"]]
        strict = True
        if not (o["ok"] and o["on"] == st["_expect"]):
            hist = " ".join("%s(%s)" % (x["op"], x["arg"]) for x in s["steps"][:s["steps"].index(st) + 1])
            run.diverge(classify(g, s, st["_pos"]), "a send must arrive on %s (newest stream, headers received, not dropped) but ok=%s on=%s err=%s; history: %s"
                        % (st["_expect"], o["ok"], o["on"], o.get("err"), hist), replay)
    final = nodes[-1]
    newest, dropped = final["newest"], final["dropped"]
    if newest != "none" and newest not in dropped:
        strict = True
        p = r["probe"]
        if not (p["ok"] and p["on"] == newest):
            key = classify(g, s, len(s["_path"]))
            hist = " ".join("%s(%s)" % (st["op"], st["arg"]) for st in s["steps"])
            run.diverge(key, "after quiescence a send must arrive on %s but ok=%s on=%s err=%s; history: %s"
                        % (newest, p["ok"], p["on"], p.get("err"), hist), replay)
        for c, eof in r["eof"].items():
            if c != newest and not eof:
                run.diverge("old-stream-not-closed", "stream %s was superseded by %s but never ended" % (c, newest), replay)
            if c == newest and eof:
                run.diverge(classify(g, s, len(s["_path"])), "the newest stream %s was closed by the server" % c, replay)
    return "strict" if strict else "lenient"


def classify(g, s, pos):
    """Name the defect window a failing history went through (key of a finding): which design-level
    hazard of the GetStream model the prefix of the schedule up to `pos` exercised."""
    nodes = s["_nodes"]
    # a send looked the table up while a stream with received headers was not registered yet
    for n in nodes[:pos + 1]:
        if n["newest"] != "none" and n["newest"] not in n["regd"]:
            return "window=headers-before-registration"
    for i, ei in enumerate(s["_path"][:pos]):
        _, _, name, args = g.edges[ei]
        if name == "Cleanup" and nodes[i]["table"] != args[0] and nodes[i]["table"] != "none":
            return "window=exit-deletes-newer-entry"
        if name == "Cleanup" and nodes[i]["mine"][args[0]] and nodes[i]["table"] != args[0]:
            return "window=exit-deletes-newer-entry"
    return "window=other"


def trace_lines(r, ren_c=None):
    """black-box trace of one run with connection / send names mapped onto the model's constants."""
    conns, sends = {}, {}
    out = []
    for e in r["trace"]:
        e = dict(e)
        if "c" in e:
            e["c"] = conns.setdefault(e["c"], "c%d" % (len(conns) + 1))
        if "k" in e:
            e["k"] = sends.setdefault(e["k"], "k%d" % (len(sends) + 1))
        if e["e"] == "send" and e["on"] != "none":
            e["on"] = conns.get(e["on"], e["on"])
        out.append(e)
    if len(conns) > 8 or len(sends) > 8:
        return None
    return out


def validate_traces(run, items):
    """items: list of (id, lines). Validate in batches with resets; returns set of rejected ids."""
    rejected = {}
    pending = [it for it in items if it[1]]
    while pending:
        lines, owner = [], []
        for tid, ls in pending:
            if lines:
                lines.append({"e": "reset"})
                owner.append(tid)
            for e in ls:
                lines.append(e)
                owner.append(tid)
        with tempfile.NamedTemporaryFile("w", suffix=".ndjson", delete=False) as f:
            for e in lines:
                f.write(json.dumps(e) + "\n")
            path = f.name
        try:
            ok, info = tla.validate_trace("TraceGetStream", "TraceGetStream.cfg", path)
        finally:
            os.unlink(path)
        run.states += info.get("distinct", 0)
        run.transitions += info.get("generated", 0)
        if ok:
            run.traces += len(pending)
            break
        hwm = info.get("hwm")
        if hwm is None or hwm >= len(lines):
            raise common.Broken("trace validation failed without a usable high-water mark:\n" + info["stdout"][-1500:])
        bad = owner[hwm]            # line hwm+1 (1-based) could not be matched
        idx = [i for i, (tid, _) in enumerate(pending) if tid == bad][0]
        run.traces += idx
        rejected[bad] = lines[hwm]
        pending = pending[idx + 1:]
        if len(rejected) >= 4:
            break
    return rejected


def storm(run, seedv, n):
    out = common.run_harness_json(["c11storm"], {"seed": seedv, "runs": n}, timeout=600, crash_ok=True)
    if "_crash" in out:
        run.evaluations += 1
        run.diverge("process-crash", "the server process crashed during an ungated reconnect storm (seed %d):\n%s"
                    % (seedv, out["_crash"][:1500]), {"cmd": "c11storm", "seed": seedv, "runs": n})
        return
    res = out["results"]
    items = []
    byid = {}
    for r in res:
        ls = trace_lines(r)
        if ls is None:
            continue
        items.append((r["id"], ls))
        byid[r["id"]] = r
        run.evaluations += 1
    rej = validate_traces(run, items)
    for tid, line in rej.items():
        r = byid[tid]
        run.diverge("storm-rejected", "ungated reconnect storm: TLC rejects the recorded trace at %s" % json.dumps(line),
                    {"storm": r, "spec": "TraceGetStream"})
    if res:
        run.sample({"storm_trace": trace_lines(res[0])})


def run(tier, replay=None):
    run_ = common.Run(PROP, "model_checking", tier)
    rnd = random.Random(common.seed())
    if replay:
        doc = json.load(open(replay))
        sched = doc["replay"]["schedule"]
        out = common.run_harness_json(["c11"], {"schedules": [sched]})
        print(json.dumps(out, indent=1))
        return 0
    model_check(run_, tier)
    cfg = "GetStream_sched_quick.cfg" if tier == "quick" else "GetStream_sched_mid.cfg"
    r = tla.run_tlc("GetStream", cfg, dump=True)
    run_.add_tlc(r)
    g = r.graph
    paths = graphwalk.edge_cover_paths(g, max_len=45, rnd=rnd)
    scheds = schedules_from_graph(g, paths, rnd, "p")
    exhaustive = True
    if tier == "thorough":
        rq = tla.run_tlc("GetStream", "GetStream_sched_quick.cfg", dump=True)
        run_.add_tlc(rq)
        g2 = rq.graph
        walks = graphwalk.edge_cover_paths(g2, max_len=45, rnd=rnd) + graphwalk.random_walks(g, 1500, 45, rnd)
        scheds2 = schedules_from_graph(g2, walks[:len(walks) - 1500], rnd, "q") + schedules_from_graph(g, walks[len(walks) - 1500:], rnd, "w")
        for sc in scheds2:
            sc["_g"] = g2 if sc["id"].startswith("q") else g
    results = run_schedules(scheds, nproc=12)
    unreal = 0
    items = []
    for s in scheds:
        res = results[s["id"]]
        verdict = judge(run_, g, s, res)
        run_.evaluations += 1
        if verdict == "unrealised":
            unreal += 1
            continue
        if verdict == "strict":
            run_.nontriv([(st["op"], st["arg"]) for st in s["steps"]])
        ls = trace_lines(res)
        if ls:
            items.append((s["id"], ls))
    total = len(scheds)
    if tier == "thorough":
        results2 = run_schedules(scheds2, nproc=12)
        for s in scheds2:
            res = results2[s["id"]]
            verdict = judge(run_, s["_g"], s, res)
            run_.evaluations += 1
            total += 1
            if verdict == "unrealised":
                unreal += 1
                continue
            if verdict == "strict":
                run_.nontriv([(st["op"], st["arg"]) for st in s["steps"]])
            ls = trace_lines(res)
            if ls:
                items.append((s["id"], ls))
    # ---- the window between "the client has the new stream's headers" and "the handler moves on", held open by a gate around
    # the ResponseWriter's first Flush (independent of the library's hook points): a send issued there must arrive on the
    # newest stream (GetStream: Open(c) sets newest = c; a send started afterwards has exp = c)
    fw = []
    for nconn in (2, 3):
        steps = [{"op": "open", "arg": "c%d" % i} for i in range(1, nconn)]
        steps += [{"op": "openheld", "arg": "c%d" % nconn}, {"op": "probeheld", "arg": "pr1", "kind": "c%d" % nconn}]
        fw.append({"id": "fw%d" % nconn, "gated": False, "flush_window": True, "steps": steps, "_newest": "c%d" % nconn})
    fres = run_schedules(fw, nproc=2)
    for sc in fw:
        res = fres[sc["id"]]
        run_.evaluations += 1
        total += 1
        rp = {"schedule": {k: v for k, v in sc.items() if not k.startswith("_")}, "result": res, "spec": "GetStream (oracle: a send started after the newest stream's headers arrives on it)"}
        if res.get("crash"):
            run_.diverge("process-crash", "the server process crashed in the flush-window schedule: %s" % res["crash"][:1200], rp)
            continue
        if res.get("unrealised"):
            unreal += 1
            continue
        pr = [o for o in res["obs"] if o["op"] == "probe"]
        if not pr or not (pr[0]["ok"] and pr[0]["on"] == sc["_newest"]):
            run_.diverge("window=headers-out send-not-on-newest",
                         "the client had the headers of %s (its handler was still inside the Flush that sent them); a send issued then %s"
                         % (sc["_newest"], ("arrived on %s" % pr[0]["on"]) if pr and pr[0]["ok"] else ("failed: %s" % (pr[0].get("err") if pr else "no observation"))), rp)
        run_.nontriv(["flush-window", len(sc["steps"])])
        ls = trace_lines(res)
        if ls:
            items.append((sc["id"], ls))
    # ---- a server-issued request delivered on the newest stream stays pending while an OLDER stream of the session is torn down
    # (GetStream, last sentence: a stream that ends removes only itself), and the answer the session then posts is accepted
    pend = [{"id": "pend%d" % n, "gated": True, "steps": [{"op": "open", "arg": "c1"}, {"op": "proceed", "arg": "c1"}] + extra + [
                {"op": "open", "arg": "c2"}, {"op": "proceed", "arg": "c2"}, {"op": "sreqstart", "arg": "q1"},
                {"op": "cleanupbegin", "arg": "c1"}, {"op": "cleanup", "arg": "c1"}, {"op": "sreqcheck", "arg": "q1"}]}
            for n, extra in enumerate(([], [{"op": "sstart", "arg": "k1", "kind": "notif"}, {"op": "sacq", "arg": "k1"}, {"op": "send", "arg": "k1"}]))]
    pres = run_schedules(pend, nproc=2)
    for sc in pend:
        res = pres[sc["id"]]
        run_.evaluations += 1
        total += 1
        rp = {"schedule": sc, "result": res, "spec": "GetStream (ExitRemovesOnlySelf)"}
        if res.get("crash"):
            run_.diverge("process-crash", "the server process crashed in the pending-request schedule: %s" % res["crash"][:1200], rp)
            continue
        if res.get("stuck"):
            run_.diverge("open-gets-no-headers", res["stuck"], rp)
            continue
        if res.get("unrealised"):
            unreal += 1
            continue
        chk = [o for o in res["obs"] if o["op"] == "sreqcheck"]
        run_.nontriv(["pending-request", sc["id"]])
        if not chk or not chk[0]["ok"]:
            run_.diverge("pending-request ended-by-older-stream's-exit",
                         "a server request delivered on the newest stream was %s while an older stream of the session was torn down"
                         % (chk[0].get("err") if chk else "not observed"), rp)
    if unreal > 0.2 * total:
        first = [results[s["id"]]["unrealised"] for s in scheds if results[s["id"]].get("unrealised")][:3]
        raise common.Broken("%d of %d schedules could not be realised on the code, e.g. %s" % (unreal, total, first))
    # binding B on the replay logs: an independent second judgement by TLC; it must agree with the graph oracle
    rej = validate_traces(run_, items)
    flagged = set()
    for key, desc, rp in run_.violations:
        flagged.add(rp.get("schedule", {}).get("id"))
    known_flag = bool(run_.known_hit)
    for tid in rej:
        if tid not in flagged and not known_flag:
            raise common.Broken("TLC rejects trace %s at %s but the graph oracle accepted it" % (tid, rej[tid]))
    storm(run_, common.seed(), 30 if tier == "quick" else 300)
    run_.exhaustive = exhaustive
    run_.extra["unrealised"] = unreal
    run_.extra["internal_steps_skipped"] = sum(r.get("skipped", 0) for r in results.values())
    run_.extra["graph_edges_covered"] = len(g.edges)
    run_.extra["schedules"] = total
    run_.rule = ("schedules = paths covering every edge of the TLC state graph of GetStream (finest-grain switches) "
                 "+ seeded random walks (thorough); non-trivial = distinct schedules in which at least one send or the "
                 "final probe had a strict oracle expectation (newest stream with received headers, not dropped)")
    if scheds:
        s0 = scheds[min(3, len(scheds) - 1)]
        run_.sample({"schedule": s0["steps"], "observed": results[s0["id"]]["obs"], "probe": results[s0["id"]]["probe"]})
    run_.assumptions = ["hook gates get.flushed/get.woken/push.lookup only steer; verdicts use the raw peer's observations",
                        "a frame write racing with the return of the handler that owns the ResponseWriter is excluded (Cleanup guard)"]
    return run_.finish()
