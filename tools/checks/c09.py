"""C09 - one message per frame: SSE events and stdio lines never interleave.

1. TLC: Framing with the per-stream lock satisfies WellFramed / AllRecovered / Contiguous for 4 frames
   x 3 parts; without the lock TLC must find the interleaving (self-test).
2. Binding A: the state graph of the UNLOCKED model is a tree whose leaves are all interleavings of
   the Write calls; every root-to-leaf path is forced on the real writers (stdio server stdout, GET
   stream) through the write-point gates.  A step blocked by a lock is simply not realisable - fine.
   Verdict: an independent reference reader cuts the recorded byte stream; it must recover exactly
   the messages written, each parseable on its own.
   Also the stdio CLIENT's frames: requests, result answers and error answers to server-issued requests are written
   concurrently to a scripted child that records every byte it reads; the same reference reader cuts the record.
3. Binding B: chunk logs (one event per Write call reaching the stream) of the replays and of
   ungated stress runs (stdio, GET stream, legacy SSE; payload sizes across pipe/bufio boundaries,
   CR/LF/U+2028 in payloads) are validated by TLC against TraceFraming."""
import json
import os
import random
import tempfile
from concurrent.futures import ThreadPoolExecutor

from vlib import common, tla

PROP = "C09"


def all_paths(g, limit=None, rnd=None):
    """all root-to-leaf paths (the graph of the unlocked model is a tree)."""
    out = []
    stack = [(g.init[0], [])]
    while stack:
        n, p = stack.pop()
        outs = g.out.get(n, [])
        if not outs:
            out.append(p)
            continue
        for i in outs:
            stack.append((g.edges[i][1], p + [g.edges[i][3][0]]))
    if limit and len(out) > limit:
        rnd.shuffle(out)
        return out[:limit], False
    return out, True


def classify_chunks(stream, chunks):
    """chunk log -> trace events (goroutine, opens a frame?, closes a frame?)."""
    ev = []
    for c in chunks:
        b = c["b"]
        if stream == "stdio":
            first = b != "\n"
            last = b.endswith("\n")
        else:
            # SSE: a frame ends with a blank line; comment frames (": ...\n\n") are single chunks
            last = b == "\n" or b.endswith("\n\n")
            first = b.startswith("id: ") or b.startswith("event: ") or b.startswith(": ")
        ev.append({"e": "w", "g": int(c["g"]), "first": bool(first), "last": bool(last)})
    return ev


def byte_oracle(run, r, replay):
    """reference-reader verdict on one recorded stream."""
    frames = r["frames"]
    bad = []
    for f in frames:
        try:
            v = json.loads(f)
            if not isinstance(v, dict):
                bad.append(f)
        except ValueError:
            bad.append(f)
    if bad:
        run.diverge("stream=%s frame-not-a-message" % r["stream"],
                    "a frame cut by the reference reader is not one JSON message: %r" % bad[0][:200], replay)
        return False
    ok = True
    for e in r["expected"]:
        n = sum(1 for f in frames if e in f)
        if n != 1:
            run.diverge("stream=%s message-count" % r["stream"],
                        "message %s recovered %d times (expected exactly once); %d frames" % (e, n, len(frames)), replay)
            ok = False
    return ok


def validate_chunk_logs(run, items, byid):
    pending = list(items)
    rejected = {}
    while pending:
        lines, owner = [], []
        for tid, evs in pending:
            if lines:
                lines.append({"e": "reset"})
                owner.append(tid)
            for e in evs:
                lines.append(e)
                owner.append(tid)
        with tempfile.NamedTemporaryFile("w", suffix=".ndjson", delete=False) as f:
            for e in lines:
                f.write(json.dumps(e) + "\n")
            path = f.name
        try:
            ok, info = tla.validate_trace("TraceFraming", "TraceFraming.cfg", path)
        finally:
            os.unlink(path)
        run.states += info.get("distinct", 0)
        run.transitions += info.get("generated", 0)
        if ok:
            run.traces += len(pending)
            break
        hwm = info.get("hwm")
        if hwm is None or hwm >= len(lines):
            raise common.Broken("trace validation failed without a usable high-water mark:\n" + info["stdout"][-1500:])
        bad = owner[hwm]
        idx = [i for i, (tid, _) in enumerate(pending) if tid == bad][0]
        run.traces += idx
        rejected[bad] = (hwm, lines[hwm])
        pending = pending[idx + 1:]
        if len(rejected) >= 4:
            break
    return rejected


def run(tier, replay=None):
    run_ = common.Run(PROP, "model_checking", tier)
    rnd = random.Random(common.seed())
    if replay:
        doc = json.load(open(replay))
        rp = doc["replay"]
        if "cmd" in rp:
            print(json.dumps(common.run_harness_json(rp["cmd"], rp["input"]))[:4000])
        return 0
    tla.sany("Framing")
    tla.sany("TraceFraming")
    r = tla.run_tlc("Framing", "Framing_locked.cfg")
    if not r.ok:
        raise common.Broken("Framing_locked violates %s" % r.violation)
    run_.add_tlc(r)
    r = tla.run_tlc("Framing", "Framing_bug_nolock.cfg")
    if r.ok or r.violation != "WellFramed":
        raise common.Broken("self-test: unlocked Framing should violate WellFramed")
    run_.add_tlc(r)

    # getres: the listening stream is opened with a Last-Event-ID; the server's resumption notice is frame f1 of the schedule
    plans = [("stdio", 2, 2, None), ("stdio", 3, 2, None), ("get", 2, 3, None), ("getres", 2, 3, None)]
    if tier == "thorough":
        plans += [("stdio", 4, 2, 400), ("get", 3, 3, 300), ("getres", 3, 3, 300)]
    jobs = []
    exhaustive = True
    for stream, nf, np_, limit in plans:
        cfgname = "Framing_sched_%d_%d.cfg" % (nf, np_)
        if not os.path.exists(os.path.join(tla.SPEC_DIR, "cfg", cfgname)):
            with open(os.path.join(tla.SPEC_DIR, "cfg", "Framing_sched_2_2.cfg")) as f:
                base = f.read()
            tmpcfg = tempfile.NamedTemporaryFile("w", suffix=".cfg", delete=False)
            tmpcfg.write(base.replace("NFrames = 2", "NFrames = %d" % nf).replace("NParts = 2", "NParts = %d" % np_))
            tmpcfg.close()
            cfgname = tmpcfg.name
        g = tla.run_tlc("Framing", cfgname, dump=True, parse_states=False)
        run_.add_tlc(g)
        paths, ex = all_paths(g.graph, limit, rnd)
        exhaustive = exhaustive and ex
        scheds = [{"id": "%s%d_%d" % (stream, nf, i), "steps": p} for i, p in enumerate(paths)]
        nproc = 8
        for k in range(nproc):
            part = scheds[k::nproc]
            if part:
                jobs.append((stream, nf, part))

    # a frame in the middle of being written when its stream ends for the server (superseded by a newer stream / session deleted)
    jobs.append(("getends", 1, [{"id": "getends_newer", "steps": ["newer"]}, {"id": "getends_delete", "steps": ["delete"]},
                               {"id": "getends_cancel", "steps": ["cancel"]}]))

    def one(job):
        stream, nf, part = job
        inp = {"stream": stream, "nframes": nf, "gated": True, "schedules": part}
        out = common.run_harness_json(["c09"], inp, timeout=900, crash_ok=True)
        return job, inp, out

    results = []
    with ThreadPoolExecutor(max_workers=12) as ex:
        for job, inp, out in ex.map(one, jobs):
            if "_crash" in out:
                run_.diverge("process-crash", "the process crashed while replaying %s schedules:\n%s" % (job[0], out["_crash"][:1200]),
                             {"cmd": ["c09"], "input": inp})
                continue
            for r in out["results"]:
                results.append((job, r))
    items = []
    byid = {}
    blocked_total = 0
    skipped = {}
    for (stream, nf, part), r in results:
        run_.evaluations += 1
        sched = [s for s in part if s["id"] == r["id"]][0]
        rp = {"cmd": ["c09"], "input": {"stream": stream, "nframes": nf, "gated": True, "schedules": [sched]},
              "observed": {k: r[k] for k in ("frames", "realised", "blocked")}, "spec": "Framing / TraceFraming"}
        if r.get("broken"):
            raise common.Broken("replay %s: %s" % (r["id"], r["broken"]))
        if r.get("skipped"):
            skipped[stream] = skipped.get(stream, 0) + 1
            run_.evaluations -= 1
            continue
        blocked_total += r["blocked"]
        byte_oracle(run_, r, rp)
        # a schedule is non-trivial when the frames' writes really interleave in the plan
        steps = sched["steps"]
        if stream == "getends":
            run_.nontriv([stream, steps])
        if any(steps[i] != steps[i + 1] for i in range(len(steps) - 1)) and len(set(steps)) > 1:
            inter = any(steps[i] != steps[i + 1] and steps[i] in steps[i + 1:] for i in range(len(steps) - 1))
            if inter:
                run_.nontriv([stream, steps])
        items.append((r["id"], classify_chunks(stream, r["chunks"])))
        byid[r["id"]] = rp
        if len(run_.samples) < 2:
            run_.sample({"stream": stream, "schedule": steps, "realised": r["realised"], "blocked_steps": r["blocked"],
                         "frames": [f[:80] for f in r["frames"]]})
    # ungated stress
    sruns = 5 if tier == "quick" else 12
    ops = 40 if tier == "quick" else 60
    sin = {"seed": common.seed(), "runs": sruns, "ops": ops}
    out = common.run_harness_json(["c09stress"], sin, timeout=900, crash_ok=True)
    if "_crash" in out:
        run_.diverge("process-crash", "the process crashed during ungated stress:\n%s" % out["_crash"][:1200], {"cmd": ["c09stress"], "input": sin})
    else:
        for r in out["results"]:
            run_.evaluations += 1
            rp = {"cmd": ["c09stress"], "input": sin, "stream": r["stream"], "id": r["id"], "spec": "TraceFraming"}
            if r.get("broken"):
                raise common.Broken("stress %s: %s" % (r["id"], r["broken"]))
            byte_oracle(run_, r, rp)
            run_.nontriv(["stress", r["id"]])
            items.append((r["id"], classify_chunks(r["stream"], r["chunks"])))
            byid[r["id"]] = rp
    # the stdio CLIENT's own frames (requests, result answers and error answers written to the child's stdin concurrently):
    # the child records every byte it reads; the reference reader cuts the record into lines
    cin = {"runs": [{"id": "cl%d" % k, "workers": w, "calls": c, "pad": pad}
                    for k, (w, c, pad) in enumerate([(3, 6, 70000), (4, 5, 300)] + ([(6, 10, 5000), (2, 12, 200000)] if tier == "thorough" else []))]}
    cout = common.run_harness_json(["c09client"], cin, timeout=600, crash_ok=True)
    if "_crash" in cout:
        run_.diverge("process-crash", "the client process crashed while writing concurrently:\n%s" % cout["_crash"][:1200], {"cmd": ["c09client"], "input": cin})
    else:
        for r in cout["results"]:
            run_.evaluations += 1
            rp = {"cmd": ["c09client"], "input": {"runs": [x for x in cin["runs"] if x["id"] == r["id"]]}, "spec": "Framing (reference reader)"}
            if r.get("broken"):
                raise common.Broken("stdio client run %s: %s" % (r["id"], r["broken"]))
            lines = [l for l in r["raw"].split("\n") if l != ""]
            bad = []
            for l in lines:
                try:
                    if not isinstance(json.loads(l), dict):
                        bad.append(l)
                except ValueError:
                    bad.append(l)
            if bad:
                run_.diverge("stream=stdio-client frame-not-a-message", "a line the stdio client wrote is not one JSON message: %r" % bad[0][:300], rp)
            elif len(lines) != r["expected"] or not r["raw"].endswith("\n"):
                run_.diverge("stream=stdio-client message-count", "the stdio client wrote %d lines, %d messages were due (last byte %r)"
                             % (len(lines), r["expected"], r["raw"][-1:]), rp)
            run_.nontriv(["stdio-client", r["id"]])
    rej = validate_chunk_logs(run_, items, byid)
    for tid, (hwm, line) in rej.items():
        run_.diverge("chunk-log-rejected stream=%s" % tid.rstrip("0123456789_"),
                     "TLC rejects the chunk log of %s at event %d %s: a Write call of another frame landed inside an open frame"
                     % (tid, hwm, json.dumps(line)), byid[tid])
    run_.exhaustive = exhaustive
    run_.extra["blocked_steps"] = blocked_total
    run_.extra["schedules_without_that_writer"] = skipped
    run_.rule = ("schedules = all root-to-leaf paths of the unlocked Framing state graph (every interleaving of the Write "
                 "calls) per stream kind, plus ungated stress runs; non-trivial = schedules whose plan really interleaves "
                 "two frames (a frame resumed after another frame wrote) and every stress run")
    run_.assumptions = ["concurrent use of one notification sender by a user's own goroutines is outside the statement",
                        "hook gates only steer; the verdict is the byte stream cut by the reference reader and the chunk log"]
    return run_.finish()
