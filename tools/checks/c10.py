"""C10 - in-call notifications arrive complete, in order and before the result.

1. TLC: InCall (one id generator) satisfies InOrderOnce / CompleteAtReturn / EventIdsDistinct and
   terminates for every emission sequence (<= MaxN over 3 kinds x _meta), every registration subset
   and both response modes; with two id generators EventIdsDistinct fails (self-test).
2. Binding A: every returned state of the dumped graph is one scenario (mode, registration, emission
   sequence) with its expected dispatch sequence; all scenarios are executed with the real server and
   client (alone, and in concurrent pairs on one client); the handler-side log, the return value and
   the raw wire of the same call are compared with the expectation.
3. Binding B: the event trace of every call is validated by TLC against TraceInCall."""
import json
import random
from concurrent.futures import ThreadPoolExecutor

from vlib import common, tla, tracebatch

PROP = "C10"


def scenarios(graph):
    seen = {}
    for nid, st in graph.nodes.items():
        if not st["returned"]:
            continue
        em = [dict(kind=e["kind"], meta=e["meta"], i=e["i"]) for e in st["emitted"]]
        key = (st["mode"], tuple(sorted(st["reg"])), json.dumps(em))
        exp = [dict(kind=e["kind"], meta=e["meta"], i=e["i"]) for e in st["delivered"]]
        seen[key] = {"mode": st["mode"], "reg": sorted(st["reg"]), "emitted": em, "_expected": exp}
    out = []
    for n, k in enumerate(sorted(seen)):
        s = seen[k]
        s["id"] = "s%d" % n
        out.append(s)
    return out


def judge(run, sc, r, concurrent):
    rp = {"cmd": ["c10"], "input": {"groups": [[{k: v for k, v in sc.items() if not k.startswith("_")}]]},
          "observed": {k: r.get(k) for k in ("delivered", "result_ok", "err", "wire_ids", "wire_kinds")},
          "expected_dispatch": sc["_expected"], "spec": "InCall / TraceInCall"}
    tag = "mode=%s" % sc["mode"]
    if r.get("broken"):
        raise common.Broken("scenario %s: %s" % (sc["id"], r["broken"]))
    if not r["result_ok"]:
        run.diverge(tag + " result-lost", "the call did not return its result (err=%s) for emissions %s reg=%s"
                    % (r.get("err"), sc["emitted"], sc["reg"]), rp)
    got = [dict(kind=d["kind"], meta=d["meta"], i=d["i"]) for d in r["delivered"] or []]
    if got != sc["_expected"]:
        var = ""
        if any(e.get("typed") for e in sc["emitted"]) and [dict(g, meta=True) if False else g for g in got] != sc["_expected"]:
            # does the difference vanish when _meta presence is ignored?  then it is the typed-_meta variant
            if [(g["kind"], g["i"]) for g in got] == [(g["kind"], g["i"]) for g in sc["_expected"]]:
                var = " variant=typed-meta-lost"
        if not var and any(e.get("size", 0) >= 65536 for e in sc["emitted"]):
            var = " variant=large-payload"
        run.diverge(tag + " dispatch-sequence" + var, "dispatched %s, expected %s (emitted %s, registered %s)"
                    % (got, sc["_expected"], [dict(e, size=e.get("size")) for e in sc["emitted"]], sc["reg"]), rp)
    for d in r["delivered"] or []:
        if not d["intact"]:
            run.diverge(tag + " params-not-intact kind=%s" % d["kind"], "notification %s arrived altered: %s" % (d, (d.get("detail") or "")[:300]), rp)
        if d["after_return"]:
            run.diverge(tag + " dispatched-after-return", "notification %s was dispatched after CallTool returned" % d, rp)
    ids = r.get("wire_ids") or []
    if len(set(ids)) != len(ids):
        run.diverge(tag + " duplicate-event-id", "event ids on one response stream are not distinct: %s" % ids, rp)
    kinds = r.get("wire_kinds") or []
    if sc["mode"] == "sse":
        want = ["notif"] * len(sc["emitted"]) + ["result"]
        if kinds != want:
            run.diverge(tag + " wire-order", "raw stream carries %s, expected %s" % (kinds, want), rp)
    return rp


def run(tier, replay=None):
    run_ = common.Run(PROP, "model_checking", tier)
    rnd = random.Random(common.seed())
    if replay:
        doc = json.load(open(replay))
        print(json.dumps(common.run_harness_json(doc["replay"]["cmd"], doc["replay"]["input"]), indent=1)[:6000])
        return 0
    tla.sany("InCall")
    tla.sany("TraceInCall")
    cfg = "InCall_2.cfg" if tier == "quick" else "InCall_3.cfg"
    r = tla.run_tlc("InCall", cfg, dump=True)
    if not r.ok:
        raise common.Broken("InCall violates %s" % r.violation)
    run_.add_tlc(r)
    b = tla.run_tlc("InCall", "InCall_bug_twogens.cfg")
    if b.ok or b.violation != "EventIdsDistinct":
        raise common.Broken("self-test: two id generators should violate EventIdsDistinct")
    run_.add_tlc(b)
    scs = scenarios(r.graph)
    # concretisation of the emission classes: payload size (across the 64 KiB line and 1 MiB marks) and the Go type of _meta
    for sc in scs:
        for e in sc["emitted"]:
            x = rnd.random()
            e["size"] = 0 if x < 0.75 else (70000 if x < 0.93 else 1100000)
            e["typed"] = bool(e["meta"] and rnd.random() < 0.5)
            # a custom notification whose params consist of _meta only (no ordinary field)
            e["meta_only"] = bool(e["kind"] == "custom" and e["meta"] and e["size"] == 0 and rnd.random() < 0.5)
    # the progress VALUES of one call: increasing (the emission's index), all equal, or decreasing - what is sent is what arrives
    for sc in scs:
        pm = rnd.choice(["", "", "flat", "down"])
        for e in sc["emitted"]:
            if e["kind"] == "progress" and pm:
                e["pmode"] = pm
    # the level a handler passes to SendLogMessage arrives as it was passed
    for sc in scs:
        for e in sc["emitted"]:
            if e["kind"] == "log" and not e["meta"] and rnd.random() < 0.6:
                e["lvl"] = rnd.choice(["WARN", "Info", "warn", "verbose", "error", "debug"])
    # the server's session flavour is a concretisation too: the answers of a POST are streamed the same way in all three
    for sc in scs:
        sc["srv"] = rnd.choice(["stateful", "stateful", "stateless", "nosession"])
    # a history of registrations: stand-in handlers see a warm-up call and are then replaced by the real ones (single calls only)
    for sc in scs:
        sc["rereg"] = bool(sc["reg"] and sc["emitted"] and rnd.random() < 0.3)
    for sc in scs:
        sc["handler_err"] = bool(sc["reg"] and rnd.random() < 0.3)
    byid = {s["id"]: s for s in scs}
    strip = lambda s: {k: v for k, v in s.items() if not k.startswith("_")}
    groups = [[strip(s)] for s in scs]
    # concurrent pairs on one client: same mode and registration
    buckets = {}
    for s in scs:
        buckets.setdefault((s["mode"], tuple(s["reg"]), s["srv"]), []).append(s)
    pairs = []
    for key, lst in buckets.items():
        lst = [s for s in lst if s["emitted"]]
        rnd.shuffle(lst)
        npairs = 3 if tier == "quick" else 12
        for i in range(0, min(len(lst) - 1, 2 * npairs), 2):
            a, b2 = dict(lst[i]), dict(lst[i + 1])
            a["id"], b2["id"] = a["id"] + "x", b2["id"] + "y"
            a["rereg"] = b2["rereg"] = False
            a["handler_err"] = b2["handler_err"] = False
            byid[a["id"]], byid[b2["id"]] = a, b2
            pairs.append([strip(a), strip(b2)])
    # one call that emits far more notifications than any hand-over holds, to a handler slower than the stream: all of them arrive
    nflood = 600
    flood = {"id": "flood", "mode": "sse", "srv": "stateful", "reg": ["progress"], "rereg": False, "slow_us": 700,
             "emitted": [{"kind": "progress", "meta": False, "i": i + 1, "size": 0, "typed": False, "meta_only": False} for i in range(nflood)]}
    flood["_expected"] = [{"kind": "progress", "meta": False, "i": i + 1} for i in range(nflood)]
    byid["flood"] = flood
    groups.append([strip(flood)])
    allgroups = groups + pairs
    nproc = 12
    chunks = [allgroups[i::nproc] for i in range(nproc)]

    def one(ch):
        if not ch:
            return []
        out = common.run_harness_json(["c10"], {"groups": ch}, timeout=900, crash_ok=True)
        if "_crash" in out:
            return [{"_crash": out["_crash"], "groups": ch}]
        return out["results"]

    items = []
    rps = {}
    with ThreadPoolExecutor(max_workers=nproc) as ex:
        for res in ex.map(one, chunks):
            for rr in res:
                if "_crash" in rr:
                    run_.diverge("process-crash", "process crashed: %s" % rr["_crash"][:1200], {"cmd": ["c10"], "input": {"groups": rr["groups"]}})
                    continue
                sc = byid[rr["id"]]
                run_.evaluations += 1
                rps[rr["id"]] = judge(run_, sc, rr, rr["id"][-1] in "xy")
                if sc["_expected"]:
                    run_.nontriv([sc["mode"], sc["reg"], sc["emitted"], rr["id"][-1] in "xy"])
                if rr["id"] != "flood":      # beyond the constants of TraceInCall; judged above
                    items.append((rr["id"], rr["trace"]))
                if len(run_.samples) < 3 and sc["_expected"]:
                    run_.sample({"scenario": strip(sc), "expected_dispatch": sc["_expected"], "trace": rr["trace"]})
    rej = tracebatch.validate(run_, "TraceInCall", "TraceInCall.cfg", items)
    flagged = {rp_["input"]["groups"][0][0]["id"] for _, _, rp_ in run_.violations if "input" in rp_ and "groups" in rp_["input"]}
    for tid, (pos, line) in rej.items():
        run_.diverge("trace-rejected at=%s" % line.get("e"), "TLC rejects the trace of call %s at event %d %s"
                     % (tid, pos, json.dumps(line)), rps.get(tid, {}))
    run_.exhaustive = True
    run_.rule = ("scenarios = all (mode, registration subset, emission sequence up to MaxN over 3 kinds x _meta) reached by "
                 "TLC in InCall, each run alone plus sampled concurrent pairs on one client; non-trivial = scenarios with at "
                 "least one notification that must be dispatched")
    run_.assumptions = ["progress/log convenience senders: only the essential fields (progress value, message, level) are compared",
                        "raw wire ids are taken from a second identical call issued by the reference peer"]
    return run_.finish()
