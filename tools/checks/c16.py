"""C16 - handshake: version negotiation, advertised capabilities, client state machine.

1. TLC: Handshake.tla - NeverUnsupported, ToolsAlways, CapsExact (server), StateConsistent,
   ClosedIsUninitialised (client).
2. Binding A: edge cover of the server graph (7 version classes x registered prompts/resources, incl.
   register-then-reinitialize) on Streamable (stateful, stateless), legacy SSE and stdio servers via raw
   peers; edge cover + random walks of the client graph (Initialize with 5 scripted outcomes, 7
   operations, Close) on the Streamable, legacy SSE and stdio clients against a recording scripted
   server / child process: per step error class, GetState() and requests on the wire.
3. Binding B: the walk logs are validated by TLC against TraceHandshake."""
import json
import random
from concurrent.futures import ThreadPoolExecutor

from vlib import common, tla, graphwalk, tracebatch

PROP = "C16"
VER = {"v2025": "2025-03-26", "v2024": "2024-11-05"}


def run(tier, replay=None):
    run_ = common.Run(PROP, "model_checking", tier)
    rnd = random.Random(common.seed())
    if replay:
        doc = json.load(open(replay))
        print(json.dumps(common.run_harness_json(doc["replay"]["cmd"], doc["replay"]["input"]), indent=1)[:6000])
        return 0
    tla.sany("Handshake")
    tla.sany("TraceHandshake")
    gs = tla.run_tlc("Handshake", "Handshake_server.cfg", dump=True)
    gc = tla.run_tlc("Handshake", "Handshake_client.cfg", dump=True)
    for r in (gs, gc):
        if not r.ok:
            raise common.Broken("Handshake violates %s" % r.violation)
        run_.add_tlc(r)
    server_jobs, client_jobs = [], []
    # ---- server walks
    g = gs.graph
    spaths = graphwalk.edge_cover_paths(g, max_len=24, rnd=rnd)
    if tier == "thorough":
        spaths += graphwalk.random_walks(g, 40, 30, rnd)
    smeta = {}
    for kind in ("streamable", "stateless", "nosession", "legacy", "stdio"):
        for n, p in enumerate(spaths):
            steps, exp = [], []
            for ei in p:
                _, _, name, a = g.edges[ei]
                if name == "RegisterPrompt":
                    steps.append({"op": "regprompt"}); exp.append(None)
                elif name == "RegisterResource":
                    steps.append({"op": "regresource", "multi": (n + len(kind)) % 2 == 1}); exp.append(None)
                else:
                    steps.append({"op": "init", "v": a[0]}); exp.append((a[0], a[1], sorted(a[2])))
            sid = "s-%s-%d" % (kind, n)
            server_jobs.append({"id": sid, "kind": kind, "steps": steps})
            smeta[sid] = (kind, steps, exp)
    # ---- client walks
    g2 = gc.graph
    cpaths = graphwalk.edge_cover_paths(g2, max_len=22, rnd=rnd) + graphwalk.random_walks(g2, 6 if tier == "quick" else 60, 25, rnd)
    cmeta = {}
    for kind in ("streamable", "sse", "stdio"):
        for n, p in enumerate(cpaths):
            steps, exp = [], []
            for ei in p:
                _, _, name, a = g2.edges[ei]
                if name == "ClientInitialize":
                    out = a[0]
                    if kind == "stdio" and out == "notify":
                        out = "rpc"       # a notification cannot be made to fail on a pipe: use another failing outcome
                    steps.append({"op": "init", "outcome": out}); exp.append(("cinit", a[1], a[2], a[3]))
                elif name == "ClientOp":
                    steps.append({"op": "op", "name": a[0]}); exp.append(("op", a[1], None, a[2]))
                else:
                    steps.append({"op": "close"}); exp.append(("close", "none", a[0], "any"))
            cid = "c-%s-%d" % (kind, n)
            client_jobs.append({"id": cid, "kind": kind, "steps": steps})
            cmeta[cid] = (kind, steps, exp)
            if kind == "stdio" and any(st["op"] == "close" for st in steps):
                # the same history with the server process killed (and gone) before each Close: the client's state machine
                # must not care how the transport's close fares
                steps2 = [dict(st, kill_first=True) if st["op"] == "close" else dict(st) for st in steps]
                client_jobs.append({"id": cid + "k", "kind": kind, "steps": steps2})
                cmeta[cid + "k"] = (kind, steps2, exp)
    nproc = 12
    sj = [server_jobs[i::nproc] for i in range(nproc)]
    cj = [client_jobs[i::nproc] for i in range(nproc)]

    def one(k):
        return common.run_harness_json(["c16"], {"server": sj[k], "client": cj[k]}, timeout=900, crash_ok=True)

    sitems, citems, rps = [], [], {}
    with ThreadPoolExecutor(max_workers=nproc) as ex:
        for k, out in enumerate(ex.map(one, range(nproc))):
            if "_crash" in out:
                run_.diverge("process-crash", "process crashed: %s" % out["_crash"][:1500], {"cmd": ["c16"], "input": {"server": sj[k], "client": cj[k]}})
                continue
            for res in out["server"]:
                kind, steps, exp = smeta[res["id"]]
                if res.get("broken"):
                    raise common.Broken("server walk %s: %s" % (res["id"], res["broken"]))
                run_.evaluations += 1
                rp = {"cmd": ["c16"], "input": {"server": [{"id": res["id"], "kind": kind, "steps": steps}]}, "spec": "Handshake"}
                rps[res["id"]] = rp
                ev = [{"e": "cfg"}]
                for st, e, o in zip(steps, exp, res["obs"]):
                    if e is None:
                        ev.append({"e": st["op"]})
                        continue
                    v, version, caps = e
                    tag = "server=%s version-class=%s" % (kind, v)
                    if o.get("err"):
                        run_.diverge(tag + " initialize-refused", "initialize with version class %s: %s" % (v, o["err"]), dict(rp, observed=o))
                        ev.append({"e": "sinit", "v": v, "version": "other", "caps": []})
                        continue
                    allowed = set(VER.values()) if v == "padded" else {VER[version]}    # padded: lenient or strict reading
                    if o["version"] not in allowed:
                        run_.diverge(tag + " negotiated=%s" % ("unsupported" if o["version"] not in VER.values() else "other-supported"),
                                     "server answered version %r, must answer %s" % (o["version"][:40], sorted(allowed)), dict(rp, observed=o))
                    known = sorted(c for c in o["caps"] if c in ("tools", "prompts", "resources"))
                    if known != caps:
                        run_.diverge(tag + " capabilities", "advertised %s, registered at that time gives %s" % (known, caps), dict(rp, observed=o))
                    if o["name"] != "verif-name" or o["sver"] != "9.8.7":
                        run_.diverge(tag + " serverInfo", "serverInfo is %s/%s" % (o["name"], o["sver"]), dict(rp, observed=o))
                    rev = [k2 for k2, v2 in VER.items() if v2 == o["version"]]
                    ev.append({"e": "sinit", "v": v, "version": rev[0] if rev else "other", "caps": known})
                sitems.append((res["id"], ev))
                if any(e and e[0] not in ("v2025", "v2024") for e in exp) or any(e and len(e[2]) > 1 for e in exp):
                    run_.nontriv([kind, steps])
            for res in out["client"]:
                kind, steps, exp = cmeta[res["id"]]
                if res.get("broken"):
                    raise common.Broken("client walk %s: %s" % (res["id"], res["broken"]))
                run_.evaluations += 1
                rp = {"cmd": ["c16"], "input": {"client": [{"id": res["id"], "kind": kind, "steps": steps}]}, "spec": "Handshake"}
                rps[res["id"]] = rp
                ev = [{"e": "cfg"}]
                hist = []
                for st, e, o in zip(steps, exp, res["obs"]):
                    what, err, state, wire = e
                    hist.append(st["op"] + ":" + (st.get("outcome") or st.get("name") or ""))
                    tag = "client=%s step=%s" % (kind, st["op"] if st["op"] != "op" else st["name"])
                    w = "zero" if o["wire"] == 0 else "some"
                    rpo = dict(rp, observed=o, expected={"err": err, "state": state, "wire": wire})
                    if o["err"] != err:
                        run_.diverge(tag + " err=%s expected=%s" % (o["err"], err), "%s returned %s (%s), expected %s; history %s"
                                     % (hist[-1], o["err"], o.get("text", "")[:100], err, hist), rpo)
                    if wire != "any" and w != wire:
                        run_.diverge(tag + " wire=%s expected=%s" % (w, wire), "%s put %d requests on the wire, expected %s; history %s" % (hist[-1], o["wire"], wire, hist), rpo)
                    if state is not None and o["state"] != state:
                        run_.diverge(tag + " state=%s expected=%s" % (o["state"], state), "GetState() is %s after %s, expected %s; history %s" % (o["state"], hist[-1], state, hist), rpo)
                    if what == "cinit":
                        ev.append({"e": "cinit", "outcome": st["outcome"] if not (kind == "stdio" and st["outcome"] == "rpc") else st["outcome"], "err": o["err"], "state": o["state"], "wire": w})
                    elif what == "op":
                        ev.append({"e": "op", "name": st["name"], "err": o["err"], "wire": w})
                    else:
                        ev.append({"e": "close", "state": o["state"]})
                citems.append((res["id"], ev))
                run_.nontriv([kind, steps])
                if len(run_.samples) < 2 and len(steps) > 5:
                    run_.sample({"client": kind, "steps": steps[:10], "observed": res["obs"][:10]})
    had = bool(run_.violations) or bool(run_.known_hit)
    for side, items in (("server", sitems), ("client", citems)):
        rej = tracebatch.validate(run_, "TraceHandshake", "TraceHandshake_%s.cfg" % side, items)
        for tid, (pos, line) in rej.items():
            if not had:
                raise common.Broken("TLC rejects walk %s at %s although the comparison accepted it" % (tid, line))
            run_.diverge("trace-rejected side=%s at=%s" % (side, line.get("e")), "TLC rejects the log of walk %s at %d %s" % (tid, pos, json.dumps(line)), rps[tid])
    run_.exhaustive = True
    run_.rule = ("walks = edge cover (+ random walks) of the Handshake graphs: server side on 4 server kinds with 7 version classes and every "
                 "registration state; client side on 3 client kinds with 5 scripted handshake outcomes, 7 operations and Close; non-trivial = "
                 "server walks with an unsupported version class or more than one capability, and all client walks")
    run_.assumptions = ["the transient 'connected' state is only observable inside Initialize and is not sampled",
                        "for the stdio client a failing initialized notification cannot be scripted (replaced by an rpc-error outcome)",
                        "Initialize after Close is not driven (clients differ legitimately in whether the transport can be reused)"]
    return run_.finish()
