"""C12 - registries stay consistent while tools, prompts and resources change under load.

1. TLC: Registry.tla - with the list built under one lock every list answer is the content at some
   instant inside the call (ListIsSnapshot) and the order bookkeeping stays consistent; a list assembled
   from two reads yields a counterexample (self-test).
2. Binding B: randomized concurrent workloads (register / re-register / unregister / list / call / read /
   get from several goroutines, lists and calls through a raw HTTP peer) run against a real server in a
   child process; the recorded invoke/return histories are checked for LINEARIZABILITY by TLC
   (TraceRegistry: a silent Linearize step per operation, results carry the handler version); resources
   must be listed in registration order.  A process crash (fatal error: concurrent map read and map
   write) and a lost notification of a handler that stays registered are divergences too."""
import json
import random
from concurrent.futures import ThreadPoolExecutor

from vlib import common, tla, tracebatch, graphwalk

PROP = "C12"


def run(tier, replay=None):
    run_ = common.Run(PROP, "model_checking", tier)
    rnd = random.Random(common.seed())
    if replay:
        doc = json.load(open(replay))
        print(json.dumps(common.run_harness_json(doc["replay"]["cmd"], doc["replay"]["input"], crash_ok=True), indent=1)[:6000])
        return 0
    tla.sany("Registry")
    tla.sany("TraceRegistry")
    r = tla.run_tlc("Registry", "Registry_atomic.cfg")
    if not r.ok:
        raise common.Broken("Registry_atomic violates %s" % r.violation)
    run_.add_tlc(r)
    b = tla.run_tlc("Registry", "Registry_bug_tworeads.cfg")
    if b.ok or b.violation != "ListIsSnapshot":
        raise common.Broken("self-test: a two-read list should violate ListIsSnapshot")
    run_.add_tlc(b)
    # forced schedules from the two-read model: a list parked inside its loop while registrations proceed
    sg = tla.run_tlc("Registry", "Registry_sched.cfg", dump=True)
    run_.add_tlc(sg)
    g = sg.graph
    scheds = []
    walks = graphwalk.random_walks(g, 200 if tier == "quick" else 2000, 9, rnd)
    # the schedules on which the TWO-READ design itself returns a non-snapshot: shortest path to every such state
    import collections
    parent = {g.init[0]: None}
    dq = collections.deque([g.init[0]])
    while dq:
        n = dq.popleft()
        for ei in g.out.get(n, []):
            d = g.edges[ei][1]
            if d not in parent:
                parent[d] = (n, ei)
                dq.append(d)
    bad = [n for n, st in g.nodes.items() if st["lpc"][0] == "done" and st["lres"][0] not in st["lseen"][0] and n in parent]
    rnd.shuffle(bad)
    directed = []
    for n in bad[:40 if tier == "quick" else 400]:
        p = []
        while parent[n] is not None:
            n, ei = parent[n]
            p.append(ei)
        directed.append(list(reversed(p)))
    walks = directed + walks
    seen = set()
    for p in walks:
        names = [(g.edges[e][2], g.edges[e][3]) for e in p]
        ops = [n for n, _ in names]
        if "ListNames" not in ops:
            continue
        i0 = ops.index("ListNames")
        i1 = ops.index("ListEntries") if "ListEntries" in ops else len(ops)
        if i1 - i0 < 2:
            continue
        steps = []
        for n, a in names[:i1 + 1]:
            if n == "Register":
                steps.append({"op": "reg", "n": a[0]})
            elif n == "Unregister":
                steps.append({"op": "unreg", "n": a[0]})
            elif n == "ListNames":
                steps.append({"op": "lstart"})
            elif n == "ListEntries":
                steps.append({"op": "lend"})
        key = json.dumps(steps)
        if key in seen:
            continue
        seen.add(key)
        scheds.append(steps)
    scheds = scheds[:36 if tier == "quick" else 300]
    nruns = 32 if tier == "quick" else 64
    jobs = []
    sjobs = []
    for kind in ("tools", "prompts", "resources"):
        for st in scheds:
            if kind != "tools" and any(x["op"] == "unreg" for x in st):
                continue
            sjobs.append({"kind": kind, "steps": st + [{"op": "call", "n": "n1"}, {"op": "call", "n": "n2"}]})
    for j in range(8):
        part = sjobs[j::8]
        if part:
            jobs.append({"seed": 0, "runs": 0, "workers": 0, "ops": 0, "kinds": [], "storm_ms": 0, "scheds": part})
    for j in range(8):
        jobs.append({"seed": common.seed() * 100 + j, "runs": max(1, nruns // 8 + (1 if j < nruns % 8 else 0)), "workers": 4 if j % 2 == 0 else 5,
                     "ops": 12 if tier == "quick" else 16, "kinds": ["tools", "prompts", "resources"], "storm_ms": 400 if tier == "quick" else 1500})

    def one(job):
        return job, common.run_harness_json(["c12"], job, timeout=900, crash_ok=True)

    items = {"set": [], "ordered": []}
    rps = {}
    with ThreadPoolExecutor(max_workers=8) as ex:
        for job, out in ex.map(one, jobs):
            if "_crash" in out:
                what = "concurrent-map-access" if "concurrent map" in out["_crash"] else ("deadlock" if "deadlock (verif watchdog)" in out["_crash"] else "panic")
                where = "unknown"
                for fn in ("handleGetPrompt", "handleReadResource", "handleCallTool", "handleListTools", "handleListPrompts", "handleListResources",
                           "registerPrompt", "registerResource", "registerTool", "handleServerNotification", "getResources", "getPrompts", "getTools"):
                    if fn in out["_crash"]:
                        where = fn
                        break
                run_.evaluations += 1
                run_.diverge("process-crash %s in=%s" % (what, where), "the server process died under the registry workload:\n%s" % out["_crash"][:1800],
                             {"cmd": ["c12"], "input": job})
                continue
            for res in out["results"]:
                run_.evaluations += 1
                rid = "%s-%s-%d" % (job["seed"], res["id"], len(rps))
                rp = {"cmd": ["c12"], "input": job, "id": res["id"], "spec": "TraceRegistry"}
                rps[rid] = rp
                if not res["notif_ok"]:
                    run_.diverge("notification-handler lost", res.get("notes", ""), rp)
                overl = sum(1 for i in range(len(res["trace"]) - 1) if res["trace"][i]["e"] == "inv" and res["trace"][i + 1]["e"] == "inv")
                if overl:
                    run_.nontriv([rid, overl])
                items["ordered" if res["kind"] == "resources" else "set"].append((rid, res["trace"]))
                if len(run_.samples) < 2:
                    run_.sample({"kind": res["kind"], "history_prefix": res["trace"][:14]})
    for mode in ("set", "ordered"):
        rej = tracebatch.validate(run_, "TraceRegistry", "TraceRegistry_%s.cfg" % mode, items[mode], sep={"e": "reset"}, max_lines=4000)
        for tid, (pos, line) in rej.items():
            kind = "resources" if mode == "ordered" else ("tools" if ("-t" in tid or "-gt" in tid) else "prompts")
            what = line.get("k") or ("list-result" if isinstance(line.get("res"), list) else "call-result")
            run_.diverge("not-linearizable registry=%s at=%s" % (kind, what),
                         "no choice of linearization points explains the history of %s; first inexplicable event #%d: %s" % (tid, pos, json.dumps(line)), rps[tid])
    # ---- the notification-handler registry: registered, replaced and removed while notifications are dispatched, also from
    # inside a handler (one-shot) and while a slow handler runs; every registry operation is atomic and COMPLETES
    nout = common.run_harness_json(["c12"], {"notif": True}, timeout=120, crash_ok=True)
    if "_crash" in nout:
        run_.diverge("registry=notification-handlers process-crash", nout["_crash"][:1200], {"cmd": ["c12"], "input": {"notif": True}})
    # the same new entry registered from several goroutines at once, 1500 times over: it is listed once
    for sn in (nout.get("same_new") or []) if "_crash" not in nout else []:
        run_.evaluations += 1
        run_.nontriv(["same-new", sn["kind"]])
        if sn["duplicates"] or sn["distinct"] != sn["expected"] or sn["listed"] != sn["expected"]:
            run_.diverge("registry=%s simultaneous-registration list-wrong" % sn["kind"], "fresh entries, each registered by three goroutines at the same moment: the list shows %d entries, "
                         "%d distinct (expected %d); duplicates %s" % (sn["listed"], sn["distinct"], sn["expected"], sn["duplicates"]),
                         {"cmd": ["c12"], "input": {"notif": True}, "observed": sn, "spec": "Registry (a name is listed once)"})
    # an entry registered again with the same descriptor value and a new handler is served by the new handler (Registry: Register replaces)
    for ru in (nout.get("reuse") or []) if "_crash" not in nout else []:
        run_.evaluations += 1
        run_.nontriv(["reuse", ru["kind"], ru["registered"]])
        if not ru["served_by_it"]:
            run_.diverge("registry=%s same-descriptor-new-handler" % ru["kind"], "registered for the %s time with the same descriptor and a new handler; the call was answered %s"
                         % (ru["registered"], ru["answer"][:200]), {"cmd": ["c12"], "input": {"notif": True}, "observed": ru, "spec": "Registry (Register replaces the entry)"})
    else:
        for r in nout.get("notif") or []:
            run_.evaluations += 1
            rp = {"cmd": ["c12"], "input": {"notif": True}, "observed": r, "spec": "Registry (operations are atomic and complete)"}
            if r.get("broken"):
                raise common.Broken("notification-handler scenario: %s" % r["broken"])
            if r.get("hung"):
                run_.diverge("registry=notification-handlers kind=%s operation-never-completes" % r["kind"],
                             "'%s' did not return within 3 s; steps: %s" % (r["hung"], r["steps"]), rp)
            elif r["max_reg_ms"] > 1000:
                run_.diverge("registry=notification-handlers kind=%s operation-blocked" % r["kind"],
                             "a registry operation took %.0f ms while a handler was running; steps: %s" % (r["max_reg_ms"], r["steps"]), rp)
            elif r["seen_by"] != [1, 2, 3, 4]:
                run_.diverge("registry=notification-handlers kind=%s wrong-handler" % r["kind"],
                             "notifications 1..4 were seen by handler versions %s, the registrations in force were 1, 2, 3, 4" % r["seen_by"], rp)
            run_.nontriv(["notification-handlers", r["kind"]])
    run_.rule = ("histories = seeded random concurrent workloads (4-5 goroutines x 12-16 operations over 3 names, each registry) on a real server; "
                 "non-trivial = histories in which operations really overlap (an invocation logged while another is pending)")
    run_.assumptions = ["log order = order of the harness mutex at invocation / return marks (real-time precedence only)",
                        "a static lockset claim over all access paths is not decided, only the explored behaviours"]
    return run_.finish()
