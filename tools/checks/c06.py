"""C06 - servers survive arbitrary peer input.

1. TLC: Survive.tla - input classes, the reactions admitted for each, StaysAlive / GoodIsServed over all
   sequences up to length 3 (the model is also the enumerator of class orderings).
2. Binding A: every class is concretised (several representatives: syntax garbage, truncation at token
   boundaries, invalid UTF-8, nesting 10^4, 10 MiB strings, huge numbers, every JSON type in every field,
   unknown methods, wrong paths and verbs, bad Content-Length, duplicated / garbage headers, stray responses)
   and fed by a raw peer - in orders that realise every ordered pair of classes (thorough) - to Streamable
   JSON / SSE / stateless / sessions-disabled, legacy SSE and stdio servers running in a child process; after
   each batch: ping on the same and on a fresh connection, library goroutines left.
3. Binding B: the feed / health log is validated by TLC against TraceSurvive."""
import base64
import json
import random

from vlib import common, tla, tracebatch
from checks import rpccommon as rc

PROP = "C06"
GOOD = '{"jsonrpc":"2.0","id":%d,"method":"tools/call","params":{"name":"echo","arguments":{"nonce":"g%d"}}}'
VALID = '{"jsonrpc":"2.0","id":77,"method":"tools/call","params":{"name":"echo","arguments":{"nonce":"v","list":[1,true,null],"o":{"k":"v"}}}}'


def b64(b):
    return base64.b64encode(b).decode()


def representatives(kind, rnd):
    """class -> list of (item, needs_answer)"""
    http = kind != "stdio"
    R = {}

    def add(cls, needs, **item):
        R.setdefault(cls, []).append((item, needs))
    for s in ["garbage", "{", "}{", "[1,", '{"jsonrpc":"2.0",}', "true false", '{"a":1}}', "'single'", '{"id":1 "method":"ping"}']:
        add("syntax", True, body=s)
    add("syntax", True, body_b64=b64(b'\x00\x01\x02{"jsonrpc"'))
    cuts = [i for i, ch in enumerate(VALID) if ch in ',:{}[]"'][1:]
    for i in rnd.sample(cuts, 8):
        add("truncated", True, body=VALID[:i])
    add("utf8", True, body_b64=b64(b'\xff\xfe{"jsonrpc":"2.0","id":1,"method":"ping"}'))
    add("utf8", True, body_b64=b64(b'{"jsonrpc":"2.0","id":1,"method":"pi\xc3\x28ng-\xff"}'))
    add("deep", True, body="[" * 10050 + "]" * 10050)
    add("deep", True, body='{"jsonrpc":"2.0","id":5,"method":"tools/call","params":{"name":"echo","arguments":' + '{"a":' * 10050 + "1" + "}" * 10050 + "}}")
    add("number-huge", True, body='{"jsonrpc":"2.0","id":1e999999,"method":"ping"}')
    add("number-huge", True, body='{"jsonrpc":"2.0","id":5,"method":"tools/call","params":{"name":"echo","arguments":{"n":1e999999}}}')
    for m in ('5', '{"x":1}', '[1]', 'true'):
        add("envelope-type", True, body='{"jsonrpc":"2.0","id":9,"method":%s}' % m)
    for b in ('[1,2]', '"str"', '42', 'true'):
        add("envelope-type", True, body=b)
    for m in ("tools/call", "prompts/get", "resources/read", "initialize"):
        for pc in ("array", "string", "number", "keyNumber", "keyObject", "keyMissing"):
            add("params-type", True, body=rc.body_for(m, pc, 31)[0])
    add("params-type", True, body=rc.body_for("tools/call", "argsArray", 32)[0])
    add("params-type", True, body=rc.body_for("prompts/get", "argsArray", 33)[0])
    add("params-type", True, body=rc.body_for("resources/read", "argsArray", 34)[0])
    add("params-type", True, body=rc.body_for("resources/read", "argsString", 35)[0])
    for m in ("nope", "tools/nope", "", "tools/call/extra", "TOOLS/CALL", "rpc.discover", "x" * 5000):
        if m:
            add("unknown-method", True, body=json.dumps({"jsonrpc": "2.0", "id": 3, "method": m}))
    if http:
        for p in ("/", "/mcpx", "/mcp/", "/mcp/extra", "/../mcp", "/%2e%2e/mcp"):
            add("wrong-path", True, body=GOOD % (1, 1), path=p)
        for v in ("PUT", "PATCH", "OPTIONS", "TRACE", "HEAD"):
            add("wrong-verb", v != "HEAD", body=GOOD % (1, 1), http_method=v)
        path = "/mcp" if kind != "legacy" else "/message?sessionId=x"
        add("bad-content-length", True, raw_http="POST %s HTTP/1.1\r\nHost: x\r\nContent-Type: application/json\r\nMcp-Session-Id: {SID}\r\nContent-Length: 500\r\n\r\n{\"jsonrpc\":\"2.0\"," % path)
        add("bad-content-length", True, raw_http="POST %s HTTP/1.1\r\nHost: x\r\nContent-Type: application/json\r\nMcp-Session-Id: {SID}\r\nContent-Length: 3\r\n\r\n{\"jsonrpc\":\"2.0\",\"id\":1,\"method\":\"ping\"}" % path)
        add("dup-header", True, raw_http="POST %s HTTP/1.1\r\nHost: x\r\nContent-Type: application/json\r\nMcp-Session-Id: {SID}\r\nMcp-Session-Id: other\r\nContent-Length: 40\r\n\r\n{\"jsonrpc\":\"2.0\",\"id\":1,\"method\":\"ping\"}" % path)
        add("header-garbage", True, body=GOOD % (2, 2), headers={"Content-Type": "text/plain"})
        add("header-garbage", True, body=GOOD % (2, 2), headers={"Content-Type": "-"})
        add("header-garbage", True, body=GOOD % (2, 2), headers={"Accept": "garbage/*;q=x"})
        add("header-garbage", True, body=GOOD % (2, 2), headers={"Accept": "-"})
        # media ranges with parameters of every malformed shape (a parameter without a value, an empty one, q out of range)
        for a in ("text/event-stream;q", "application/json, text/event-stream; q ;x", "text/event-stream;q=", "application/json;=1", ";", ",,,", "text/event-stream;;;",
                  "application/json;q=0, text/event-stream", "*/*;q=0", "application/json;q=7, text/event-stream;Q", "text/event-stream;q=\"", "a" * 9000):
            add("header-garbage", True, body=GOOD % (2, 2), headers={"Accept": a})
        add("session-garbage", True, body=GOOD % (2, 2), session="garbage")
        add("session-garbage", True, body=GOOD % (2, 2), headers={"Mcp-Session-Id": "x" * 9000})
    for b in ('{"jsonrpc":"2.0","id":99,"result":{}}', '{"jsonrpc":"2.0","id":"never","result":{"roots":[]}}', '{"jsonrpc":"2.0","id":1.5,"result":null}'):
        add("stray-response", False, body=b)
    # answers to requests that were never sent, with ids of every JSON type
    for i in ('[1,2]', '{"a":1}', 'true', 'null', '[[]]', '1e400'):
        add("stray-response", False, body='{"jsonrpc":"2.0","id":%s,"result":{"roots":[]}}' % i)
        add("stray-error", False, body='{"jsonrpc":"2.0","id":%s,"error":{"code":-32000,"message":"x"}}' % i)
    # tools/call whose _meta (and its progressToken) has every JSON type
    for mv in ('{"progressToken":true}', '{"progressToken":null}', '{"progressToken":{"a":1}}', '{"progressToken":[1]}', '{"progressToken":1.5}',
               '"text"', '[1]', '7', 'null', '{"progressToken":"' + "t" * 70000 + '"}'):
        add("meta-type", True, body='{"jsonrpc":"2.0","id":64,"method":"tools/call","params":{"name":"echo","arguments":{"nonce":"m"},"_meta":%s}}' % mv)
    # list requests with a cursor: well-formed ones that point beyond the end, and malformed ones
    import base64 as _b64
    for m in ("tools/list", "prompts/list", "resources/list", "resources/templates/list"):
        for cur in ("5000", "100", "1", "9223372036854775807", "18446744073709551616", "-1", "abc", ""):
            add("cursor", True, body=json.dumps({"jsonrpc": "2.0", "id": 61, "method": m, "params": {"cursor": _b64.b64encode(cur.encode()).decode()}}))
        add("cursor", True, body=json.dumps({"jsonrpc": "2.0", "id": 62, "method": m, "params": {"cursor": "%%%not-base64"}}))
        add("cursor", True, body=json.dumps({"jsonrpc": "2.0", "id": 63, "method": m, "params": {"cursor": 7}}))
    add("stray-error", False, body='{"jsonrpc":"2.0","id":98,"error":{"code":-32000,"message":"x"}}')
    add("stray-error", False, body='{"jsonrpc":"2.0","id":98,"error":"not-an-object"}')
    add("notification-unknown", False, body='{"jsonrpc":"2.0","method":"notifications/verif-unknown","params":{"a":[1]}}')
    add("notification-unknown", False, body='{"jsonrpc":"2.0","method":"notifications/cancelled","params":{"requestId":12345}}')
    add("notification-unknown", False, body='{"jsonrpc":"2.0","method":"notifications/initialized"}')
    add("blank", False, body="")
    add("blank", False, body="   ")
    add("id-null", False, body='{"jsonrpc":"2.0","id":null,"method":"ping"}')
    add("big-string", True, body='{"jsonrpc":"2.0","id":6,"method":"tools/call","params":{"name":"echo","arguments":{"nonce":"big","pad":"%s"}}}' % ("z" * (10 * 1024 * 1024)))
    add("version-less", True, body='{"id":7,"method":"ping"}')
    add("version-less", True, body='{"jsonrpc":"1.0","id":7,"method":"ping"}')
    return R


def reaction(obs, needs_answer, http):
    if obs.get("err"):
        return "hang" if "deadline" in obs["err"] or "timeout" in obs["err"].lower() else "reset"
    for f in obs["frames"]:
        try:
            m = json.loads(f)
        except ValueError:
            continue
        if isinstance(m, dict) and "error" in m:
            return "refused"
        if isinstance(m, dict) and "result" in m:
            return "served"
    st = obs["status"]
    if http and st >= 400:
        return "refused"
    if needs_answer:
        return "empty2xx" if http else "hang"
    return "ignored"


def run(tier, replay=None):
    run_ = common.Run(PROP, "fault_enumeration", tier)
    rnd = random.Random(common.seed())
    if replay:
        doc = json.load(open(replay))
        print(json.dumps(common.run_harness_json(doc["replay"]["cmd"], doc["replay"]["input"], crash_ok=True), indent=1)[:6000])
        return 0
    tla.sany("Survive"); tla.sany("TraceSurvive")
    g = tla.run_tlc("Survive", "Survive_2.cfg", dump=True, parse_states=False)
    if not g.ok:
        raise common.Broken("Survive violates %s" % g.violation)
    run_.states += g.distinct; run_.transitions += g.generated
    if tier == "thorough":
        g3 = tla.run_tlc("Survive", "Survive_3.cfg")
        run_.states += g3.distinct; run_.transitions += g3.generated
    # orderings: the ordered pairs of classes reachable in the model (edges of depth 2)
    classes = sorted({e[3][0] for e in g.graph.edges})
    pairs = [(a, b) for a in classes for b in classes if a != "good" or b != "good"]
    rnd.shuffle(pairs)
    jobs, metas = [], []
    for kind in rc.KINDS:
        R = representatives(kind, rnd)
        avail = [c for c in classes if c in R]
        seq = []
        if tier == "thorough":
            for a, b in pairs:
                if a in R or a == "good":
                    seq.append(a)
                if b in R or b == "good":
                    seq.append(b)
        else:
            for rep in range(3):
                order = avail[:]
                rnd.shuffle(order)
                for i, c in enumerate(order):
                    seq.append(c)
                    if i % 3 == 2:
                        seq.append("good")
        # every representative at least once
        for c in avail:
            for k in range(len(R[c])):
                seq.append((c, k))
        items, meta = [], []
        used = {}
        for n, c in enumerate(seq):
            if isinstance(c, tuple):
                cls, k = c
            elif c == "good":
                cls, k = "good", 0
            else:
                cls = c
                k = used.get(c, 0) % len(R[c])
                used[c] = used.get(c, 0) + 1
            if cls == "good":
                it, needs = {"body": GOOD % (1000 + n, n)}, True
            else:
                it, needs = R[cls][k]
            it = dict(it, id="f%d" % n, sse=(kind == "sse"), expect_answer=bool(needs and cls in ("good", "big-string")))
            if kind == "legacy" and it.get("path"):
                it["path"] = it["path"] + "?sessionId=x"
            items.append(it)
            meta.append((cls, needs))
        # split into 3 batches per kind (each has its own health check)
        nb = 3
        for b in range(nb):
            part = list(range(b, len(items), nb))
            jobs.append((kind, [items[i] for i in part], "rich"))
            metas.append([meta[i] for i in part])
    outs = rc.run_probes(jobs, workers=12)
    traces, rps = [], {}
    for j, ((kind, items, _), meta, out) in enumerate(zip(jobs, metas, outs)):
        http = kind != "stdio"
        if "_crash" in out:
            # bisect: which single input kills the process ?
            culprit = None
            for it, (cls, needs) in zip(items, meta):
                o1 = rc.run_probe(kind, [it])
                if "_crash" in o1:
                    culprit = (it, cls)
                    break
            cls = culprit[1] if culprit else "sequence"
            run_.evaluations += 1
            run_.diverge("kind=%s class=%s process-crash" % (kind, cls), "the server process died: %s" % out["_crash"][:1500],
                         {"cmd": ["rpcprobe"], "input": {"kind": kind, "set": "rich", "items": [culprit[0]] if culprit else items}})
            continue
        ev = []
        tid = "%s-%d" % (kind, j)
        for it, (cls, needs), obs in zip(items, meta, out["obs"]):
            run_.evaluations += 1
            r = reaction(obs, needs, http)
            ev.append({"e": "feed", "cls": cls, "reaction": r, "_it": it, "_obs": obs})
            run_.nontriv([kind, cls, json.dumps({k: (v if len(str(v)) < 200 else str(v)[:200]) for k, v in it.items() if k != "id"}, sort_keys=True)])
        h = out["health"]
        leak = max(0, h["lib_goroutines_after"] - h["lib_goroutines_before"])
        ev.append({"e": "health", "same": bool(h["same_session_ping"]), "fresh": bool(h["fresh_session_ping"]), "leak": int(leak), "_h": h})
        traces.append((tid, ev))
        rps[tid] = (kind, items, ev)
        if len(run_.samples) < 2:
            run_.sample({"kind": kind, "feed": [{"class": e["cls"], "reaction": e["reaction"]} for e in ev[:12] if e["e"] == "feed"], "health": h})
    clean = [(tid, [{k: v for k, v in e.items() if not k.startswith("_")} for e in ev]) for tid, ev in traces]
    rej = tracebatch.validate(run_, "TraceSurvive", "TraceSurvive.cfg", clean, sep={"e": "reset"}, max_rejections=12, max_lines=8000)
    for tid, (pos, line) in rej.items():
        kind, items, ev = rps[tid]
        e = ev[pos]
        if line["e"] == "health":
            h = e["_h"]
            what = "goroutine-leak" if line["leak"] else ("fresh-connection-not-served" if not line["fresh"] else "same-connection-not-served")
            run_.diverge("kind=%s %s" % (kind, what), "after the batch: %s; leaked sample: %s" % ({k: v for k, v in h.items() if k != "leaked_sample"}, (h.get("leaked_sample") or "")[:700]),
                         {"cmd": ["rpcprobe"], "input": {"kind": kind, "set": "rich", "items": items}})
        else:
            it, obs = e["_it"], e["_obs"]
            shown = {k: (v if len(str(v)) < 300 else str(v)[:300] + "...") for k, v in it.items()}
            run_.diverge("kind=%s class=%s reaction=%s" % (kind, line["cls"], line["reaction"]),
                         "input %s was answered: %s (reaction %s is not admitted for class %s)" % (json.dumps(shown)[:400], rc.summarise(obs), line["reaction"], line["cls"]),
                         {"cmd": ["rpcprobe"], "input": {"kind": kind, "set": "rich", "items": [it]}, "observed": obs})
    # ---- a peer that sends a well-formed tools/call and drops its connection while the tool is still running (the server-side
    # driver of C08): once the tool has returned nothing of that request is left - no goroutine per abandoned request
    ab = [{"id": "abandon-%s-%s-%s" % (server, state, how), "server": server, "state": state, "how": how, "npeers": 2}
          for server in ("streamable", "streamable-sse", "legacy") for state in ("in-handler",) for how in ("close", "reset")]
    aout = common.run_harness_json(["c08srv"], {"scenarios": ab}, timeout=600, crash_ok=True)
    if "_crash" in aout:
        run_.diverge("abandoned-call process-crash", "the server process died: %s" % aout["_crash"][:1200], {"cmd": ["c08srv"], "input": {"scenarios": ab}})
    else:
        for sc, r in zip(ab, aout["results"]):
            run_.evaluations += 1
            if r.get("broken") or not r.get("reached"):
                raise common.Broken("abandoned-call scenario %s: %s" % (sc["id"], r.get("broken") or "state not reached"))
            run_.nontriv(["abandon", sc["id"]])
            if r["lib_goroutines"] > 0 or r["handlers"] > 0:
                run_.diverge("server=%s abandoned-call leaves=%s" % (sc["server"], "goroutines" if r["lib_goroutines"] > 0 else "handlers"),
                             "two peers sent a tools/call and %s their connections while the tool was running: %d ms later the server still holds %+d library goroutines, %d handler invocations %s"
                             % ("closed" if sc["how"] == "close" else "reset", r["release_ms"], r["lib_goroutines"], r["handlers"], r.get("sample", "")[:400]),
                             {"cmd": ["c08srv"], "input": {"scenarios": [sc]}, "observed": r, "spec": "Survive (no goroutine per request) / PeerGone"})
    run_.rule = ("inputs = representatives of %d input classes (from Survive.tla) fed in model-enumerated orders to 6 server kinds, 3 batches each with a "
                 "health check; distinct non-trivial = distinct (kind, class, concrete input)" % len(classes))
    run_.assumptions = ["coverage-guided byte fuzzing is a different technique and is not used: 'all byte strings' is covered by classes",
                        "the per-SessionManager sweeper goroutine lives as long as the server by design and is not counted as a leak",
                        "exchange bound 5 s (hang), settle time for silent stream transports 80 ms"]
    return run_.finish()
