"""C15 - middlewares wrap every request as an onion, each exactly once.

1. TLC: Middleware.tla for every chain up to length 4 over {pass, modReq, modRes, short, fail}:
   ExactlyOnce, Onion (order b1..bk [H] ak..a1, nothing inside a stopper runs), ShortIsTheAnswer, Termination.
2. Binding A: every finished state of the graph is a chain with the expected event sequence and answer;
   each chain is built from instrumented middlewares on a real Streamable-HTTP server (JSON and SSE
   answers) and a real legacy SSE server, in both option forms, with overlapped requests; the recorded
   per-request event sequence, the answer the raw peer received, the context/session each stage saw
   and the absence of notifications in the chain are compared with the model.
3. Binding B: the per-request event logs are validated by TLC against TraceMiddleware."""
import json
import random
from concurrent.futures import ThreadPoolExecutor

from vlib import common, tla, tracebatch

PROP = "C15"


def expected_answer(res, nonce):
    if res["base"] == "fail":
        return ("error", "mw-fail-%d-%s" % (res["who"], nonce))
    if res["base"] == "short":
        v = {"short": res["who"], "nonce": nonce}
    else:
        trail = "".join("q%d" % i for i in res["trail"])
        v = {"content": [{"type": "text", "text": "H:%s:%s" % (nonce, trail)}]}
    for w in res["wraps"]:
        v = {"wrapped_by": w, "inner": v}
    return ("result", v)


def run(tier, replay=None):
    run_ = common.Run(PROP, "model_checking", tier)
    rnd = random.Random(common.seed())
    if replay:
        doc = json.load(open(replay))
        print(json.dumps(common.run_harness_json(doc["replay"]["cmd"], doc["replay"]["input"]), indent=1)[:6000])
        return 0
    tla.sany("Middleware")
    tla.sany("TraceMiddleware")
    cfg = "Middleware_3.cfg" if tier == "quick" else "Middleware_4.cfg"
    r = tla.run_tlc("Middleware", cfg, dump=True)
    if not r.ok:
        raise common.Broken("Middleware violates %s" % r.violation)
    run_.add_tlc(r)
    finals = [st for st in r.graph.nodes.values() if st["done"]]
    scen = []
    model = {}
    for n, st in enumerate(sorted(finals, key=lambda s: (len(s["chain"]), s["chain"]))):
        chain = list(st["chain"])
        events = ["H" if e[0] == "H" else "%s%d" % (e[0], e[1]) for e in st["events"]]
        combos = [("json", "single"), ("sse", "repeated"), ("legacy", "single")]
        if tier == "thorough":
            combos = [(t, f) for t in ("json", "sse", "legacy") for f in ("single", "repeated")]
        elif len(chain) == 3:
            combos = [rnd.choice([(t, f) for t in ("json", "sse", "legacy") for f in ("single", "repeated")]), combos[n % 3]]
        for t, f in combos:
            sid = "c%d%s%s" % (n, t[0], f[0])
            scen.append({"id": sid, "chain": chain, "transport": t, "form": f, "parallel": 4 if rnd.random() < 0.5 else 1})
            model[sid] = (st, events)
    nproc = 12
    chunks = [scen[i::nproc] for i in range(nproc)]

    def one(ch):
        return common.run_harness_json(["c15"], {"scenarios": ch}, timeout=900)["results"] if ch else []

    byid = {s["id"]: s for s in scen}
    items = []
    rps = {}
    with ThreadPoolExecutor(max_workers=nproc) as ex:
        for res in ex.map(one, chunks):
            for rr in res:
                sc = byid[rr["id"]]
                st, events = model[rr["id"]]
                if rr.get("broken"):
                    raise common.Broken("scenario %s: %s" % (rr["id"], rr["broken"]))
                run_.evaluations += 1
                if rr.get("handshake_err"):
                    run_.diverge("transport=%s second-session-cannot-handshake" % sc["transport"],
                                 "with the chain %s configured a SECOND session cannot complete its handshake (%s); the same server without middlewares accepts it"
                                 % (sc["chain"], rr["handshake_err"]), {"cmd": ["c15"], "input": {"scenarios": [sc]}})
                    continue
                rp = {"cmd": ["c15"], "input": {"scenarios": [sc]}, "expected_events": events, "model_answer": st["res"], "spec": "Middleware"}
                rps[rr["id"]] = rp
                tag = "transport=%s form=%s" % (sc["transport"], sc["form"])
                if rr["notif_mw"]:
                    run_.diverge(tag + " notification-in-chain", "a notification travelled through the middleware chain (%s)" % rr["other"], rp)
                if sc["chain"]:
                    for meth in ("ping", "resources/list", "verif/custom"):
                        if meth not in (rr["other"] or []):
                            run_.diverge(tag + " request-bypasses-chain method=%s" % meth,
                                         "a %s request was answered without entering the outermost middleware (methods the chain saw: %s)" % (meth, rr["other"]), rp)
                if sc["chain"] and '"result"' not in (rr.get("alias") or ""):
                    run_.diverge(tag + " method-rewrite-not-dispatched", "the outermost middleware rewrote the method verif/alias to tools/call and called next; the answer was %s"
                                 % (rr.get("alias") or "")[:300], rp)
                for q in rr["reqs"]:
                    rp2 = dict(rp, observed=q)
                    if q["events"] != events:
                        run_.diverge(tag + " event-sequence chain=%s" % "/".join(sc["chain"]),
                                     "request %s recorded %s, the onion order is %s (chain %s)" % (q["nonce"], q["events"], events, sc["chain"]), rp2)
                    if not q["ctx_ok"]:
                        run_.diverge(tag + " foreign-context", "request %s: %s" % (q["nonce"], q["ctx_note"]), rp2)
                    kind, val = expected_answer(st["res"], q["nonce"])
                    resp = q["response"] or {}
                    if kind == "error":
                        err = resp.get("error") or {}
                        if err.get("code") != -32603 or val not in str(err.get("message")):
                            run_.diverge(tag + " middleware-error-answer", "request %s answered %s, expected a -32603 error carrying %r"
                                         % (q["nonce"], json.dumps(resp)[:300], val), rp2)
                    else:
                        if resp.get("result") != val or "error" in resp:
                            run_.diverge(tag + " answer base=%s" % st["res"]["base"], "request %s answered %s, expected result %s"
                                         % (q["nonce"], json.dumps(resp)[:300], json.dumps(val)[:300]), rp2)
                    ev = [{"e": "cfg", "chain": sc["chain"]}] + [{"e": "ev", "k": e[0], "i": int(e[1:]) if len(e) > 1 else 0} for e in q["events"]]
                    ev.append({"e": "end"})
                    items.append((rr["id"] + "/" + q["nonce"], ev))
                if len(sc["chain"]) >= 2:
                    run_.nontriv([sc["chain"], sc["transport"], sc["form"], sc["parallel"]])
                if len(run_.samples) < 3 and len(sc["chain"]) == 3:
                    run_.sample({"scenario": sc, "expected_events": events, "observed": rr["reqs"][0]})
    had = bool(run_.violations) or bool(run_.known_hit)
    rej = tracebatch.validate(run_, "TraceMiddleware", "TraceMiddleware.cfg", items)
    for tid, (pos, line) in rej.items():
        if not had:
            raise common.Broken("TLC rejects the event log %s at %s although the comparison accepted it" % (tid, line))
        run_.diverge("trace-rejected", "TLC rejects the event log of %s at %d %s" % (tid, pos, json.dumps(line)), rps[tid.split("/")[0]])
    run_.exhaustive = True
    run_.rule = ("scenarios = every chain up to length %d over 5 behaviours (from TLC's graph) x transports {Streamable JSON, Streamable SSE, "
                 "legacy SSE} x option forms, 1 or 4 overlapped requests; non-trivial = chains of length >= 2" % (3 if tier == "quick" else 4))
    run_.assumptions = ["the instrumented middlewares are harness code with fixed simple behaviours; notifications are checked on Streamable HTTP"]
    return run_.finish()
