"""C08 - every client call ends when its connection or context ends; nothing leaks.

1. TLC: CallEnds.tla (1..3 pending calls, one fault kind x boundary, context end): every call ends (liveness),
   never with a partial result, an error always has a cause, nothing is held after Close; the
   leak-on-early-return variant yields a counterexample.  PeerGone.tla (server side): what a server holds for a
   peer (stream entry, handler, pending entry) is released once the peer is gone; with a handler context that
   nothing cancels the release never happens (counterexample).
2. Binding A (clients): every (fault, boundary) initial state of CallEnds is executed against the real Streamable
   client (JSON answer, SSE answer with / without notification handlers), the legacy SSE client and the stdio client,
   with 1..3 calls pending and the three context kinds.  The peer is a raw TCP server (bytes cut at the boundary,
   then FIN / RST / silence) or a scripted child (exit / SIGKILL / silence); thorough adds sampled byte offsets and
   half-sent request bodies.  Observed: outcome and time of every call relative to the fault and the context end;
   after Close: library goroutines, net/http connection goroutines, descriptors, the child, the pending table.
3. Binding A (servers): a raw peer brings a real Streamable (JSON / SSE answers) or legacy server into a state of
   PeerGone, then closes or resets all its connections; observed: time until streams, pending entries, handler
   invocations and library goroutines are back.
4. Binding B: all scenario logs are validated by TLC against TraceCallEnds / TracePeerGone."""
import json
import random
from concurrent.futures import ThreadPoolExecutor

from vlib import common, tla, tracebatch

PROP = "C08"
PROMPT_MS = 1000       # "promptly": back within 1 s of the fault / the end of the context
RELEASE_MS = 2000      # server side: released within 2 s of the peer's disappearance

AT = {"json": ["b0", "headers-mid", "headers-done", "mid", "done"],
      "sse": ["b0", "headers-mid", "headers-done", "mid", "between", "done"],
      "sse-nh": ["b0", "headers-mid", "headers-done", "mid", "between", "done"],
      "legacy": ["b0", "mid", "between", "done"],
      "stdio": ["b0", "mid", "between", "done"]}
FAULTS = {"json": ["close", "reset", "stall"], "sse": ["close", "reset", "stall"], "sse-nh": ["close", "reset", "stall"],
          "legacy": ["close", "reset", "stall"], "stdio": ["exit", "kill", "stall"]}
EXTRA_AT = {"json": {"req-mid": "b0"}, "sse": {"req-mid": "b0", "done-trail": "done"}, "sse-nh": {"done-trail": "done"},
            "legacy": {"post-b0": "b0", "post-mid": "headers-mid"}}


def ctx_kinds(fault, at, client, n=1):
    if fault == "stall":
        if at == "done" and client != "sse-nh" and (n == 1 or client not in ("legacy", "stdio")):
            return ["none", "deadline"]      # the answer is there: the call returns although the stream stays open
        return ["deadline", "cancel"]
    return ["none", "deadline"]


def client_events(sc, r):
    n = sc["ncalls"]
    shared = sc["client"] in ("legacy", "stdio")
    mfault = sc.get("model_fault", sc["fault"])
    ev = [{"e": "cfg", "fault": mfault, "at": sc["model_at"], "n": n, "shared": shared}]
    timed = []
    inject = r["fault_ms"] if (mfault != "stall" and r["fault_ms"] >= 0) else None
    if inject is not None:
        timed.append((inject, 0, {"e": "inject"}))
    ctx_ends = [c["ctx_end_ms"] for c in r["calls"] if c["ctx_end_ms"] >= 0]
    if ctx_ends and any(c["end_ms"] >= c["ctx_end_ms"] - 5 for c in r["calls"] if c["ctx_end_ms"] >= 0):
        timed.append((min(ctx_ends) - 5, 1, {"e": "ctx"}))
    # with one shared stream the model's call 1 is the one whose answer was cut
    order = list(range(n))
    if shared and r.get("delivered_to", "").startswith("c"):
        first = int(r["delivered_to"][1:])
        order = [first] + [i for i in order if i != first]
    for k, i in enumerate(order):
        c = r["calls"][i]
        if c["hung"]:
            out = "hung"
        elif c["ok"]:
            out = "ok" if c["own"] else "wrong"
        else:
            out = "err"
        causes = [t for t in (inject, c["ctx_end_ms"] if c["ctx_end_ms"] >= 0 else None) if t is not None]
        late = bool(out == "err" and causes and c["end_ms"] > min(causes) + PROMPT_MS)
        timed.append((c["end_ms"], 2, {"e": "ret", "c": k + 1, "out": out, "late": late, "ms": round(c["end_ms"], 1)}))
    timed.sort(key=lambda x: (x[0], x[1]))
    ev += [e for _, _, e in timed]
    if r.get("after"):
        ev.append({"e": "after", "out": "ok" if r["after"] == "ok" else "err", "detail": r["after"][:120]})
    left = []
    if r["lib_goroutines"] > 0:
        left.append("library-goroutines")
    if r["http_goroutines"] > 0:
        left.append("http-connection-goroutines")
    if r["fds"] > 0:
        left.append("descriptors")
    if r["child_left"]:
        left.append("child-process")
    if r["pending"] > 0:
        left.append("pending-entries")
    if r.get("close_err") or r["close_ms"] > 2000:
        left.append("close-slow-or-failed")
    ev.append({"e": "close", "nleft": len(left), "left": left})
    return ev


def build_client_scenarios(g, tier, rnd):
    combos = sorted({(st["fault"], st["at"]) for st in (g.graph.nodes[i] for i in g.graph.init)})
    scen = []
    for client in AT:
        for fault, at in combos:
            if fault not in FAULTS[client] or at not in AT[client]:
                continue
            if tier == "thorough":
                plan = [(n, c) for n in (1, 2, 3) for c in ctx_kinds(fault, at, client, n)]
            else:
                n = rnd.choice((1, 2, 3))
                plan = [(n, rnd.choice(ctx_kinds(fault, at, client, n)))]
            for n, c in plan:
                scen.append({"client": client, "fault": fault, "at": at, "model_at": at, "ncalls": n, "ctx": c})
        for at, model_at in EXTRA_AT.get(client, {}).items():
            for fault in FAULTS[client]:
                ctxs = ctx_kinds(fault, model_at, client)
                plan = [(n, c) for n in (1, 2) for c in ctxs] if tier == "thorough" else [(rnd.choice((1, 2)), rnd.choice(ctxs))]
                for n, c in plan:
                    scen.append({"client": client, "fault": fault, "at": at, "model_at": model_at, "ncalls": n, "ctx": c})
        # clients configured with retries: a retryable fault (nothing of the answer arrived), and the context ends during the back-off
        if client in ("json", "sse", "legacy"):
            for fault in (("close", "reset") if tier == "thorough" else (rnd.choice(("close", "reset")),)):
                for c in (("deadline", "cancel") if tier == "thorough" else (rnd.choice(("deadline", "cancel")),)):
                    scen.append({"client": client, "fault": fault, "at": "b0", "model_at": "b0", "ncalls": 1, "ctx": c, "retry": True})
        # a call answered with an HTTP error status and a body on a connection that stays open: it ends with an error, and nothing of it
        # is left after Close while the peer is still there
        if client in ("json", "sse"):
            for at in ("status-503", "status-404"):
                for n in ((1, 3) if tier == "thorough" else (rnd.choice((1, 2, 3)),)):
                    scen.append({"client": client, "fault": "status", "model_fault": "close", "at": at, "model_at": "b0", "ncalls": n, "ctx": "none"})
        # sampled byte offsets of the answer
        noff = 24 if tier == "thorough" else 3
        for _ in range(noff):
            fault = rnd.choice(FAULTS[client])
            off = rnd.randrange(1, 360)
            ctxs = ctx_kinds(fault, "mid", client)
            scen.append({"client": client, "fault": fault, "at": "byte:%d" % off, "model_at": "mid", "ncalls": rnd.choice((1, 2, 3)), "ctx": rnd.choice(ctxs)})
        # the client's owner acts while calls are pending: Close(), and - with the reader parked between looking a call's
        # channel up and handing the answer over - cancel / Close (the race a late answer opens)
        for n in ((1, 2, 3) if tier == "thorough" else (rnd.choice((1, 2, 3)),)):
            scen.append({"client": client, "fault": "clientclose", "at": "b0", "model_at": "b0", "ncalls": n, "ctx": "deadline"})
        if client == "legacy":
            # Close() while the handshake is still waiting for the stream's response headers
            scen.append({"client": client, "fault": "clientclose", "at": "connect-stall", "model_at": "b0", "ncalls": 1, "ctx": "deadline"})
            scen.append({"client": client, "fault": "clientclose", "at": "connect-stall2", "model_at": "b0", "ncalls": 1, "ctx": "deadline"})
            scen.append({"client": client, "fault": "clientclose", "at": "endpoint-stall2", "model_at": "b0", "ncalls": 1, "ctx": "deadline"})
        if client in ("legacy", "stdio"):
            scen.append({"client": client, "fault": "race-cancel", "model_fault": "stall", "at": "done", "model_at": "done", "ncalls": 1, "ctx": "race"})
            scen.append({"client": client, "fault": "race-close", "model_fault": "clientclose", "at": "done", "model_at": "done", "ncalls": 1, "ctx": "race"})
    for i, s in enumerate(scen):
        s["id"] = "%s-%s-%s%s-n%d-%s-%d" % (s["client"], s["fault"], s["at"], "-retry" if s.get("retry") else "", s["ncalls"], s["ctx"], i)
    return scen


def run(tier, replay=None):
    run_ = common.Run(PROP, "model_checking", tier)
    rnd = random.Random(common.seed())
    if replay:
        doc = json.load(open(replay))
        print(json.dumps(common.run_harness_json(doc["replay"]["cmd"], doc["replay"]["input"], crash_ok=True), indent=1)[:6000])
        return 0
    for m in ("CallEnds", "TraceCallEnds", "PeerGone", "TracePeerGone"):
        tla.sany(m)
    g = tla.run_tlc("CallEnds", "CallEnds.cfg", dump=True)
    if not g.ok:
        raise common.Broken("CallEnds violates %s" % g.violation)
    run_.add_tlc(g)
    b = tla.run_tlc("CallEnds", "CallEnds_bug_leak.cfg")
    if b.ok or b.violation != "NothingLeaks":
        raise common.Broken("self-test: CallEnds_bug_leak should violate NothingLeaks")
    run_.add_tlc(b)
    pg = tla.run_tlc("PeerGone", "PeerGone.cfg", dump=True)
    if not pg.ok:
        raise common.Broken("PeerGone violates %s" % pg.violation)
    run_.add_tlc(pg)
    b = tla.run_tlc("PeerGone", "PeerGone_bug_unbound.cfg")
    if b.ok:
        raise common.Broken("self-test: PeerGone with an unbound handler context should violate Released")
    run_.add_tlc(b)

    scen = build_client_scenarios(g, tier, rnd)
    rnd.shuffle(scen)
    nproc = 10
    chunks = [scen[i::nproc] for i in range(nproc)]

    def one(ch):
        if not ch:
            return []
        strip = [{k: v for k, v in s.items() if not k.startswith("model_")} for s in ch]
        out = common.run_harness_json(["c08"], {"scenarios": strip}, timeout=1500, crash_ok=True)
        if "_crash" not in out:
            return out["results"]
        res = []
        for s in strip:
            o = common.run_harness_json(["c08"], {"scenarios": [s]}, timeout=120, crash_ok=True)
            res.append({"id": s["id"], "_crash": o["_crash"]} if "_crash" in o else o["results"][0])
        return res

    byid = {s["id"]: s for s in scen}
    items, rps = [], {}
    with ThreadPoolExecutor(max_workers=nproc) as ex:
        for res in ex.map(one, chunks):
            for r in res:
                sc = byid[r["id"]]
                run_.evaluations += 1
                rp = {"cmd": ["c08"], "input": {"scenarios": [{k: v for k, v in sc.items() if not k.startswith("model_")}]}, "observed": r, "spec": "CallEnds"}
                at_class = "byte-offset" if sc["at"].startswith("byte:") else sc["at"]
                tag = "client=%s%s fault=%s at=%s" % (sc["client"], "+retry" if sc.get("retry") else "", sc["fault"], at_class)
                if "_crash" in r:
                    run_.diverge(tag + " process-crash", "the client process died: %s" % r["_crash"][:1200], rp)
                    continue
                if r.get("broken"):
                    raise common.Broken("scenario %s: %s" % (r["id"], r["broken"]))
                ev = client_events(sc, r)
                items.append((r["id"], ev))
                rps[r["id"]] = (rp, tag, r)
                run_.nontriv([sc["client"], sc["fault"], sc["at"], sc["ncalls"], sc["ctx"]])
                if len(run_.samples) < 3 and sc["ncalls"] > 1:
                    run_.sample({"scenario": sc, "log": ev})
    rej = tracebatch.validate(run_, "TraceCallEnds", "TraceCallEnds.cfg", items, max_rejections=40)
    for tid, (pos, line) in rej.items():
        rp, tag, r = rps[tid]
        if line["e"] == "ret":
            what = "call-late" if line.get("late") else "call=%s" % line["out"]
        elif line["e"] == "after":
            what = "later-call-fails"
        elif line["e"] == "close":
            what = "left-after-close=" + "+".join(line.get("left", []))
        else:
            what = line["e"]
        run_.diverge("%s %s" % (tag, what), "scenario %s: %s; calls %s; fault at %.0f ms; after Close: lib goroutines %+d, http goroutines %+d, fds %+d, child left %s, pending %d, close %.0f ms %s %s"
                     % (tid, what, [(c["ok"], c["own"], round(c["end_ms"]), c.get("err", "")[:80]) for c in r["calls"]], r["fault_ms"], r["lib_goroutines"],
                        r["http_goroutines"], r["fds"], r["child_left"], r["pending"], r["close_ms"], r.get("close_err", ""), r.get("sample", "")[:600]), rp)

    # ---- servers ----
    states = sorted({st["state"] for st in (pg.graph.nodes[i] for i in pg.graph.init)})
    sscen = []
    for server in ("streamable", "streamable-sse", "legacy"):
        for state in states:
            if state == "in-listroots-late" and server == "legacy":
                continue      # the registration / write window is gated by a hook of the Streamable server only
            for how in ("close", "reset"):
                for n in ((1, 2, 3) if tier == "thorough" else (rnd.choice((1, 2, 3)),)):
                    sscen.append({"id": "%s-%s-%s-p%d" % (server, state, how, n), "server": server, "state": state, "how": how, "npeers": n})
    rnd.shuffle(sscen)
    schunks = [sscen[i::6] for i in range(6)]

    def sone(ch):
        if not ch:
            return []
        out = common.run_harness_json(["c08srv"], {"scenarios": ch}, timeout=900, crash_ok=True)
        if "_crash" not in out:
            return out["results"]
        res = []
        for s in ch:
            o = common.run_harness_json(["c08srv"], {"scenarios": [s]}, timeout=120, crash_ok=True)
            res.append({"id": s["id"], "_crash": o["_crash"]} if "_crash" in o else o["results"][0])
        return res

    sby = {s["id"]: s for s in sscen}
    sitems, srps = [], {}
    with ThreadPoolExecutor(max_workers=6) as ex:
        for res in ex.map(sone, schunks):
            for r in res:
                sc = sby[r["id"]]
                run_.evaluations += 1
                rp = {"cmd": ["c08srv"], "input": {"scenarios": [sc]}, "observed": r, "spec": "PeerGone"}
                tag = "server=%s state=%s" % (sc["server"], sc["state"])
                if "_crash" in r:
                    run_.diverge(tag + " process-crash", "the server process died: %s" % r["_crash"][:1200], rp)
                    continue
                if r.get("broken") or not r["reached"]:
                    raise common.Broken("server scenario %s: %s" % (r["id"], r.get("broken") or "state not reached"))
                left = [k for k in ("streams", "pending", "handlers", "lib_goroutines") if r[k] > 0]
                ev = [{"e": "cfg", "state": sc["state"], "n": sc["npeers"]}]
                ev += [{"e": "vanish", "p": p + 1} for p in range(sc["npeers"])]
                ev.append({"e": "settled", "nleft": len(left), "left": left, "late": bool(r["release_ms"] > RELEASE_MS)})
                sitems.append((r["id"], ev))
                srps[r["id"]] = (rp, tag, r)
                run_.nontriv(["server", sc["server"], sc["state"], sc["how"], sc["npeers"]])
                if sc["state"] == "in-listroots" and len(run_.samples) < 4:
                    run_.sample({"scenario": sc, "log": ev, "release_ms": round(r["release_ms"], 1)})
    rej = tracebatch.validate(run_, "TracePeerGone", "TracePeerGone.cfg", sitems, max_rejections=20)
    for tid, (pos, line) in rej.items():
        rp, tag, r = srps[tid]
        what = "not-released=" + "+".join(line.get("left", [])) if line["e"] == "settled" else line["e"]
        run_.diverge("%s %s" % (tag, what), "scenario %s: %.0f ms after the peer vanished the server still holds streams %d, pending %d, handlers %d, lib goroutines %+d %s"
                     % (tid, r["release_ms"], r["streams"], r["pending"], r["handlers"], r["lib_goroutines"], r.get("sample", "")[:600]), rp)
    # scratch directories of scenarios whose process died half-way
    import glob, os, shutil, time
    for d in glob.glob("/tmp/c08[0-9]*"):
        try:
            if time.time() - os.path.getmtime(d) > 300:
                shutil.rmtree(d, ignore_errors=True)
        except OSError:
            pass
    run_.exhaustive = tier == "thorough"
    run_.rule = ("client scenarios = every (fault kind, boundary) initial state of CallEnds applicable to a client configuration x 1..3 pending calls "
                 "x context kinds (thorough: the full product; quick: one draw per pair), plus request-side boundaries and sampled byte offsets; "
                 "server scenarios = every state of PeerGone x 3 server kinds x {close, reset} x 1..3 peers; every scenario injects a fault")
    run_.assumptions = ["promptly = within %d ms of the fault or of the end of the context; server-side release within %d ms" % (PROMPT_MS, RELEASE_MS),
                        "a call whose complete answer had arrived before the fault may return it or an error",
                        "idle pooled connections of net/http's default transport are not counted as held by the client",
                        "a stdio child that closes its stdout but stays alive is outside the statement (exit / kill / silence are covered)"]
    return run_.finish()
