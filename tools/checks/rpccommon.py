"""Shared by C03 / C06 / C14: concretisation of Core's request classes, tagged-tree encoding for the
TLA+ grammar, running the raw probe against every server kind."""
import json
from concurrent.futures import ThreadPoolExecutor
from decimal import Decimal

from vlib import common, tla

KINDS = ["json", "sse", "stateless", "nosession", "legacy", "stdio"]
KEY = {"initialize": "protocolVersion", "tools/call": "name", "prompts/get": "name", "resources/read": "uri",
       "resources/subscribe": "uri", "resources/unsubscribe": "uri", "completion/complete": "ref"}
OKPARAMS = {
    "initialize": {"protocolVersion": "2025-03-26", "clientInfo": {"name": "p", "version": "0"}, "capabilities": {}},
    "tools/call": {"name": "echo", "arguments": {"nonce": "n1"}},
    "prompts/get": {"name": "p-ok", "arguments": {"a": "v"}},
    "resources/read": {"uri": "r://ok"},
    "resources/subscribe": {"uri": "r://ok"},
    "resources/unsubscribe": {"uri": "r://ok"},
    "completion/complete": {"ref": {"type": "ref/prompt", "name": "p-ok"}, "argument": {"name": "a", "value": "v"}},
    "logging/setLevel": {"level": "info"},
}
HANDLER = {
    ("tools/call", "h:error"): ("t-err", "boom-"), ("tools/call", "h:ctxError"): ("t-ctxerr", "boom-"), ("tools/call", "h:isError"): ("t-iserr", ""), ("tools/call", "h:nil"): ("t-nil", ""),
    ("tools/call", "h:noContent"): ("t-nocontent", ""), ("tools/call", "h:unencodable"): ("t-nan", ""),
    ("prompts/get", "h:error"): ("p-err", "boom-prompt"), ("prompts/get", "h:nil"): ("p-nil", ""),
    ("resources/read", "h:error"): ("r://err", "boom-resource"), ("resources/read", "h:nil"): ("r://nil", ""),
    ("resources/read", "h:multi"): ("r://multi", ""), ("resources/read", "h:nilItem"): ("r://multi-nil", ""),
}


class Dup(list):
    """JSON object as a list of pairs (keeps duplicates and order)."""


def loads_pairs(s):
    return json.loads(s, object_pairs_hook=Dup, parse_float=Decimal, parse_int=Decimal)


def tag(v):
    if isinstance(v, Dup):
        keys = [k for k, _ in v]
        return {"k": "obj", "f": keys, "v": {k: tag(x) for k, x in v}}
    if isinstance(v, list):
        return {"k": "arr", "v": [tag(x) for x in v]}
    if isinstance(v, str):
        return {"k": "str", "v": v}
    if isinstance(v, bool):
        return {"k": "bool", "v": v}
    if v is None:
        return {"k": "null"}
    if isinstance(v, Decimal):
        isint = v == v.to_integral_value()
        txt = str(int(v)) if isint else format(v.normalize(), "f")
        return {"k": "num", "v": txt, "int": bool(isint)}
    if isinstance(v, int):
        return {"k": "num", "v": str(v), "int": True}
    if isinstance(v, float):
        return {"k": "num", "v": repr(v), "int": False}
    raise ValueError(type(v))


def tag_frame(s):
    """tagged tree of a frame, or a marker tree when it is not JSON at all"""
    try:
        return tag(loads_pairs(s))
    except Exception:
        return {"k": "str", "v": "NOT-JSON"}


def body_for(m, pc, idv):
    """concrete request bytes for class (m, pc); returns (body, errmsg_expected, iserror_expected)"""
    msg = {"jsonrpc": "2.0", "id": idv, "method": m if m != "unknown/method" else "verif/unknown"}
    errmsg, iserr = "", False
    base = OKPARAMS.get(m)
    if pc == "ok":
        if base is not None:
            msg["params"] = json.loads(json.dumps(base))
    elif pc == "absent":
        pass
    elif pc == "null":
        msg["params"] = None
    elif pc == "array":
        msg["params"] = [1, 2]
    elif pc == "string":
        msg["params"] = "x"
    elif pc == "number":
        msg["params"] = 7
    else:
        p = json.loads(json.dumps(base)) if base else {}
        k = KEY.get(m)
        if pc == "keyMissing":
            p.pop(k, None)
        elif pc == "keyNumber":
            p[k] = 5
        elif pc == "keyNull":
            p[k] = None
        elif pc == "keyObject":
            p[k] = {}
        elif pc == "keyEmpty":
            p[k] = ""
        elif pc == "unknownEntry":
            p[k] = "r://no-such" if k == "uri" else ({"type": "ref/prompt", "name": "no-such-entry"} if k == "ref" else "no-such-entry")
        elif pc in ("cursorNumber", "cursorNull", "cursorObject", "cursorUnknown"):
            p["cursor"] = {"cursorNumber": 7, "cursorNull": None, "cursorObject": {"a": 1}, "cursorUnknown": "bm8tc3VjaC1jdXJzb3I="}[pc]
        elif pc == "argsArray":
            p["arguments"] = [1]
        elif pc == "argsString":
            p["arguments"] = "x"
        elif pc == "argsNull":
            p["arguments"] = None
        elif pc == "argsMissing":
            p.pop("arguments", None)
        elif pc.startswith("h:"):
            name, errmsg = HANDLER[(m, pc)]
            p[k] = name
            if m == "tools/call":
                p["arguments"] = {"nonce": "hx"}
                if errmsg:
                    errmsg = errmsg + "hx"
            iserr = pc == "h:isError"
        msg["params"] = p
    return json.dumps(msg), errmsg, iserr


def run_probe(kind, items, regset="rich", settle_ms=80, timeout=900):
    return common.run_harness_json(["rpcprobe"], {"kind": kind, "set": regset, "settle_ms": settle_ms, "items": items}, timeout=timeout, crash_ok=True)


def run_probes(jobs, workers=12):
    """jobs: list of (kind, items, regset) -> list of outputs in the same order"""
    with ThreadPoolExecutor(max_workers=workers) as ex:
        return list(ex.map(lambda j: run_probe(j[0], j[1], j[2] if len(j) > 2 else "rich"), jobs))


def event_for(kind, method, expect, reqid, isreq, obs, errmsg="", iserror=False):
    http = kind not in ("stdio",)
    frames = [tag_frame(f) for f in obs["frames"]]
    return {"e": "x", "method": method, "expect": sorted(expect), "isreq": bool(isreq), "http": bool(http),
            "reqid": tag(reqid) if reqid != "__none__" else {"k": "none"}, "status": int(obs["status"]),
            "frames": frames, "rawbody": bool(obs.get("raw_body")) or bool(obs.get("err")), "errmsg": errmsg, "iserror": bool(iserror)}


def summarise(obs):
    """short description of what came back"""
    fr = obs["frames"]
    if not fr:
        return "status=%s no-frame%s" % (obs["status"], " body=%r" % obs["raw_body"][:60] if obs.get("raw_body") else (" err=%s" % obs["err"][:80] if obs.get("err") else ""))
    try:
        m = json.loads(fr[-1])
        if isinstance(m, dict) and "error" in m and isinstance(m["error"], dict):
            return "status=%s rpc:%s" % (obs["status"], m["error"].get("code"))
        if isinstance(m, dict) and "result" in m:
            return "status=%s result=%s" % (obs["status"], json.dumps(m["result"])[:80])
    except ValueError:
        pass
    return "status=%s frame=%s" % (obs["status"], fr[-1][:80])
