"""C02 - what a handler returns is what the caller receives (wire fidelity).

1. TLC: Wire.tla is the enumerator of the value algebra (tool results: item kinds x string classes x error flag x
   structured-content classes, ordered pairs of kinds, empty content; prompt results: roles x items x description
   classes; resource contents text / blob x classes x mime; handler errors x message classes; tool / prompt /
   resource descriptors) and states the channel as the identity (got = sent).
2. Binding A: every abstract value (quick: all single items of every kind x class plus a seeded sample; thorough:
   all of them) is concretised into a Go value (several representatives per string class, chosen by the seed),
   returned by a real registered handler and fetched by the real client over Streamable HTTP (JSON answers, SSE
   answers, stateless), legacy SSE and stdio (a real child process running the library's stdio server).  What
   the handler returned and what the client obtained are projected onto trees of kinds, string digests (SHA-256
   + length), mime types and flags by code that reads the public struct fields directly.
3. Binding B: the (value, sent, got) records are validated by TLC against TraceWire: the value must be a member
   of Values and got = sent."""
import json
import random
from concurrent.futures import ThreadPoolExecutor

from vlib import common, tla, tracebatch

PROP = "C02"
MODES = ["json", "sse", "stateless", "legacy", "stdio"]


def run(tier, replay=None):
    run_ = common.Run(PROP, "exploration", tier)
    rnd = random.Random(common.seed())
    if replay:
        doc = json.load(open(replay))
        print(json.dumps(common.run_harness_json(doc["replay"]["cmd"], doc["replay"]["input"], crash_ok=True), indent=1)[:6000])
        return 0
    tla.sany("Wire"); tla.sany("TraceWire")
    g = tla.run_tlc("Wire", "Wire.cfg", dump=True)
    if not g.ok:
        raise common.Broken("Wire violates %s" % g.violation)
    values = [g.graph.nodes[i]["v"] for i in g.graph.init]
    values.sort(key=lambda v: json.dumps(v, sort_keys=True))
    if tier == "quick":
        must = [v for v in values if v["k2"] == "-" and v["extra"] in ("absent", "-", "none") and not v["flag"]]
        rest = [v for v in values if v not in must]
        values = must + rnd.sample(rest, min(len(rest), 260))
        # the 2 MiB class is expensive: keep a third of its values in the quick tier
        big = [v for v in values if "big" in (v["s1"], v["s2"])]
        drop = set(id(v) for v in rnd.sample(big, len(big) * 2 // 3))
        values = [v for v in values if id(v) not in drop]
    seed = common.seed()
    jobs = []
    nparts = 3
    for mode in MODES:
        for k in range(nparts):
            part = values[k::nparts]
            jobs.append((mode, part))

    def one(job):
        mode, part = job
        inp = {"mode": mode, "seed": seed, "values": part}
        out = common.run_harness_json(["c02"], inp, timeout=1500, crash_ok=True)
        return job, inp, out

    items, info = [], {}
    with ThreadPoolExecutor(max_workers=12) as ex:
        for (mode, part), inp, out in ex.map(one, jobs):
            if "_crash" in out:
                run_.diverge("mode=%s process-crash" % mode, "the process crashed: %s" % out["_crash"][:1500], {"cmd": ["c02"], "input": dict(inp, values=inp["values"][:3])})
                continue
            if out.get("broken"):
                raise common.Broken("c02 %s: %s" % (mode, out["broken"]))
            for o in out["outs"]:
                v = part[o["i"]]
                run_.evaluations += 1
                tid = "%s|%d|%s" % (mode, o["i"], json.dumps(v, sort_keys=True))
                items.append((tid, [{"e": "x", "v": v, "sent": o["sent"], "got": o["got"]}]))
                info[tid] = (mode, v, o, part)
                run_.nontriv([mode, json.dumps(v, sort_keys=True)])
                if len(run_.samples) < 3 and v["fam"] == "tool" and v["k2"] != "-":
                    run_.sample({"mode": mode, "value": v, "sent": o["sent"], "got": o["got"]})
    rej = tracebatch.validate(run_, "TraceWire", "TraceWire.cfg", items, max_lines=4000, max_rejections=60)
    for tid, (pos, line) in rej.items():
        mode, v, o, part = info[tid]
        kinds = "+".join(k for k in (v["k1"], v["k2"]) if k != "-") or "none"
        classes = "+".join(sorted({s for s in (v["s1"], v["s2"]) if s != "-"})) or "none"
        got = o["got"]
        how = "error" if isinstance(got, dict) and ("err" in got or "noerror" in got) and v["fam"] in ("tool", "prompt", "resource", "tooldesc", "promptdesc", "resdesc") else "differs"
        key = "fam=%s kind=%s class=%s %s" % (v["fam"], kinds, classes, how)
        if v["fam"] in ("tool",) and v["extra"] not in ("absent",) and how == "differs":
            key += " structured=%s" % v["extra"]
        run_.diverge(key, "mode %s, value %s: the handler returned %s, the client obtained %s" % (mode, v, json.dumps(o["sent"])[:400], json.dumps(got)[:500]),
                     {"cmd": ["c02"], "input": {"mode": mode, "seed": seed, "values": [v]}, "note": "replay runs the single value at index 0 (string representatives depend on seed + index)",
                      "sent": o["sent"], "got": got})
    run_.states, run_.transitions = run_.states + g.distinct, run_.transitions + g.generated
    run_.extra["tlc_states"] = run_.states
    run_.extra["traces_validated_against_impl"] = run_.traces
    run_.exhaustive = tier == "thorough"
    run_.rule = ("values = members of Wire.tla's Values (%d in all; quick: every single item kind x string class plus a seeded sample) x 5 transport / mode "
                 "combinations; every value is non-trivial (a distinct abstract value); distinct = distinct (mode, value)" % len(g.graph.init))
    run_.assumptions = ["strings are compared through SHA-256 digests and lengths of the Go strings on both sides",
                        "string classes are sampled by representatives (4 per class, chosen by seed + index), not exhausted",
                        "a failing tool handler may reach the caller as an error or as an isError result, as long as the handler's message is in it",
                        "descriptors are compared as JSON documents (the schema the client keeps as raw JSON)"]
    return run_.finish()
