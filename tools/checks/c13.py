"""C13 - request-scoped context never bleeds between concurrent requests.

1. TLC: ReqContext with per-request contexts satisfies NoBleed for 4 concurrent requests; with one
   server-wide slot TLC finds the bleed (self-test).
2. Binding A: every interleaving of the stage steps (context functions -> middleware -> list filter or
   handler) of 2 concurrent requests - and a seeded sample for 3 - is forced on real Streamable
   (stateful, stateless) and legacy SSE servers through gates inside instrumented context functions,
   middleware, filters and handlers; each stage reports the token, the context-function order, the
   session, the server handle and the notification sender it sees; list answers are compared with
   what the filter admits for that caller.
3. Binding B: the stage logs are validated by TLC against TraceContext."""
import json
import random
from concurrent.futures import ThreadPoolExecutor

from vlib import common, tla, tracebatch

PROP = "C13"


def all_paths(g):
    out = set()
    stack = [(g.init[0], ())]
    while stack:
        n, p = stack.pop()
        outs = g.out.get(n, [])
        if not outs:
            out.add(p)
            continue
        for i in outs:
            stack.append((g.edges[i][1], p + (g.edges[i][3][0],)))
    return sorted(out)


def token(r, variant=0):
    """r2 is an administrator, the others are users - except that in the even variants r1 presents no credential at all (its
    requests carry no token header)"""
    if r == "r1" and variant % 2 == 0:
        return ""
    return ("admin-" if r == "r2" else "user-") + r


def run(tier, replay=None):
    run_ = common.Run(PROP, "model_checking", tier)
    rnd = random.Random(common.seed())
    if replay:
        doc = json.load(open(replay))
        print(json.dumps(common.run_harness_json(doc["replay"]["cmd"], doc["replay"]["input"]), indent=1)[:6000])
        return 0
    tla.sany("ReqContext")
    tla.sany("TraceContext")
    for c in ("ReqContext_3.cfg", "ReqContext_4.cfg"):
        r = tla.run_tlc("ReqContext", c)
        if not r.ok:
            raise common.Broken("%s violates %s" % (c, r.violation))
        run_.add_tlc(r)
    b = tla.run_tlc("ReqContext", "ReqContext_bug.cfg")
    if b.ok or b.violation != "NoBleed":
        raise common.Broken("self-test: the shared-slot design should violate NoBleed")
    run_.add_tlc(b)
    g2 = tla.run_tlc("ReqContext", "ReqContext_sched_2.cfg", dump=True, parse_states=False)
    g3 = tla.run_tlc("ReqContext", "ReqContext_sched_3.cfg", dump=True, parse_states=False)
    run_.add_tlc(g2)
    run_.add_tlc(g3)
    p2 = all_paths(g2.graph)
    p3 = all_paths(g3.graph)
    rnd.shuffle(p3)
    p3 = p3[:30 if tier == "quick" else 600]
    if tier == "quick":
        rnd.shuffle(p2)
    jobs = []
    for transport in ("streamable", "stateless", "legacy"):
        for kind in ("list", "call"):
            for nreq, paths in ((2, p2), (3, p3)):
                if tier == "quick":
                    paths = paths[:36] if nreq == 2 else paths[:12]
                scheds = [{"id": "%s-%s-%d-%d" % (transport[:4], kind, nreq, i), "steps": list(p)} for i, p in enumerate(paths)]
                for k in range(6):
                    part = scheds[k::6]
                    if part:
                        jobs.append({"transport": transport, "kind": kind, "nreq": nreq, "variant": k, "schedules": part})

    def one(job):
        return job, common.run_harness_json(["c13"], job, timeout=900, crash_ok=True)

    items, rps = [], {}
    blocked = 0
    with ThreadPoolExecutor(max_workers=12) as ex:
        for job, out in ex.map(one, jobs):
            if "_crash" in out:
                run_.diverge("process-crash", "process crashed: %s" % out["_crash"][:1500], {"cmd": ["c13"], "input": job})
                continue
            for res in out["results"]:
                if res.get("broken"):
                    raise common.Broken("schedule %s: %s" % (res["id"], res["broken"]))
                if res.get("later_handshake"):
                    run_.evaluations += 1
                    sched0 = [s for s in job["schedules"] if s["id"] == res["id"]][0]
                    run_.diverge("transport=%s later-session-cannot-shake-hands" % job.get("transport", "?"), res["later_handshake"],
                                 {"cmd": ["c13"], "input": dict(job, schedules=[sched0]), "observed": res, "spec": "ReqContext"})
                    continue
                run_.evaluations += 1
                blocked += res["blocked"]
                sched = [s for s in job["schedules"] if s["id"] == res["id"]][0]
                rp = {"cmd": ["c13"], "input": dict(job, schedules=[sched]), "observed": res, "spec": "ReqContext"}
                rps[res["id"]] = rp
                tag = "transport=%s kind=%s" % (job["transport"], job["kind"])
                ev = [{"e": "cfg", "n": job["nreq"]}]
                seenmap = {(s["req"], s["stage"]): s for s in res["seen"]}
                for key in res["realised"] or []:
                    r, stg = key.split("/")
                    if stg == "body":
                        ev.append({"e": "stage", "r": r, "stage": "body", "token": r})
                    elif (r, stg) in seenmap:
                        t = seenmap[(r, stg)]["token"]
                        ev.append({"e": "stage", "r": r, "stage": stg, "token": r if t == token(r, job["variant"]) else "foreign:" + t})
                for s in res["seen"]:
                    r = s["req"]
                    where = "%s stage=%s" % (tag, s["stage"])
                    if s["token"] != token(r, job["variant"]):
                        run_.diverge(where + " foreign-token", "stage %s of request %s saw token %r (its own is %r); schedule %s"
                                     % (s["stage"], r, s["token"], token(r, job["variant"]), sched["steps"]), rp)
                    if s["order"] != [1, 2, 3]:
                        run_.diverge(where + " context-function-order", "stage %s of %s saw context functions applied as %s" % (s["stage"], r, s["order"]), rp)
                    if s["stage"] != "cf" and job["transport"] != "stateless" and s["session"] != "own":
                        run_.diverge(where + " foreign-session", "stage %s of %s saw session %s" % (s["stage"], r, s["session"]), rp)
                    if s["server"] == "foreign":
                        run_.diverge(where + " foreign-server", "stage %s of %s saw another server handle" % (s["stage"], r), rp)
                    if s["stage"] == "fh" and job["kind"] == "call" and r in ("r1",) and s["server"] != "own":
                        run_.diverge(where + " server-handle-missing", "the tool handler of %s has no server handle in its context" % r, rp)
                    if s["stage"] not in ("cf", "nh") and job["transport"] != "legacy" and not s["sender"]:
                        run_.diverge(where + " sender-missing", "stage %s of %s has no notification sender" % (s["stage"], r), rp)
                # temporary sessions of stateless requests are private to their request
                if job["transport"] == "stateless":
                    ids = {}
                    for s in res["seen"]:
                        if s.get("sess_id"):
                            ids.setdefault(s["sess_id"], set()).add(s["req"])
                    for sid_, rs_ in ids.items():
                        if len(rs_) > 1:
                            run_.diverge(tag + " shared-temporary-session", "requests %s of different clients were given the same session %s" % (sorted(rs_), sid_), rp)
                for s in res["seen"]:
                    if s.get("scratch") and s["scratch"] != s["req"]:
                        run_.diverge(tag + " session-data-bleed stage=%s" % s["stage"], "stage %s of %s found session data written by request %s" % (s["stage"], s["req"], s["scratch"]), rp)
                stages_seen = {(s["req"], s["stage"]) for s in res["seen"]}
                for i in range(1, job["nreq"] + 1):
                    for stg in ("cf", "mw", "fh"):
                        if ("r%d" % i, stg) not in stages_seen:
                            run_.diverge(tag + " stage-skipped=%s" % stg, "request r%d never passed stage %s" % (i, stg), rp)
                if job["kind"] == "list":
                    names = {1: (["echo"], ["echo", "secret-tool"]), 2: (["p"], ["p", "secret-prompt"]), 0: (["x"], ["secret-res", "x"])}
                    for i in range(1, job["nreq"] + 1):
                        r = "r%d" % i
                        plain, full = names[job["variant"] % 3]
                        want = full if token(r, job["variant"]).startswith("admin") else ([] if token(r, job["variant"]) == "" else plain)
                        got = res["listed"].get(r)
                        if got != want:
                            what = "hidden-entry-leaked" if got and any(x.startswith("secret") for x in got) and want == plain else "list-wrong"
                            run_.diverge(tag + " " + what, "%s (token %s) was answered %s, the filter admits %s; schedule %s" % (r, token(r, job["variant"]), got, want, sched["steps"]), rp)
                items.append((res["id"], ev))
                st = sched["steps"]
                if any(st[i] != st[i + 1] and st[i] in st[i + 1:] for i in range(len(st) - 1)):
                    run_.nontriv([job["transport"], job["kind"], st])
                if len(run_.samples) < 2:
                    run_.sample({"transport": job["transport"], "kind": job["kind"], "schedule": st, "seen": res["seen"][:6]})
    had = bool(run_.violations) or bool(run_.known_hit)
    rej = {}
    rej.update(tracebatch.validate(run_, "TraceContext", "TraceContext_body.cfg", [it for it in items if it[0].startswith("lega")]))
    # whether a Streamable server runs the context functions before or after it has read the body is not part of the statement:
    # a log the one order rejects is tried in the other
    rej_cf = tracebatch.validate(run_, "TraceContext", "TraceContext_cf.cfg", [it for it in items if not it[0].startswith("lega")])
    if rej_cf:
        try:
            rej.update(tracebatch.validate(run_, "TraceContext", "TraceContext_body.cfg", [it for it in items if it[0] in rej_cf]))
        except (common.Broken, tla.TLCError):
            rej.update(rej_cf)     # the other order cannot even be evaluated on these logs: the first rejection stands
    for tid, (pos, line) in rej.items():
        if not had:
            raise common.Broken("TLC rejects stage log %s at %s although the comparison accepted it" % (tid, line))
        run_.diverge("trace-rejected", "TLC rejects the stage log of %s at %d %s" % (tid, pos, json.dumps(line)), rps[tid])
    run_.exhaustive = tier == "thorough"
    run_.extra["blocked_steps"] = blocked
    run_.rule = ("schedules = interleavings of the 4 steps (context functions, rest of the body arrives, middleware, filter/handler) of 2 concurrent requests (all 70 in the thorough tier) and a seeded sample for 3, from "
                 "TLC's graph of ReqContext, x {Streamable stateful, stateless, legacy SSE} x {list, call}; non-trivial = schedules that "
                 "really interleave two requests")
    run_.assumptions = ["a stage that the code makes unreachable in the scheduled order is skipped (counted in blocked_steps)",
                        "server handle: must never be another server's and must be present in tool handlers; absence elsewhere is not flagged",
                        "the notification sender is required on Streamable HTTP only (legacy SSE has none)"]
    return run_.finish()
