"""C01 - every call gets exactly one answer, and it is its own.

1. TLC: Correlation.tla (issue / handler / bounded outgoing queue / writer / client dispatch through the
   pending table / return): OwnAnswer, HandlerOnce, PendingExact, NothingLost and the liveness property
   EveryCallReturns; the id-format defect and the queue-drop defect each yield a counterexample.
2. Binding B: library clients (several clients x several goroutines, tools/call + resources/read +
   prompts/get with a nonce, handler delays shuffling the completion order, payloads across the 64 KiB mark)
   on Streamable JSON / SSE / stateless / sessions-disabled, legacy SSE and stdio (real child process running
   the library's stdio server); the call / handler / return log is validated by TLC (TraceCorrelation).
   Clients are also positioned at request counters 10^6-1, 2^31-1 and 2^53-3.
3. Binding A: an id-class table (integers up to 2^53, strings incl. empty, numeric-looking, Unicode, long) is
   replayed by raw peers against all six server modes and the echoed id compared as a JSON value; a legacy SSE
   stream reader is stalled while > 100 large answers are produced (queue bound)."""
import json
import random
from concurrent.futures import ThreadPoolExecutor
from decimal import Decimal

from vlib import common, tla, tracebatch

PROP = "C01"
MODES = ["json", "sse", "stateless", "nosession", "legacy", "stdio"]
IDS = [0, 1, 7, 999999, 1000000, 1000001, 2147483647, 2147483648, 4294967296, 9007199254740991, 9007199254740992,
       "", "a", "1", "1000000", "0", "null", "id with spaces", "é-ü-😀", "quote\"back\\slash", "x" * 1000, "line\nbreak"]


def to_trace(tr):
    """call numbers -> 1..n; nonce of call k is 'n<k>'"""
    num = {}
    out = []
    for e in tr:
        if e["e"] == "call":
            num[e["c"]] = len(num) + 1
    bynonce = {"n%d" % k: v for k, v in num.items()}
    for e in tr:
        if e["e"] == "call":
            out.append({"e": "call", "c": num[e["c"]]})
        elif e["e"] == "handler":
            out.append({"e": "handler", "c": bynonce.get(e["nonce"], 0)})
        elif e["e"] == "ret":
            out.append({"e": "ret", "c": num[e["c"]], "got": bynonce.get(e.get("got"), 0)})
        else:
            out.append({"e": "end"})
    return out, len(num)


def judge_load(run, job, res):
    """python-side reading of the same log (the TLC verdict must agree)."""
    rp = {"cmd": ["c01"], "input": {"loads": [job]}, "spec": "Correlation / TraceCorrelation"}
    tag = "mode=%s" % job["mode"]
    if job.get("start_id"):
        tag += " start-id=%d" % job["start_id"]
    calls, runs, rets = {}, {}, {}
    for e in res["trace"]:
        if e["e"] == "call":
            calls[e["c"]] = e["nonce"]
        elif e["e"] == "handler":
            runs[e["nonce"]] = runs.get(e["nonce"], 0) + 1
        elif e["e"] == "ret":
            rets.setdefault(e["c"], []).append(e)
    bad = False
    for c, nonce in calls.items():
        r = rets.get(c, [])
        if len(r) != 1:
            run.diverge(tag + " outcomes=%d" % len(r), "call %s has %d outcomes" % (c, len(r)), rp); bad = True
            continue
        got = r[0]["got"]
        if got == "error":
            run.diverge(tag + " call-failed", "call %s (nonce %s) failed while its connection was up: %s" % (c, nonce, r[0].get("err", "")[:200]), rp); bad = True
        elif got != nonce:
            kind = "garbled" if str(got).startswith("garbled") else "foreign-answer"
            run.diverge(tag + " " + kind, "call %s (nonce %s) returned the answer %r" % (c, nonce, got), rp); bad = True
        if runs.get(nonce, 0) != 1:
            run.diverge(tag + " handler-runs=%d" % runs.get(nonce, 0), "the handler ran %d times for call %s" % (runs.get(nonce, 0), c), rp); bad = True
    if res.get("pending_end"):
        run.diverge(tag + " pending-left", "%d pending entries remain after all calls returned" % res["pending_end"], rp); bad = True
    return bad, rp


def same_json_value(a, b):
    if type(a) != type(b) and not (isinstance(a, (int, float)) and isinstance(b, (int, float))):
        return False
    if isinstance(a, bool) or isinstance(b, bool):
        return a is b
    if isinstance(a, (int, float)):
        return Decimal(str(a)) == Decimal(str(b))
    return a == b


def run(tier, replay=None):
    run_ = common.Run(PROP, "model_checking", tier)
    rnd = random.Random(common.seed())
    if replay:
        doc = json.load(open(replay))
        print(json.dumps(common.run_harness_json(doc["replay"]["cmd"], doc["replay"]["input"], crash_ok=True), indent=1)[:6000])
        return 0
    tla.sany("Correlation")
    tla.sany("TraceCorrelation")
    for c in ("Correlation_3.cfg",) + (("Correlation_4.cfg",) if tier == "thorough" else ()):
        r = tla.run_tlc("Correlation", c)
        if not r.ok:
            raise common.Broken("%s violates %s" % (c, r.violation))
        run_.add_tlc(r)
    for c in ("Correlation_bug_idformat.cfg", "Correlation_bug_queuedrop.cfg"):
        b = tla.run_tlc("Correlation", c)
        if b.ok or b.violation != "NothingLost":
            raise common.Broken("self-test %s should violate NothingLost" % c)
        run_.add_tlc(b)
    big = tier == "thorough"
    jobs = []
    n = 0
    for mode in MODES:
        for rep in range(1 if not big else 4):
            n += 1
            jobs.append({"loads": [{"id": "L%d" % n, "mode": mode, "clients": 2 if not big else 4, "workers": 3 if not big else 6, "calls": 5 if not big else 8,
                                    "seed": common.seed() * 1000 + n, "max_delay": 6}]})
        for start in (999999, 2147483647, 9007199254740989):
            if mode in ("nosession",):
                continue
            n += 1
            jobs.append({"loads": [{"id": "B%d" % n, "mode": mode, "clients": 1, "workers": 2, "calls": 2, "seed": n, "max_delay": 2, "start_id": start}]})
        jobs.append({"ids": [{"mode": mode, "ids": IDS}]})
    jobs.append({"slow": {"calls": 180, "pad": 262144}})

    def one(job):
        return job, common.run_harness_json(["c01"], job, timeout=900, crash_ok=True)

    items, rps = [], {}
    with ThreadPoolExecutor(max_workers=10) as ex:
        for job, out in ex.map(one, jobs):
            if "_crash" in out:
                run_.diverge("process-crash", "process crashed: %s" % out["_crash"][:1500], {"cmd": ["c01"], "input": job})
                continue
            if out.get("broken"):
                raise common.Broken("c01: %s" % out["broken"])
            for res in out.get("loads") or []:
                if res.get("broken"):
                    raise common.Broken("load %s: %s" % (res["id"], res["broken"]))
                run_.evaluations += 1
                if res.get("init_failed"):
                    run_.diverge("mode=%s initialize-failed" % job["loads"][0]["mode"], "a client's handshake request got no usable answer while its connection was up: %s"
                                 % res["init_failed"][:300], {"cmd": ["c01"], "input": job, "spec": "Correlation (EveryCallReturns)"})
                    continue
                bad, rp = judge_load(run_, job["loads"][0], res)
                tr, ncalls = to_trace(res["trace"])
                items.append((res["id"], tr))
                rps[res["id"]] = rp
                run_.nontriv([res["id"], ncalls])
                if len(run_.samples) < 2:
                    run_.sample({"mode": res["mode"], "log_prefix": res["trace"][:12]})
            for o in out.get("ids") or []:
                run_.evaluations += 1
                rp = {"cmd": ["c01"], "input": {"ids": [{"mode": o["mode"], "ids": [o["sent"]]}]}, "observed": o}
                cls = "string" if isinstance(o["sent"], str) else ("int>=1e6" if o["sent"] >= 1000000 else "int")
                if o.get("note") or o.get("got") is None and o["sent"] is not None:
                    run_.diverge("mode=%s id-class=%s no-answer" % (o["mode"], cls), "request with id %r: %s" % (o["sent"], o.get("note")), rp)
                elif o.get("frames", 1) != 1:
                    run_.diverge("mode=%s answer-frames=%d" % (o["mode"], o["frames"]), "the request with id %r was answered with %d frames on the wire" % (o["sent"], o["frames"]), rp)
                elif not same_json_value(o["sent"], o["got"]):
                    run_.diverge("mode=%s id-class=%s id-not-echoed" % (o["mode"], cls), "request id %r was answered with id %r" % (o["sent"], o["got"]), rp)
                run_.nontriv(["id", o["mode"], json.dumps(o["sent"])])
            if out.get("slow"):
                s = out["slow"]
                run_.evaluations += 1
                if s.get("broken"):
                    raise common.Broken("slow reader: %s" % s["broken"])
                rp = {"cmd": ["c01"], "input": job, "observed": s}
                if s["answered"] != s["accepted"] or s["dups"]:
                    run_.diverge("mode=legacy slow-reader answers-dropped", "%d requests were accepted (202) while the stream reader stalled, %d answers arrived, %d twice"
                                 % (s["accepted"], s["answered"], s["dups"]), rp)
                run_.nontriv(["slow", s["sent"]])
    # exactly one answer also when the outcome is an error: every frame carrying the request's id is counted on the wire
    from checks import rpccommon as rc
    errs = [("unknown-tool", '{"jsonrpc":"2.0","id":%d,"method":"tools/call","params":{"name":"no-such-tool","arguments":{}}}'),
            ("unknown-method", '{"jsonrpc":"2.0","id":%d,"method":"verif/unknown"}'),
            ("handler-error", '{"jsonrpc":"2.0","id":%d,"method":"tools/call","params":{"name":"t-err","arguments":{"nonce":"e"}}}'),
            ("soft-error", '{"jsonrpc":"2.0","id":%d,"method":"tools/call","params":{"name":"t-iserr","arguments":{"nonce":"e"}}}'),
            ("bad-params", '{"jsonrpc":"2.0","id":%d,"method":"prompts/get","params":{"name":5}}'),
            ("unknown-prompt", '{"jsonrpc":"2.0","id":%d,"method":"prompts/get","params":{"name":"nope"}}'),
            ("unknown-resource", '{"jsonrpc":"2.0","id":%d,"method":"resources/read","params":{"uri":"verif://nope"}}')]
    ejobs = []
    for kind in rc.KINDS:
        ejobs.append((kind, [{"id": name, "body": body % (7000 + k), "sse": kind == "sse", "expect_answer": True} for k, (name, body) in enumerate(errs)], "rich"))
    for (kind, eitems, _), out in zip(ejobs, rc.run_probes(ejobs)):
        if "_crash" in out:
            run_.diverge("mode=%s process-crash" % kind, "the server process crashed: %s" % out["_crash"][:1200], {"cmd": ["rpcprobe"], "input": {"kind": kind, "set": "rich", "items": eitems}})
            continue
        for k, (it, obs) in enumerate(zip(eitems, out["obs"])):
            run_.evaluations += 1
            n_ans = 0
            for f in obs["frames"]:
                try:
                    m = json.loads(f)
                except ValueError:
                    continue
                if isinstance(m, dict) and "method" not in m and m.get("id") == 7000 + k:
                    n_ans += 1
            if n_ans != 1:
                run_.diverge("mode=%s outcome=%s answers=%d" % (kind, it["id"], n_ans), "request %s on %s was answered %d times: %s" % (it["body"], kind, n_ans, [f[:160] for f in obs["frames"]]),
                             {"cmd": ["rpcprobe"], "input": {"kind": kind, "set": "rich", "items": [it]}, "observed": obs})
            run_.nontriv(["err-outcome", kind, it["id"]])
    had = bool(run_.violations) or bool(run_.known_hit)
    # ---- the connection is lost while calls are outstanding, no retry configured (Correlation: ConnLost / Fail; the request is
    # transmitted once - TransportResends is the defect): the raw fault server of C08 counts the requests it receives per call
    b = tla.run_tlc("Correlation", "Correlation_bug_resend.cfg")
    if b.ok or b.violation != "HandlerOnce":
        raise common.Broken("self-test: a transport that re-sends should violate HandlerOnce")
    run_.add_tlc(b)
    lost = []
    for client in ("json", "sse", "legacy"):
        for fault in ("close", "reset"):
            for at in (("b0", "headers-mid", "mid") if client != "legacy" else ("b0", "mid")):
                for n in ((1, 2, 3) if tier == "thorough" else (rnd.choice((1, 2, 3)),)):
                    lost.append({"id": "lost-%s-%s-%s-%d" % (client, fault, at, n), "client": client, "fault": fault, "at": at, "ncalls": n, "ctx": "none"})
    lout = common.run_harness_json(["c08"], {"scenarios": lost}, timeout=900, crash_ok=True)
    if "_crash" in lout:
        run_.diverge("connection-lost process-crash", "the client process died: %s" % lout["_crash"][:1200], {"cmd": ["c08"], "input": {"scenarios": lost}})
    else:
        for sc, r in zip(lost, lout["results"]):
            if r.get("broken"):
                if str(r["broken"]).startswith("initialize:"):
                    run_.evaluations += 1
                    run_.diverge("client=%s initialize-failed" % sc["client"], "the handshake with a peer that answers at once got no usable answer while the connection was up: %s"
                                 % r["broken"][:300], {"cmd": ["c08"], "input": {"scenarios": [sc]}, "spec": "Correlation (EveryCallReturns)"})
                    continue
                raise common.Broken("connection-lost scenario %s: %s" % (sc["id"], r["broken"]))
            run_.evaluations += 1
            rp = {"cmd": ["c08"], "input": {"scenarios": [sc]}, "observed": {"seen": r.get("seen"), "calls": r["calls"]}, "spec": "Correlation / TraceCorrelation (ConnLost, Fail)"}
            seen = r.get("seen") or {}
            n = sc["ncalls"]
            ev = [{"e": "call", "c": k + 1} for k in range(n)]
            ev += [{"e": "handler", "c": k + 1} for k in range(n) if seen.get("c%d" % k, 0) >= 1]
            ev.append({"e": "connlost"})
            extra = [(k, seen["c%d" % k]) for k in range(n) if seen.get("c%d" % k, 0) > 1]
            for k, cnt in extra:
                ev += [{"e": "handler", "c": k + 1}] * (cnt - 1)
            for k, c in enumerate(r["calls"]):
                if c.get("hung"):
                    continue
                ev.append({"e": "ret", "c": k + 1, "got": k + 1} if (c["ok"] and c["own"]) else {"e": "fail", "c": k + 1})
            ev.append({"e": "end"})
            if sc["client"] == "legacy":
                ev = None      # one shared stream: which call the cut answer belonged to is the peer's choice; judged by the counts only
            if extra:
                run_.diverge("client=%s connection-lost request-transmitted-twice" % sc["client"],
                             "no retry is configured, the connection was %s at %s: the peer received the request of call(s) %s more than once (%s)"
                             % (sc["fault"], sc["at"], [k for k, _ in extra], seen), rp)
            if ev:
                items.append((sc["id"], ev))
                rps[sc["id"]] = rp
            run_.nontriv([sc["id"]])
    had = bool(run_.violations) or bool(run_.known_hit)
    rej = tracebatch.validate(run_, "TraceCorrelation", "TraceCorrelation.cfg", items, sep={"e": "reset"}, max_lines=6000)
    for tid, (pos, line) in rej.items():
        if not had:
            raise common.Broken("TLC rejects log %s at %s although the python reading accepted it" % (tid, line))
        run_.diverge("trace-rejected at=%s" % line.get("e"), "TLC rejects the log of %s at %d %s" % (tid, pos, json.dumps(line)), rps[tid])
    run_.rule = ("runs = concurrent workloads of library clients on 6 transport/mode combinations (incl. request counters at 10^6-1, 2^31-1, "
                 "2^53-3), an id-class table of %d ids x 6 server modes by raw peers, a stalled legacy stream reader; every workload run, id and "
                 "the slow-reader run counts as non-trivial (each has concurrency or a boundary id)" % len(IDS))
    run_.assumptions = ["stdio: handler runs are reported by the child through a file and placed right after their call in the log (only their number matters)",
                        "ids are compared as JSON values (a number echoed in another notation is the same number)"]
    return run_.finish()
