"""C05 - server-initiated traffic reaches exactly the addressed session.

1. TLC: Push (pending entries matched on (session, id)) satisfies AnswerFromAddresseeOnly and
   NothingPendingAtQuiescence; matching on the id alone yields a counterexample (self-test).
2. Binding A: edge cover (+ random walks) of the Push state graph on a real Streamable-HTTP server and
   a real legacy SSE server: one raw peer per session records its stream; compared per step: return
   value / count, the set of streams the nonce-tagged frame appeared on, which session's answer a
   server-issued roots/list accepted, the pending-table size; at the end per-session frame order.
3. Binding B: the step log of every walk is validated by TLC against TracePush (re-using Push's actions)."""
import json
import random
from concurrent.futures import ThreadPoolExecutor

from vlib import common, tla, graphwalk, tracebatch

PROP = "C05"


def steps_of(g, path, rnd=None):
    out = []
    for ei in path:
        _, _, name, a = g.edges[ei]
        if name == "NewSession":
            out.append({"op": "new", "s": a[0]})
        elif name == "OpenStream":
            # half of the opens are reconnects: the stream is opened twice, the session keeps the newer one
            out.append({"op": "open", "s": a[0], "reconnect": bool(rnd and rnd.random() < 0.5)})
        elif name == "CloseStream":
            out.append({"op": "close", "s": a[0]})
        elif name == "DeleteSession":
            out.append({"op": "delete", "s": a[0]})
        elif name == "SendNotification":
            out.append({"op": "notif", "s": a[0]})
        elif name == "Broadcast":
            out.append({"op": "bcast"})
        elif name == "SendFiltered":
            out.append({"op": "filtered", "f": sorted(a[0])})
        elif name == "SReqStart":
            out.append({"op": "sreq_start", "s": a[0], "r": a[1], "id": a[2]})
        elif name == "ClientAnswer":
            out.append({"op": "answer", "s": a[0], "r": a[1]})
        elif name == "SReqReturn":
            out.append({"op": "sreq_return", "s": a[0], "r": a[1]})
        elif name == "SReqCancel":
            out.append({"op": "sreq_cancel", "s": a[0], "r": a[1]})
        else:
            raise common.Broken("unknown action " + name)
    return out


def pending_of(state):
    """(lo, hi): entries of requests still waiting; an answered request's entry goes away as soon as its caller runs."""
    lo = sum(1 for v in state["rstate"].values() if v == "pending")
    return lo, lo + sum(1 for v in state["rstate"].values() if v == "answered")


def pending_ok(n, state):
    lo, hi = pending_of(state)
    return lo <= n <= hi


def judge(run, kind, g, path, steps, res):
    nodes = graphwalk.path_nodes(g, path)
    expected = {}
    strict = False
    tag = "kind=%s" % kind
    for k, ei in enumerate(path):
        _, dst, name, a = g.edges[ei]
        o = res["obs"][k]
        succ = g.nodes[dst]
        hist = " ".join("%s(%s)" % (s["op"], ",".join(str(s[x]) for x in ("s", "r", "f") if x in s)) for s in steps[:k + 1])
        rp = {"cmd": ["c05"], "input": {"kind": kind, "paths": [{"id": "replay", "steps": steps[:k + 1]}]}, "observed": o, "spec": "Push"}

        def bad(key, msg):
            run.diverge("%s %s" % (tag, key), msg + "; history: " + hist, rp)
        if name == "SendNotification":
            s, ok = a
            if o["ok"] != ok:
                bad("SendNotification ok=%s" % o["ok"], "SendNotification(%s) returned ok=%s (err=%s), the addressed session %s an open stream"
                    % (s, o["ok"], o.get("err"), "has" if ok else "has no"))
            want = [s] if ok else []
            if o["reached"] != want:
                bad("SendNotification misdelivered", "notification for %s appeared on %s, expected %s" % (s, o["reached"], want))
            for x in want:
                expected.setdefault(x, []).append(k)
            strict = strict or ok
        elif name in ("Broadcast", "SendFiltered"):
            reached, count = (a[0], a[1]) if name == "Broadcast" else (a[1], a[2])
            if o["count"] != count:
                bad("%s count" % name, "%s reported %d sessions reached, %d have an open stream and were selected" % (name, o["count"], count))
            if o["reached"] != sorted(reached):
                bad("%s misdelivered" % name, "%s frame appeared on %s, expected %s" % (name, o["reached"], sorted(reached)))
            for x in reached:
                expected.setdefault(x, []).append(k)
            strict = strict or count > 0
        elif name == "SReqStart":
            s = a[0]
            if not o["ok"] or o["reached"] != [s]:
                bad("server-request misdelivered", "the roots/list request issued in %s appeared on %s (err=%s)" % (s, o["reached"], o.get("err")))
            expected.setdefault(s, []).append("req")
            if not pending_ok(o["pending"], succ):
                bad("pending-count", "pending table has %d entries, %s requests are in flight" % (o["pending"], pending_of(succ)))
        elif name == "SReqReturn":
            s, r, frm = a
            strict = True
            if o.get("from") != frm:
                bad("ListRoots answer-from=%s" % ("wrong-session" if o.get("from", "").startswith("s") else o.get("from")),
                    "ListRoots in %s returned the answer posted by %s, the accepted answer must be the one from %s" % (s, o.get("from"), frm))
            if not pending_ok(o["pending"], succ):
                bad("pending-leak", "pending table has %d entries after the request returned, %s requests are in flight" % (o["pending"], pending_of(succ)))
        elif name == "SReqCancel":
            strict = True
            if o.get("from") != "error":
                bad("ListRoots cancel", "a cancelled ListRoots returned %s" % o.get("from"))
            if not pending_ok(o["pending"], succ):
                bad("pending-leak", "pending table has %d entries after the cancel, %s requests are in flight" % (o["pending"], pending_of(succ)))
    # per-session order, exactly once
    nonce_of = {}
    for s, tags in res["frames"].items():
        want = expected.get(s, [])
        got = []
        for t in tags:
            if t == "req":
                got.append("req")
            else:
                try:
                    got.append(int(t.rstrip(".").rsplit("-", 1)[1]) - 1)   # nonce index = step index + 1
                except ValueError:
                    got.append(t)
        if got != want:
            rp = {"cmd": ["c05"], "input": {"kind": kind, "paths": [{"id": "replay", "steps": steps}]}, "frames": res["frames"], "spec": "Push"}
            run.diverge("%s per-session-order" % tag, "session %s saw frames of steps %s, expected %s (sending order, each once)" % (s, got, want), rp)
    if not pending_ok(res["pending_end"], nodes_last(g, path)):
        run.diverge("%s pending-leak" % tag, "pending table has %d entries at the end of the walk" % res["pending_end"],
                    {"cmd": ["c05"], "input": {"kind": kind, "paths": [{"id": "replay", "steps": steps}]}})
    return strict


def nodes_last(g, path):
    return g.nodes[g.edges[path[-1]][1]] if path else g.nodes[g.init[0]]


def trace_of(g, path, steps, res):
    ev = [{"e": "cfg"}]
    for k, st in enumerate(steps):
        o = res["obs"][k]
        e = {"e": st["op"]}
        for f in ("s", "r", "f", "id"):
            if f in st:
                e[f] = st[f]
        if st["op"] == "notif":
            e.update(ok=bool(o["ok"]), reached=o["reached"], pending=o["pending"])
        elif st["op"] in ("bcast", "filtered"):
            e.update(count=o["count"], reached=o["reached"])
        elif st["op"] == "sreq_start":
            e.update(reached=o["reached"], pending=o["pending"])
        elif st["op"] in ("sreq_return", "sreq_cancel"):
            e.update({"from": o.get("from", "none"), "pending": o["pending"]})
        ev.append(e)
    return ev


def run(tier, replay=None):
    run_ = common.Run(PROP, "model_checking", tier)
    rnd = random.Random(common.seed())
    if replay:
        doc = json.load(open(replay))
        print(json.dumps(common.run_harness_json(doc["replay"]["cmd"], doc["replay"]["input"]), indent=1)[:6000])
        return 0
    tla.sany("Push")
    tla.sany("TracePush")
    for c, inv in (("Push_bug_key.cfg", "AnswerFromAddresseeOnly"), ("Push_reach.cfg", "ReachWrongAnswer")):
        b = tla.run_tlc("Push", c)
        if b.ok or b.violation != inv:
            raise common.Broken("self-test %s should violate %s (got %s)" % (c, inv, b.violation))
        run_.add_tlc(b)
    big = tla.run_tlc("Push", "Push_streamable_3.cfg")
    if not big.ok:
        raise common.Broken("Push_streamable_3 violates %s" % big.violation)
    run_.add_tlc(big)
    plan = [("streamable", "Push_streamable_2.cfg"), ("legacy", "Push_legacy_2.cfg")]
    if tier == "thorough":
        plan = [("streamable", "Push_streamable_mid.cfg"), ("legacy", "Push_legacy_3.cfg")]
    jobs = []
    graphs = {}
    for kind, cfgname in plan:
        r = tla.run_tlc("Push", cfgname, dump=True)
        if not r.ok:
            raise common.Broken("%s violates %s" % (cfgname, r.violation))
        run_.add_tlc(r)
        g = r.graph
        graphs[kind] = g
        paths = graphwalk.edge_cover_paths(g, max_len=28, rnd=rnd)
        if tier == "thorough":
            paths += graphwalk.random_walks(g, 150, 35, rnd)
        plist = [{"id": "%s%d" % (kind[:2], n), "path": p, "steps": steps_of(g, p, rnd)} for n, p in enumerate(paths)]
        nproc = 10
        for k in range(nproc):
            part = plist[k::nproc]
            if part:
                jobs.append((kind, part))

    def one(job):
        kind, part = job
        out = common.run_harness_json(["c05"], {"kind": kind, "paths": [{"id": p["id"], "steps": p["steps"]} for p in part]},
                                      timeout=1200, crash_ok=True)
        return job, out

    items = {"streamable": [], "legacy": []}
    rps = {}
    with ThreadPoolExecutor(max_workers=12) as ex:
        for (kind, part), out in ex.map(one, jobs):
            if "_crash" in out:
                run_.diverge("kind=%s process-crash" % kind, "server process crashed: %s" % out["_crash"][:1500],
                             {"cmd": ["c05"], "input": {"kind": kind, "paths": [{"id": p["id"], "steps": p["steps"]} for p in part]}})
                continue
            byid = {r["id"]: r for r in out["results"]}
            g = graphs[kind]
            for p in part:
                res = byid[p["id"]]
                if res.get("broken"):
                    raise common.Broken("walk %s: %s" % (p["id"], res["broken"]))
                run_.evaluations += 1
                if res.get("aborted"):
                    # the walk stopped because an earlier step deviated: judge what was observed; the deviation must show there
                    k = len(res["obs"])
                    nviol = len(run_.violations) + len(run_.known_hit)
                    judge(run_, kind, g, p["path"][:k], p["steps"][:k], res)
                    if len(run_.violations) + len(run_.known_hit) == nviol:
                        raise common.Broken("walk %s aborted (%s) although every observed step conforms" % (p["id"], res["aborted"]))
                    continue
                if judge(run_, kind, g, p["path"], p["steps"], res):
                    run_.nontriv([kind, p["steps"]])
                items[kind].append((p["id"], trace_of(g, p["path"], p["steps"], res)))
                rps[p["id"]] = {"cmd": ["c05"], "input": {"kind": kind, "paths": [{"id": p["id"], "steps": p["steps"]}]}}
                if len(run_.samples) < 2 and len(p["steps"]) > 8:
                    run_.sample({"kind": kind, "steps": p["steps"][:14], "observed": res["obs"][:14]})
    had = bool(run_.violations) or bool(run_.known_hit)
    for kind in items:
        rej = tracebatch.validate(run_, "TracePush", "TracePush_%s.cfg" % kind, items[kind])
        for tid, (pos, line) in rej.items():
            if not had:
                raise common.Broken("TLC rejects walk %s at %s although the edge-label comparison accepted it" % (tid, line))
            run_.diverge("kind=%s trace-rejected op=%s" % (kind, line.get("e")),
                         "TLC rejects the step log of walk %s at step %d: %s" % (tid, pos, json.dumps(line)), rps[tid])
    run_.exhaustive = True
    # ---- bursts to a session whose stream is not being read (Burst.tla: PerSessionFIFO also when the hand-over overflows)
    tla.sany("Burst"); tla.sany("TraceBurst")
    b = tla.run_tlc("Burst", "Burst.cfg")
    if not b.ok:
        raise common.Broken("Burst violates %s" % b.violation)
    run_.add_tlc(b)
    b = tla.run_tlc("Burst", "Burst_bug_reorder.cfg")
    if b.ok or b.violation != "PerSessionFIFO":
        raise common.Broken("self-test: Burst with the overflow path should violate PerSessionFIFO")
    run_.add_tlc(b)
    bursts = [{"id": "burst-%s-%d" % (srvk, k), "server": srvk, "n": n, "payload": pay}
              for srvk in ("legacy", "streamable")
              for k, (n, pay) in enumerate([(300, 16384), (150, 65536)] + ([(600, 4096), (250, 262144)] if tier == "thorough" else []))]
    bout = common.run_harness_json(["c05burst"], {"bursts": bursts}, timeout=600, crash_ok=True)
    if "_crash" in bout:
        run_.diverge("burst process-crash", "the server process crashed during a burst: %s" % bout["_crash"][:1200], {"cmd": ["c05burst"], "input": {"bursts": bursts}})
    else:
        bitems, brp = [], {}
        for bi, r in zip(bursts, bout["results"]):
            if r.get("broken"):
                raise common.Broken("burst %s: %s" % (r["id"], r["broken"]))
            run_.evaluations += 1
            acc = set(r["accepted"])
            ev = [{"e": "reset"}] + [{"e": "send", "n": i, "ok": i in acc} for i in range(1, bi["n"] + 1)]
            ev += [{"e": "recv", "n": i} for i in r["received"]] + [{"e": "end"}]
            bitems.append((r["id"], ev))
            brp[r["id"]] = ({"cmd": ["c05burst"], "input": {"bursts": [bi]}, "observed": {"accepted": len(r["accepted"]), "received_head": r["received"][:40]},
                             "spec": "Burst / TraceBurst"}, bi, r)
            run_.nontriv(["burst", bi["server"], bi["n"], bi["payload"], len(r["accepted"]) < bi["n"]])
        rej = tracebatch.validate(run_, "TraceBurst", "TraceBurst.cfg", bitems, max_lines=5000, max_rejections=8)
        for tid, (pos, line) in rej.items():
            rp, bi, r = brp[tid]
            what = "order" if line["e"] == "recv" else "lost-or-duplicated"
            run_.diverge("server=%s burst %s" % (bi["server"], what),
                         "%d notifications of %d bytes to a session whose stream was not being read: %d accepted, %d received; the stream shows %s where the "
                         "accepted order is %s (first mismatch at frame %s)" % (bi["n"], bi["payload"], len(r["accepted"]), len(r["received"]),
                                                                               r["received"][:14], r["accepted"][:14], line.get("n")), rp)
    # ---- a send queued behind another send's write while the stream ends (StaleSend.tla): forced with the hook gates
    tla.sany("StaleSend"); tla.sany("TraceStaleSend")
    b = tla.run_tlc("StaleSend", "StaleSend.cfg")
    if not b.ok:
        raise common.Broken("StaleSend violates %s" % b.violation)
    run_.add_tlc(b)
    b = tla.run_tlc("StaleSend", "StaleSend_bug_earlycheck.cfg")
    if b.ok or b.violation != "Reached":
        raise common.Broken("self-test: StaleSend with the check before the lock should violate Reached")
    run_.add_tlc(b)
    stale = [{"id": "stale-%s-%s-%s" % (how, end, park.split(".")[-1]), "how": how, "end": end, "park": park}
             for how in ("notif", "broadcast", "filtered") for end in ("close", "newer") for park in ("sse.write.id", "sse.write.data")]
    stale += [{"id": "fastanswer-%d" % k, "how": "fastanswer", "end": "-", "park": "-"} for k in range(2)]
    sout = common.run_harness_json(["c05stale"], {"items": stale}, timeout=300, crash_ok=True)
    if "_crash" in sout:
        run_.diverge("stale-send process-crash", "the server process crashed: %s" % sout["_crash"][:1200], {"cmd": ["c05stale"], "input": {"items": stale}})
    else:
        sitems, srp = [], {}
        unreal = 0
        for it, r in zip(stale, sout["results"]):
            if r.get("broken"):
                raise common.Broken("stale-send %s: %s" % (r["id"], r["broken"]))
            run_.evaluations += 1
            if r.get("unrealised"):
                unreal += 1
                continue
            rp = {"cmd": ["c05stale"], "input": {"items": [it]}, "observed": r, "spec": "StaleSend / TraceStaleSend"}
            if it["how"] == "fastanswer":
                # Push: ClientAnswer by the addressed session is accepted whenever the request is pending - also when it comes at once
                run_.nontriv(["fastanswer", it["id"]])
                if r["b_hung"] or not r["b_ok"]:
                    run_.diverge("server-request answered-at-once not-accepted",
                                 "the addressed session posted its answer to a server-issued roots/list while the issuing goroutine was still inside the Flush that "
                                 "delivered the frame (POST status %s); the request ended with %s" % (r.get("notice_ms"), "a hang" if r["b_hung"] else repr(r.get("b_err"))), rp)
                continue
            if r["b_hung"]:
                run_.diverge("stale-send how=%s send-hangs" % it["how"], "the send queued behind the write did not return within 3 s", rp)
                continue
            seen_b = bool(r["b_on_old"] or r["b_on_new"])
            ev = [{"e": "reset"}, {"e": "look", "s": "A"}, {"e": "acq", "s": "A", "refused": False}, {"e": "look", "s": "B"},
                  {"e": "end", "how": it["end"]}, {"e": "notice"}, {"e": "write", "s": "A", "ok": bool(r["a_ok"]), "seen": False}]
            refused = not r["b_ok"] and not seen_b
            ev.append({"e": "acq", "s": "B", "refused": refused})
            if not refused:
                ev.append({"e": "write", "s": "B", "ok": bool(r["b_ok"]), "seen": seen_b})
            sitems.append((r["id"], ev))
            srp[r["id"]] = (rp, it, r)
            run_.nontriv(["stale", it["how"], it["end"], it["park"]])
        if unreal > len(stale) // 2:
            raise common.Broken("%d of %d stale-send schedules could not be realised" % (unreal, len(stale)))
        rej = tracebatch.validate(run_, "TraceStaleSend", "TraceStaleSend.cfg", sitems, max_lines=2000, max_rejections=6)
        for tid, (pos, line) in rej.items():
            rp, it, r = srp[tid]
            run_.diverge("stale-send how=%s end=%s reports-reached" % (it["how"], it["end"]),
                         "send B looked the stream up, waited for the write lock behind send A, and got it after the server had noticed the end of the stream "
                         "(%s): it reported %s (count %d, err %r), its frame was %s; TLC rejects the log at event %d %s"
                         % (it["end"], "the session as reached" if r["b_ok"] else "a failure", r["b_count"], r.get("b_err", ""),
                            "read by the peer" if (r["b_on_old"] or r["b_on_new"]) else "read by nobody", pos, json.dumps(line)), rp)
    # ---- the library client's end of the stream: every notification sent to its session reaches the handler exactly once, also when
    # event ids of the listening stream coincide with ids seen on POST response streams (ids are unique per stream only)
    cruns = [{"id": "client-frozen-ids", "rounds": 6, "freeze": True}, {"id": "client-plain", "rounds": 4, "freeze": False}]
    cout = common.run_harness_json(["c05client"], {"runs": cruns}, timeout=300, crash_ok=True)
    if "_crash" in cout:
        run_.diverge("library-client process-crash", cout["_crash"][:1200], {"cmd": ["c05client"], "input": {"runs": cruns}})
    else:
        for cr, r in zip(cruns, cout["results"]):
            if r.get("broken"):
                raise common.Broken("library client run %s: %s" % (r["id"], r["broken"]))
            run_.evaluations += 1
            run_.nontriv(["library-client", cr["id"]])
            rp = {"cmd": ["c05client"], "input": {"runs": [cr]}, "observed": r, "spec": "Push (delivered once)"}
            wrong = {d: r["counts"].get(d, 0) for d in r["sent"] if r["counts"].get(d, 0) != 1}
            extra = [d for d in r["counts"] if d not in r["sent"]]
            if wrong or extra:
                run_.diverge("library-client delivered-count", "notifications sent to the session of a library client with an open listening stream (%s): handler calls per "
                             "notification %s (must be 1 each), unexpected %s" % ("event ids frozen to evt-0-n" if cr["freeze"] else "plain", wrong, extra), rp)
    run_.rule = ("walks = edge cover of the Push state graph (sessions x stream open/closed x sends x server-request steps incl. "
                 "answers from the wrong session) on a Streamable-HTTP and a legacy SSE server (+ random walks, thorough); "
                 "non-trivial = walks with at least one delivered send or a completed / cancelled server request")
    run_.assumptions = ["stdio has a single session: isolation is vacuous there and it is not walked",
                        "the 30 s request timer is replaced by cancelling the caller's context",
                        "the error flag of Broadcast/SendFiltered is not compared (the statement speaks of the count)"]
    return run_.finish()
