"""C14 - all transports answer alike.

1. TLC: Core.tla is the single reference (Expect per request class).
2. Binding A: every class of the 8 common methods (x id kind x 3 registration sets) is sent as the same
   bytes to Streamable JSON / SSE / stateless / sessions-disabled, legacy SSE and stdio servers; answers are
   normalised (order of listed items, wording of error messages) and must be pairwise equal AND admitted by
   Core.  Client part: a scripted server gives the same answers (results of every content kind, structured
   content, error answers, lists, prompt messages, resource contents) to the library's Streamable (JSON and
   SSE answers), legacy SSE and stdio clients; the values / error classes they return must be equal.
3. Binding B: the per-class answer tables are validated by TLC against TraceParity."""
import hashlib
import json
import random
import re

from vlib import common, tla, tracebatch
from checks import rpccommon as rc

PROP = "C14"
COMMON = ["initialize", "ping", "tools/list", "tools/call", "prompts/list", "prompts/get", "resources/list", "resources/read"]

CLIENT_ANSWERS = [
    ("tools/call", '{"content":[{"type":"text","text":"hello"}]}', False),
    ("tools/call", '{"content":[{"type":"text","text":"a"},{"type":"image","data":"aGk=","mimeType":"image/png"}],"isError":true}', False),
    ("tools/call", '{"content":[{"type":"resource","resource":{"uri":"r://e","text":"emb","mimeType":"text/plain"}}]}', False),
    ("tools/call", '{"content":[{"type":"resource","resource":{"uri":"r://b","blob":"AAEC"}}],"structuredContent":{"a":[1,2,{"b":null}],"n":1.5}}', False),
    ("tools/call", '{"content":[]}', False),
    ("tools/call", '{"content":[{"type":"text","text":"line\\nbreak \\u2028 é 😀"}],"_meta":{"k":"v"}}', False),
    ("tools/call", '{"content":[{"type":"audio","data":"aGk=","mimeType":"audio/wav"}]}', False),
    ("tools/call", '{"content":[{"type":"text","text":""}]}', False),
    ("tools/call", '{"content":[{"type":"text","text":"' + "L" * 100000 + '"}]}', False),
    ("resources/read", '{"contents":[{"uri":"r://big","text":"' + "B" * 300000 + '"}]}', False),
    ("tools/call", '{"code":-32603,"message":"scripted failure"}', True),
    ("tools/call", '{"code":-32602,"message":"bad params","data":{"x":1}}', True),
    ("tools/list", '{"tools":[{"name":"t1","description":"d","inputSchema":{"type":"object","properties":{"a":{"type":"string"}},"required":["a"]},"annotations":{"title":"T","readOnlyHint":true}},{"name":"t2","inputSchema":{"type":"object"}}]}', False),
    ("tools/list", '{"tools":[]}', False),
    ("tools/list", '{"code":-32603,"message":"list failed"}', True),
    ("prompts/list", '{"code":-32601,"message":"prompts not supported"}', True),
    ("resources/list", '{"code":-32603,"message":"list failed"}', True),
    ("prompts/list", '{"prompts":[]}', False),
    ("prompts/list", '{"prompts":[{"name":"p1","description":"d","arguments":[{"name":"a","required":true}]}]}', False),
    ("prompts/get", '{"description":"d","messages":[{"role":"user","content":{"type":"text","text":"hi"}},{"role":"assistant","content":{"type":"image","data":"aGk=","mimeType":"image/png"}}]}', False),
    ("prompts/get", '{"code":-32601,"message":"prompt not found"}', True),
    ("resources/list", '{"resources":[{"uri":"r://1","name":"one","mimeType":"text/plain"},{"uri":"r://2","name":"two"}]}', False),
    ("resources/read", '{"contents":[{"uri":"r://1","text":"T","mimeType":"text/plain"},{"uri":"r://2","blob":"AAEC"}]}', False),
    ("resources/read", '{"contents":[]}', False),
    ("resources/read", '{"code":-32002,"message":"resource not found"}', True),
]


def normalise_result(method, res):
    """order of listed items does not matter"""
    if isinstance(res, dict):
        for key, by in (("tools", "name"), ("prompts", "name"), ("resources", "uri")):
            if isinstance(res.get(key), list):
                try:
                    res = dict(res, **{key: sorted(res[key], key=lambda x: json.dumps(x.get(by) if isinstance(x, dict) else x))})
                except Exception:
                    pass
    return res


def answer_of(obs):
    """(reaction, digest) of what came back"""
    resp = None
    for f in obs["frames"]:
        try:
            m = json.loads(f)
        except ValueError:
            continue
        if isinstance(m, dict) and ("result" in m or "error" in m) and "method" not in m:
            resp = m
    if resp is None:
        st = obs["status"]
        if 400 <= st < 500:
            return "http4xx", ""
        if 500 <= st < 600:
            return "http5xx", ""
        return "none", ""
    if "error" in resp and isinstance(resp["error"], dict):
        return "rpc:%s" % resp["error"].get("code"), ""
    return "result", resp.get("result")


def run(tier, replay=None):
    run_ = common.Run(PROP, "exploration", tier)
    rnd = random.Random(common.seed())
    if replay:
        doc = json.load(open(replay))
        print(json.dumps(common.run_harness_json(doc["replay"]["cmd"], doc["replay"]["input"], crash_ok=True), indent=1)[:6000])
        return 0
    tla.sany("Core"); tla.sany("TraceParity")
    core = tla.run_tlc("Core", "Core.cfg", dump=True)
    if not core.ok:
        raise common.Broken("Core violates %s" % core.violation)
    classes = sorted(((st["m"], st["pc"], st["idk"], sorted(st["expect"])) for st in core.graph.nodes.values() if st["m"] in COMMON))
    events, rps = [], {}
    sets = ["rich", "empty", "set2", "dup"]
    # requests beyond Core's classes whose answers must merely agree: version negotiation, names registered twice
    EXTRA = {"rich": [("initialize", "pv:" + v, json.dumps({"jsonrpc": "2.0", "id": 880 + k, "method": "initialize", "params": {"protocolVersion": v,
                       "clientInfo": {"name": "p", "version": "0"}, "capabilities": {}}})) for k, v in enumerate(["1999-01-01", "", "2024-11-05", "2025-03-26", "2025-06-18", "9999-12-31"])],
             "set2": [("tools/call", "num:" + lit, '{"jsonrpc":"2.0","id":%d,"method":"tools/call","params":{"name":"t-num","arguments":{"x":%s}}}' % (870 + k, lit))
                      for k, lit in enumerate(["2.5", "1e2", "7", "-0.125", "12345678901234567890"])],
             "dup": [("tools/call", "dup-echo", '{"jsonrpc":"2.0","id":890,"method":"tools/call","params":{"name":"echo","arguments":{"nonce":"d"}}}'),
                     ("prompts/get", "dup-prompt", '{"jsonrpc":"2.0","id":891,"method":"prompts/get","params":{"name":"p-dup"}}'),
                     ("resources/read", "dup-resource", '{"jsonrpc":"2.0","id":892,"method":"resources/read","params":{"uri":"r://dup"}}')]}
    # the answer to a request does not depend on the requests before it: a well-formed request of a method directly followed by
    # the same request without its params, several times over
    seq = []
    for k in range(6):
        for j, m in enumerate(("tools/call", "prompts/get", "resources/read")):
            seq.append((m, "after-ok:ok", rc.body_for(m, "ok", 900 + 10 * k + 2 * j)[0]))
            seq.append((m, "after-ok:absent", rc.body_for(m, "absent", 901 + 10 * k + 2 * j)[0]))
    EXTRA["rich"] = EXTRA["rich"] + seq
    for regset in sets:
        items, meta = [], []
        for n, (m, pc, idk, expect) in enumerate(classes):
            if regset != "rich" and (pc.startswith("h:") or (pc in ("ok", "argsNull", "argsMissing", "argsArray", "argsString") and m in ("tools/call", "prompts/get", "resources/read") and regset == "empty")):
                continue
            idvs = [500 + n] if idk == "int" else ["par-%d" % n]
            if tier == "thorough":
                idvs += [1000000 + n, 9007199254740000 + n] if idk == "int" else ["é-😀-%d" % n, "x" * 300 + str(n)]
            for v, idv in enumerate(idvs):
                body, _, _ = rc.body_for(m, pc, idv)
                items.append({"id": "p%d_%d" % (n, v), "body": body, "expect_answer": True})
                meta.append((m, pc, "%s%d" % (idk, v), expect, body))
        for k, (m, pc, body) in enumerate(EXTRA.get(regset, [])):
            items.append({"id": "x%d" % k, "body": body, "expect_answer": True})
            meta.append((m, pc, "int", ["result", "rpc:-32602", "rpc:-32600"], body))
        jobs = [(kind, [dict(it, sse=(kind == "sse")) for it in items], regset) for kind in rc.KINDS]
        outs = rc.run_probes(jobs)
        for (kind, _, _), out in zip(jobs, outs):
            if "_crash" in out:
                run_.diverge("kind=%s process-crash" % kind, out["_crash"][:1500], {"cmd": ["rpcprobe"], "input": {"kind": kind, "set": regset, "items": items}})
        if any("_crash" in o for o in outs):
            continue
        for k, (m, pc, idk, expect, body) in enumerate(meta):
            answers = []
            for (kind, _, _), out in zip(jobs, outs):
                reaction, res = answer_of(out["obs"][k])
                if reaction == "result":
                    norm = normalise_result(m, res)
                    digest = hashlib.sha1(json.dumps(norm, sort_keys=True).encode()).hexdigest()[:12]
                else:
                    digest = ""
                answers.append({"kind": kind, "reaction": reaction, "digest": digest, "_res": res})
            run_.evaluations += 1
            tid = "%s|%s|%s|%s" % (regset, m, pc, idk)
            ev = {"e": "p", "what": tid, "expect": expect, "answers": [{k2: v for k2, v in a.items() if not k2.startswith("_")} for a in answers]}
            events.append((tid, [ev]))
            rps[tid] = ({"cmd": ["rpcprobe"], "input": {"kind": "(each of %s)" % rc.KINDS, "set": regset, "items": [{"id": "p", "body": body}]},
                         "answers": [{"kind": a["kind"], "reaction": a["reaction"], "result": a["_res"]} for a in answers], "expected": expect}, m, pc)
            run_.nontriv([regset, m, pc, idk])
            if len(run_.samples) < 2 and pc in ("unknownEntry", "h:error"):
                run_.sample({"request": body, "registrations": regset, "answers": ev["answers"]})
    rej = tracebatch.validate(run_, "TraceParity", "TraceParity.cfg", events, max_rejections=10)
    for tid, (pos, line) in rej.items():
        rp, m, pc = rps[tid]
        kinds = {}
        for a in line["answers"]:
            kinds.setdefault((a["reaction"], a["digest"]), []).append(a["kind"])
        odd = sorted(kinds.items(), key=lambda kv: len(kv[1]))[0]
        key = "method=%s class=%s differs=%s" % (m, pc, "+".join(sorted(odd[1]))) if len(kinds) > 1 else "method=%s class=%s not-admitted=%s" % (m, pc, line["answers"][0]["reaction"])
        run_.diverge(key, "the same request is answered differently (or outside Core's admitted set %s): %s" % (line["expect"], {"/".join(v): k[0] + (":" + k[1] if k[1] else "") for k, v in kinds.items()}), rp)

    # ---- client part
    answers = [{"method": m, "raw": raw, "is_err": e} for m, raw, e in CLIENT_ANSWERS]
    out = common.run_harness_json(["c14"], {"answers": answers}, timeout=300, crash_ok=True)
    cevents, crps = [], {}
    if "_crash" in out:
        run_.diverge("client process-crash", out["_crash"][:1500], {"cmd": ["c14"], "input": {"answers": answers}})
    else:
        if out.get("broken"):
            raise common.Broken("c14 clients: %s" % out["broken"])
        for a, outs in zip(answers, out["outs"]):
            run_.evaluations += 1
            table = []
            for o in outs:
                if o["err"]:
                    msg = re.sub(r"^[a-z ]+ (request failed|error): ", "", o["err"])
                    m2 = re.search(r"\(code: (-?\d+)\)", o["err"])
                    reaction = "rpc:%s" % m2.group(1) if m2 else "error"
                    digest = hashlib.sha1(re.sub(r"^(list|call|get|read)[a-z ]*?(error|failed): ", "", msg).encode()).hexdigest()[:12] if not m2 else ""
                else:
                    reaction, digest = "value", hashlib.sha1(o["value"].encode()).hexdigest()[:12]
                table.append({"kind": o["client"], "reaction": reaction, "digest": digest, "_raw": o})
            tid = "client|%s|%s" % (a["method"], hashlib.sha1(a["raw"].encode()).hexdigest()[:6])
            cevents.append((tid, [{"e": "p", "what": tid, "expect": [], "answers": [{k: v for k, v in t.items() if k != "_raw"} for t in table]}]))
            crps[tid] = ({"cmd": ["c14"], "input": {"answers": [a]}, "returned": [t["_raw"] for t in table]}, a)
            run_.nontriv(["client", a["method"], a["raw"]])
        rej = tracebatch.validate(run_, "TraceParity", "TraceParity.cfg", cevents, max_rejections=10)
        for tid, (pos, line) in rej.items():
            rp, a = crps[tid]
            kinds = {}
            for t in line["answers"]:
                kinds.setdefault((t["reaction"], t["digest"]), []).append(t["kind"])
            odd = sorted(kinds.items(), key=lambda kv: len(kv[1]))[0]
            run_.diverge("clients method=%s differs=%s" % (a["method"], "+".join(sorted(odd[1]))),
                         "the library's clients return different values for the same server answer %s: %s" % (a["raw"][:120], {"/".join(v): k for k, v in kinds.items()}), rp)
    run_.states, run_.transitions = run_.states + core.distinct, run_.transitions + core.generated
    run_.extra["tlc_states"] = run_.states
    run_.extra["traces_validated_against_impl"] = run_.traces
    run_.rule = ("cases = Core's classes of the 8 common methods x id kinds x 3 registration sets, each on 6 server kinds, plus %d scripted "
                 "server answers given to 4 client configurations; distinct non-trivial = distinct (registration set, method, class, id kind) / answers" % len(CLIENT_ANSWERS))
    run_.assumptions = ["answers are compared up to the order of listed items and the wording of error messages (error codes must agree)",
                        "client errors are compared by JSON-RPC code when the server answered an error, otherwise by message text without the operation prefix"]
    return run_.finish()
