"""C07 - clients survive arbitrary server output.

1. TLC: ClientSurvive.tla - for every bad-frame class x position the reader survives, call 1 ends (liveness),
   never with a foreign answer, the later call completes and the client closes; the sticky-decoder and the
   double-signal defects each yield a counterexample.
2. Binding A: every (class, position) scenario reached in the model is executed against the real Streamable
   client (JSON answers, SSE answers, listening GET stream), the legacy SSE client and the stdio client (scripted
   child process), with concrete bytes per class (several variants): garbage, non-JSON, wrong kind, unknown id,
   id of the wrong type, 100 KiB / 8 MiB frames, blank lines, comments, neither / both of result and error,
   invalid UTF-8, repeated control event, truncated JSON.  Observed: how call 1 and call 2 end, CPU burnt while
   idle (spin detector), Close(), delivery of a later well-formed notification on the listening stream; a crash
   of the client process is bisected to the scenario.
3. Binding B: the scenario logs are validated by TLC against TraceClientSurvive (silent reader steps)."""
import json
import random
from concurrent.futures import ThreadPoolExecutor

from vlib import common, tla, tracebatch

PROP = "C07"
CLIENTS = ["json", "sse", "get", "legacy", "stdio"]


def outcome(c, deadline_ms):
    if c["ok"]:
        return "ok" if c["own"] else "wrong"
    if c["ms"] > deadline_ms + 1500:
        return "hang"
    return "err"


def run(tier, replay=None):
    run_ = common.Run(PROP, "fault_enumeration", tier)
    rnd = random.Random(common.seed())
    if replay:
        doc = json.load(open(replay))
        print(json.dumps(common.run_harness_json(doc["replay"]["cmd"], doc["replay"]["input"], crash_ok=True), indent=1)[:6000])
        return 0
    tla.sany("ClientSurvive"); tla.sany("TraceClientSurvive")
    g = tla.run_tlc("ClientSurvive", "ClientSurvive.cfg", dump=True)
    if not g.ok:
        raise common.Broken("ClientSurvive violates %s" % g.violation)
    run_.states += g.distinct; run_.transitions += g.generated
    for c in ("ClientSurvive_bug_sticky.cfg", "ClientSurvive_bug_double.cfg"):
        b = tla.run_tlc("ClientSurvive", c)
        if b.ok or b.violation != "ReaderSurvives":
            raise common.Broken("self-test %s should violate ReaderSurvives" % c)
        run_.states += b.distinct; run_.transitions += b.generated
    combos = sorted({(st["bad"], st["pos"]) for st in g.graph.nodes.values()})
    scen = []
    for client in CLIENTS:
        for bad, pos in combos:
            if bad == "control-repeat" and client in ("stdio", "json"):
                continue
            if bad == "streamend" and client != "get":
                continue          # the listening stream of the Streamable client ends cleanly every time it is opened
            if client == "get" and pos != "instead":
                continue          # on the listening stream the bad frame simply precedes a well-formed notification
            nvar = {"nonjson": 3, "wrongkind": 2, "idtype": 6, "giant": 2, "comment": 4, "fieldtype": 18, "noevent": 4, "otherevent": 4}.get(bad, 1)
            variants = range(nvar) if tier == "thorough" else ([rnd.randrange(nvar)] if bad not in ("fieldtype", "comment", "noevent", "otherevent", "idtype") else (rnd.sample(range(nvar), 4) if bad != "fieldtype" else rnd.sample(range(12), 4) + rnd.sample(range(12, 18), 2)))
            if client == "json" and tier == "thorough":
                variants = range(5)
            for v in variants:
                if bad == "giant" and v % 2 == 1 and tier == "quick" and pos != "instead":
                    continue
                scen.append({"id": "%s-%s-%s-%d" % (client, bad, pos, v), "client": client, "bad": bad, "pos": pos, "variant": v})
    nproc = 14
    chunks = [scen[i::nproc] for i in range(nproc)]

    def one(ch):
        if not ch:
            return []
        out = common.run_harness_json(["c07"], {"scenarios": ch}, timeout=900, crash_ok=True)
        if "_crash" not in out:
            return out["results"]
        res = []
        for s in ch:      # the client process died: find the scenario
            o = common.run_harness_json(["c07"], {"scenarios": [s]}, timeout=120, crash_ok=True)
            res.append({"id": s["id"], "_crash": o["_crash"]} if "_crash" in o else o["results"][0])
        return res

    byid = {s["id"]: s for s in scen}
    items, rps = [], {}
    with ThreadPoolExecutor(max_workers=nproc) as ex:
        for res in ex.map(one, chunks):
            for r in res:
                sc = byid[r["id"]]
                run_.evaluations += 1
                rp = {"cmd": ["c07"], "input": {"scenarios": [sc]}, "observed": r, "spec": "ClientSurvive"}
                tag = "client=%s bad=%s pos=%s" % (sc["client"], sc["bad"], sc["pos"])
                if "_crash" in r:
                    run_.diverge(tag + " process-crash", "the client process died: %s" % r["_crash"][:1200], rp)
                    continue
                if r.get("broken"):
                    raise common.Broken("scenario %s: %s" % (r["id"], r["broken"]))
                # on the listening stream the bad frame travels beside a properly answered call: "before" in the model's terms
                ev = [{"e": "scenario", "bad": sc["bad"], "pos": "before" if sc["client"] == "get" else sc["pos"]},
                      {"e": "call1", "r": outcome(r["call1"], 1500)},
                      {"e": "idle", "spin": bool(r["idle_cpu_ms"] > 150 or r.get("gets", 0) > 100)},
                      {"e": "call2", "r": outcome(r["call2"], 2500)}]
                if r.get("marker") is not None and sc["bad"] != "streamend":
                    ev.append({"e": "marker", "seen": bool(r["marker"])})
                ev.append({"e": "close", "ok": not r.get("close_err") and r["close_ms"] < 7000})
                items.append((r["id"], ev))
                rps[r["id"]] = (rp, tag, r)
                run_.nontriv([sc["client"], sc["bad"], sc["pos"], sc["variant"]])
                if len(run_.samples) < 3 and sc["pos"] == "instead":
                    run_.sample({"scenario": sc, "log": ev})
    rej = tracebatch.validate(run_, "TraceClientSurvive", "TraceClientSurvive.cfg", items, max_rejections=40)
    for tid, (pos, line) in rej.items():
        rp, tag, r = rps[tid]
        what = {"call1": "call1=%s" % line.get("r"), "idle": "spin", "call2": "later-call=%s" % line.get("r"), "marker": "later-frame-not-processed",
                "close": "close-failed"}.get(line["e"], line["e"])
        run_.diverge("%s %s" % (tag, what), "scenario %s: %s (call1 %s, idle cpu %.0f ms, call2 %s, close %s in %.0f ms)"
                     % (tid, what, r["call1"], r["idle_cpu_ms"], r["call2"], r.get("close_err") or "ok", r["close_ms"]), rp)
    run_.rule = ("scenarios = (bad-frame class x position) pairs of ClientSurvive x 5 client configurations x concrete variants; every scenario is "
                 "non-trivial (a malformed frame is injected); distinct = distinct (client, class, position, variant)")
    run_.assumptions = ["call deadlines 1.5 s / 2.5 s, 'hang' = not back 1.5 s after the deadline; spin = more than 150 ms CPU in 300 ms of idling",
                        "where a bad frame precedes or follows a well-formed answer, call 1 may end with its own result or with an error"]
    return run_.finish()
