"""C04 - Streamable-HTTP session lifecycle follows the protocol state machine.

1. TLC: SessionLifecycle's design invariants (Partition, StreamsLive, StatelessNeverIssues, NoResurrection,
   UnknownNoEffect) for the 3 modes x GET on/off, also with the expiry sweep as an environment action.
2. Binding A: the full state graph (every edge labelled with the admissible statuses and the required
   session header) is covered edge by edge - plus seeded random walks in the thorough tier - by a raw
   HTTP peer against a real server for each of the 12 configurations (mode x GET x POST-SSE); after
   every step status, Mcp-Session-Id, Server.GetActiveSessions() and stream termination are compared
   with the edge label and the successor state.  Issued ids are checked for visible ASCII, length,
   uniqueness and positional diversity.
3. Binding B: the step-by-step observation log of every walk is validated by TLC (TraceSession)."""
import json
import random
from concurrent.futures import ThreadPoolExecutor

from vlib import common, tla, graphwalk, tracebatch

PROP = "C04"
OPS = {"PostInitialize": "init", "PostRequest": "req", "PostNotification": "notif", "PostResponse": "resp",
       "Get": "get", "StreamClose": "sclose", "Delete": "delete"}


def status_ok(status, allowed):
    for a in allowed:
        if a == "4xx" and 400 <= status < 500:
            return True
        if a == "5xx" and 500 <= status < 600:
            return True
        if a.isdigit() and int(a) == status:
            return True
    return False


def steps_of(g, path, rnd, stateful=True):
    steps = []
    nreq = 0
    for ei in path:
        _, _, name, args = g.edges[ei]
        if name == "StreamClose":
            steps.append({"op": "sclose", "cls": "live", "s": args[0]})
            continue
        h = args[0]
        st = {"op": OPS[name], "cls": h["cls"], "s": h["s"], "sse": rnd.random() < 0.4, "variant": rnd.randrange(8)}
        if name == "Delete":
            st["ends"] = args[3]
        if not stateful and st["op"] == "req":
            # without sessions the answer must not depend on earlier requests: the first two requests and every other one after them are
            # the same call of the tool that counts in its session's data
            nreq += 1
            if nreq <= 2 or nreq % 2 == 1:
                st["variant"], st["sse"] = 2, False
        steps.append(st)
    return steps


def judge_path(run, cfg, g, path, steps, res, bodies):
    nodes = graphwalk.path_nodes(g, path)
    tag = "mode=%s get=%s" % (cfg["mode"], cfg["get"])
    strict = False
    for k, ei in enumerate(path):
        _, dst, name, args = g.edges[ei]
        if name == "StreamClose":
            continue
        o = res["obs"][k]
        h, allowed, hdrkind = args[0], args[1], args[2]
        st = steps[k]
        succ = g.nodes[dst]
        hist = " ".join("%s(%s%s)" % (s["op"], s["cls"], ":" + s["s"] if s["s"] != "-" else "") for s in steps[:k + 1])
        rp = {"cmd": ["c04"], "input": {"config": cfg, "paths": [{"id": "replay", "steps": steps[:k + 1]}]},
              "expected": {"status": sorted(allowed), "header": hdrkind, "live_after": sorted(succ["live"])},
              "observed": o, "spec": "SessionLifecycle"}
        key = "%s op=%s hdr-class=%s" % (tag, st["op"], h["cls"])
        if o.get("served_in"):
            run.diverge(key + " served-in-another-session", "the request bore the live id %s and was served in session %s; history: %s"
                        % (o.get("sent_hdr"), o["served_in"], hist), rp)
        if not status_ok(o["status"], allowed):
            run.diverge(key + " status=%s" % o["status"],
                        "%s answered %s (err=%s), allowed %s; history: %s" % (st["op"], o["status"], o.get("err"), sorted(allowed), hist), rp)
            continue
        got = o["hdr"]
        if hdrkind == "new":
            okh = got.startswith("new:")
        elif hdrkind == "same":
            okh = got == h["s"]
        elif hdrkind == "none":
            okh = got == "none"
        else:
            okh = got in (h["s"], "none")
        if not okh:
            run.diverge(key + " session-header", "%s: Mcp-Session-Id is %s, must be %s; history: %s" % (st["op"], got, hdrkind, hist), rp)
        if cfg["mode"] == "stateful":
            if o["active"] != sorted(succ["live"]):
                run.diverge(key + " active-sessions", "after %s the server reports sessions %s, the history leaves %s alive; history: %s"
                            % (st["op"], o["active"], sorted(succ["live"]), hist), rp)
        elif o["active"]:
            run.diverge(key + " active-sessions", "a %s server reports sessions %s" % (cfg["mode"], o["active"]), rp)
        if name == "Delete" and args[3] != "-":
            if o.get("ended") is not True:
                run.diverge(key + " stream-not-ended", "DELETE of %s did not end its open listening stream; history: %s" % (args[3], hist), rp)
        if cfg["mode"] != "stateful" and st["op"] == "req" and o["status"] == 200:
            bk = (json.dumps(cfg, sort_keys=True), st["variant"] % 4, st["sse"])
            body = normalise_body(o.get("body", ""))
            if bk in bodies and bodies[bk] != body:
                run.diverge(key + " history-dependent", "the same request got a different answer later: %r vs %r" % (bodies[bk][:200], body[:200]), rp)
            bodies.setdefault(bk, body)
        if h["cls"] in ("deleted", "never") or name in ("Delete", "Get") or hdrkind == "new":
            strict = True
    return strict


def normalise_body(b):
    """event ids vary, and the order of listed items is not part of any statement"""
    import re
    b = re.sub(r"id: evt-[0-9]+-[0-9]+", "id: evt", b)
    out = []
    for line in b.split("\n"):
        prefix, payload = ("data: ", line[6:]) if line.startswith("data: ") else ("", line)
        try:
            m = json.loads(payload)
            res = m.get("result") if isinstance(m, dict) else None
            if isinstance(res, dict):
                for key, by in (("tools", "name"), ("prompts", "name"), ("resources", "uri")):
                    if isinstance(res.get(key), list):
                        res[key] = sorted(res[key], key=lambda x: json.dumps(x.get(by) if isinstance(x, dict) else x))
            line = prefix + json.dumps(m, sort_keys=True)
        except ValueError:
            pass
        out.append(line)
    return "\n".join(out)


def check_ids(run, ids):
    if not ids:
        return
    rp = {"issued_ids_sample": ids[:20]}
    for i in ids:
        if len(i) < 22 or any(not (0x21 <= ord(c) <= 0x7e) for c in i):
            run.diverge("session-id format", "issued id %r is not >= 128 bits of visible ASCII" % i, rp)
            return
    if len(set(ids)) != len(ids):
        run.diverge("session-id duplicate", "an id was issued twice among %d ids" % len(ids), rp)
        return
    n = min(len(i) for i in ids)
    alphabet = {c for i in ids for c in i[:n]}
    if len(ids) >= 20 * len(alphabet):
        # an upper bound of the entropy an id carries: a character position at which only d of the alphabet's symbols ever
        # appear over that many ids carries at most log2(d) bits (with >= 20 ids per symbol a symbol missing by chance is out of the question)
        import math
        per = [len({i[p] for i in ids}) for p in range(n)]
        bits = sum(math.log2(d) for d in per)
        if bits < 128:
            short = {p: per[p] for p in range(n) if per[p] < len(alphabet)}
            run.diverge("session-id entropy-below-128-bits", "over %d ids the character positions carry at most %.1f bits: positions with fewer symbols than the alphabet's %d: %s; e.g. %s"
                        % (len(ids), bits, len(alphabet), short, ids[:3]), rp)
            return
    if len(ids) >= 20:
        poor = [p for p in range(n) if len({i[p] for i in ids}) < 3]
        if len(poor) > n // 4:
            run.diverge("session-id low-diversity", "%d of %d character positions (almost) never vary over %d ids, e.g. %s"
                        % (len(poor), n, len(ids), ids[:3]), rp)


def trace_of(cfg, g, path, steps, res):
    """observation log of one walk for TraceSession: one event per step."""
    ev = [{"e": "cfg", "mode": cfg["mode"], "get": bool(cfg["get"])}]
    for k, ei in enumerate(path):
        _, _, name, args = g.edges[ei]
        st = steps[k]
        if name == "StreamClose":
            ev.append({"e": "sclose", "s": st["s"]})
            continue
        o = res["obs"][k]
        hdr = o["hdr"]
        if hdr.startswith("new:"):
            hdr = "new"
        elif hdr.startswith("other:"):
            hdr = "other"
        e = {"e": st["op"], "cls": st["cls"], "s": st["s"], "status": int(o["status"]), "hdr": hdr, "active": o["active"]}
        if name == "Delete":
            e["ended"] = bool(o.get("ended")) if o.get("ended") is not None else False
        ev.append(e)
    return ev


def run(tier, replay=None):
    run_ = common.Run(PROP, "model_checking", tier)
    rnd = random.Random(common.seed())
    if replay:
        doc = json.load(open(replay))
        print(json.dumps(common.run_harness_json(doc["replay"]["cmd"], doc["replay"]["input"]), indent=1)[:6000])
        return 0
    tla.sany("SessionLifecycle")
    tla.sany("TraceSession")
    ns = 2 if tier == "quick" else 3
    r = tla.run_tlc("SessionLifecycle", "Session_expiry.cfg")
    if not r.ok:
        raise common.Broken("SessionLifecycle (expiry) violates %s" % r.violation)
    run_.add_tlc(r)
    jobs = []
    graphs = {}
    for mode in ("stateful", "stateless", "nosession"):
        for get in (True, False):
            cfgname = "Session_%s_%s_%d.cfg" % (mode, "T" if get else "F", ns)
            r = tla.run_tlc("SessionLifecycle", cfgname, dump=True)
            if not r.ok:
                raise common.Broken("%s violates %s" % (cfgname, r.violation))
            run_.add_tlc(r)
            g = r.graph
            graphs[(mode, get)] = g
            for postsse in (True, False):
                cfg = {"mode": mode, "get": get, "postsse": postsse, "mw": not postsse}
                paths = graphwalk.edge_cover_paths(g, max_len=30, rnd=rnd)
                if tier == "thorough":
                    paths += graphwalk.random_walks(g, 200 if mode == "stateful" else 20, 40, rnd)
                plist = []
                for n, p in enumerate(paths):
                    plist.append({"id": "%s-%s-%s-%d" % (mode[:4], get, postsse, n), "path": p, "steps": steps_of(g, p, rnd, mode == "stateful")})
                jobs.append((cfg, plist))
            if mode == "stateful" and get:
                # the same kind of walks, all at once on ONE server (concurrent sessions)
                cfg = {"mode": mode, "get": get, "postsse": True, "shared": True}
                walks = graphwalk.random_walks(g, 8 if tier == "quick" else 24, 30, rnd)
                plist = [{"id": "conc-%d" % n, "path": p, "steps": steps_of(g, p, rnd)} for n, p in enumerate(walks)]
                for _ in range(2 if tier == "quick" else 6):
                    jobs.append((cfg, plist))

    def one(job):
        cfg, plist = job
        out = common.run_harness_json(["c04"], {"config": {k: v for k, v in cfg.items() if k != "shared"}, "shared": bool(cfg.get("shared")),
                                                "paths": [{"id": p["id"], "steps": p["steps"]} for p in plist]},
                                      timeout=900, crash_ok=True)
        return job, out

    issued = []
    bodies = {}
    items = []
    rps = {}
    with ThreadPoolExecutor(max_workers=12) as ex:
        for (cfg, plist), out in ex.map(one, jobs):
            if "_crash" in out:
                run_.diverge("mode=%s get=%s process-crash" % (cfg["mode"], cfg["get"]), "server process crashed: %s" % out["_crash"][:1200],
                             {"cmd": ["c04"], "input": {"config": cfg, "paths": [{"id": p["id"], "steps": p["steps"]} for p in plist]}})
                continue
            g = graphs[(cfg["mode"], cfg["get"])]
            byid = {r["id"]: r for r in out["results"]}
            for p in plist:
                res = byid[p["id"]]
                if res.get("broken"):
                    raise common.Broken("walk %s: %s" % (p["id"], res["broken"]))
                run_.evaluations += 1
                strict = judge_path(run_, cfg, g, p["path"], p["steps"], res, bodies)
                if strict:
                    run_.nontriv([cfg, [(s["op"], s["cls"], s["s"]) for s in p["steps"]]])
                issued += res.get("issued") or []
                items.append((p["id"], trace_of(cfg, g, p["path"], p["steps"], res)))
                rps[p["id"]] = {"cmd": ["c04"], "input": {"config": cfg, "paths": [{"id": p["id"], "steps": p["steps"]}]}}
                if len(run_.samples) < 2 and cfg["mode"] == "stateful" and len(p["steps"]) > 6:
                    run_.sample({"config": cfg, "steps": p["steps"][:12], "observed": res["obs"][:12]})
    # enough ids for the per-position entropy bound (>= 20 per symbol of the alphabet), issued by one server
    hv = common.run_harness_json(["c04"], {"harvest": 1500}, timeout=300)
    if len(hv["ids"]) < 1500:
        raise common.Broken("only %d of 1500 initialize requests were answered with a session id" % len(hv["ids"]))
    issued += hv["ids"]
    check_ids(run_, issued)
    rej = {}
    for mode in ("stateful", "stateless", "nosession"):
        for get in (True, False):
            sub = [(tid, ev) for tid, ev in items if ev[0]["mode"] == mode and ev[0]["get"] == get]
            rej.update(tracebatch.validate(run_, "TraceSession", "TraceSession_%s_%s.cfg" % (mode, "T" if get else "F"), sub))
    had = bool(run_.violations) or bool(run_.known_hit)
    for tid, (pos, line) in rej.items():
        if not had:
            raise common.Broken("TLC rejects walk %s at %s although the edge-label comparison accepted it" % (tid, line))
        run_.diverge("trace-rejected op=%s" % line.get("e"), "TLC rejects the observation log of walk %s at step %d: %s" % (tid, pos, json.dumps(line)), rps[tid])
    run_.exhaustive = True
    run_.extra["issued_ids"] = len(issued)
    run_.extra["configurations"] = len(jobs)
    run_.rule = ("walks = edge cover of the SessionLifecycle state graph (every operation x header class x state) for each of 12 "
                 "configurations (+ random walks in the thorough tier); non-trivial = walks containing a request with a deleted / "
                 "never-issued id, a GET, a DELETE or a session issue")
    run_.assumptions = ["the entropy SOURCE of session ids is not observable; format, length, uniqueness and a per-position upper bound of the entropy (sum of log2 of the symbols seen at each position, >= 20 ids per symbol) are",
                        "the 1-hour expiry sweep is modelled as an environment action (TLC only), not bound"]
    return run_.finish()
