"""C19 - client-side customisation applies to every outbound HTTP request.

1. TLC: Customise.tla for the Streamable and the legacy SSE client: for every configuration {static headers,
   before-request function none / ok / failing for one request kind, custom request handler, custom path} and
   every call history (handshake, calls, notifications, server-issued requests and their answers, session
   termination) every request on the wire goes to the configured path through the configured handler with all
   static headers, the session id once issued, exactly one pass through the before-request function with the
   right context values; nothing is sent when that function fails.  The as-built code paths that forgot the
   function / handler / path yield counterexamples (self-tests).
2. Binding A: the state graph is dumped; per configuration (= initial state) an edge cover of the histories
   (thorough: every maximal history) is replayed on the real client against a recording reference server,
   a recording request handler and a recording before-request function.
3. Binding B: per operation, its result and the records of the requests the server received are validated by
   TLC against TraceCustomise - the operation must be enabled and put exactly these records on the wire."""
import json
import random
from concurrent.futures import ThreadPoolExecutor

from vlib import common, tla, tracebatch, graphwalk

PROP = "C19"
OPNAME = {"Initialize": "initialize", "Call": "call", "Notify": "notify", "ServerAsks": "serverasks", "Terminate": "terminate",
          "ServerAsksOther": "serverasksother", "TerminateRefused": "terminaterefused"}


def reachable_edges(g, init):
    seen, stack, edges = {init}, [init], set()
    while stack:
        n = stack.pop()
        for i in g.out.get(n, []):
            edges.add(i)
            d = g.edges[i][1]
            if d not in seen:
                seen.add(d)
                stack.append(d)
    return edges


def all_histories(g, init, limit=None):
    """every maximal path from init (the component is a small DAG)"""
    out, stack = [], [(init, [])]
    while stack:
        n, p = stack.pop()
        outs = g.out.get(n, [])
        if not outs:
            if p:
                out.append(p)
            continue
        for i in outs:
            stack.append((g.edges[i][1], p + [i]))
    return out


def run(tier, replay=None):
    run_ = common.Run(PROP, "model_checking", tier)
    rnd = random.Random(common.seed())
    if replay:
        doc = json.load(open(replay))
        print(json.dumps(common.run_harness_json(doc["replay"]["cmd"], doc["replay"]["input"], crash_ok=True), indent=1)[:8000])
        return 0
    tla.sany("Customise"); tla.sany("TraceCustomise")
    for c in ("Customise_bug_asbuilt.cfg", "Customise_bug_legacy.cfg"):
        b = tla.run_tlc("Customise", c)
        if b.ok or b.violation != "Customised":
            raise common.Broken("self-test %s should violate Customised" % c)
        run_.add_tlc(b)
    scen = []
    expected = {}
    for client in ("streamable", "legacy"):
        g = tla.run_tlc("Customise", "Customise_%s.cfg" % client, dump=True)
        if not g.ok:
            raise common.Broken("Customise_%s violates %s" % (client, g.violation))
        run_.add_tlc(g)
        gr = g.graph
        inits = list(gr.init)
        for init in inits:
            st = gr.nodes[init]
            cfg = {"hdr": st["hdr"], "before": st["before"], "errAt": st["errAt"], "handler": st["handler"], "path": st["path"], "getsse": st["getsse"], "latesid": st["latesid"]}
            if tier == "thorough":
                paths = all_histories(gr, init)
            else:
                want = reachable_edges(gr, init)
                comp = {gr.edges[i][0] for i in want}
                saved = gr.init
                gr.init = [init]
                try:
                    paths = graphwalk.edge_cover_paths(gr, max_len=8, edge_filter=lambda e, c=comp: e[0] in c, rnd=rnd)
                finally:
                    gr.init = saved
                # quick tier: of this edge cover keep histories that together take every operation enabled in the
                # component (longest first), plus one drawn at random
                names = {gr.edges[i][2] for i in want}
                keep, have = [], set()
                for p_ in sorted(paths, key=len, reverse=True):
                    new_ = {gr.edges[i][2] for i in p_} - have
                    if new_:
                        keep.append(p_)
                        have |= new_
                    if have == names:
                        break
                rest = [p_ for p_ in paths if p_ not in keep]
                if rest:
                    keep.append(rnd.choice(rest))
                paths = keep
            for k, p in enumerate(paths):
                sid = "%s-%s-%d" % (client, init, k)
                ops = [OPNAME[gr.edges[i][2]] for i in p]
                # driver variations that the statement quantifies over but the model does not distinguish: the static headers come
                # from one option or from two, and the configured URL carries a query string or none
                scen.append({"id": sid, "client": client, "cfg": cfg, "ops": ops, "split": len(scen) % 2 == 1, "query": len(scen) % 3 != 0})
                expected[sid] = [(gr.nodes[gr.edges[i][1]]["res"], gr.nodes[gr.edges[i][1]]["wire"]) for i in p]
    # with retries configured every ATTEMPT is an outbound request of its own (outside the model: judged directly below)
    for client in ("streamable", "legacy"):
        for handler in (True, False):
            sid = "retry-%s-%s" % (client, handler)
            scen.append({"id": sid, "client": client, "ops": ["initialize", "call", "call"], "split": handler, "query": False, "retry": True,
                         "cfg": {"hdr": True, "before": "ok", "errAt": "-", "handler": handler, "path": False, "getsse": False, "latesid": False}})
    rnd.shuffle(scen)
    nproc = 12
    chunks = [scen[i::nproc] for i in range(nproc)]

    def one(ch):
        if not ch:
            return []
        out = common.run_harness_json(["c19"], {"scenarios": ch}, timeout=1500, crash_ok=True)
        if "_crash" not in out:
            return out["results"]
        res = []
        for s in ch:
            o = common.run_harness_json(["c19"], {"scenarios": [s]}, timeout=120, crash_ok=True)
            res.append({"id": s["id"], "_crash": o["_crash"]} if "_crash" in o else o["results"][0])
        return res

    byid = {s["id"]: s for s in scen}
    items = {"streamable": [], "legacy": []}
    rps = {}
    with ThreadPoolExecutor(max_workers=nproc) as ex:
        for res in ex.map(one, chunks):
            for r in res:
                sc = byid[r["id"]]
                run_.evaluations += 1
                rp = {"cmd": ["c19"], "input": {"scenarios": [sc]}, "observed": r, "spec": "Customise / TraceCustomise"}
                if "_crash" in r:
                    run_.diverge("client=%s process-crash" % sc["client"], "the client process died: %s" % r["_crash"][:1200], rp)
                    continue
                if r.get("broken"):
                    raise common.Broken("scenario %s: %s" % (r["id"], r["broken"]))
                if sc.get("retry"):
                    # every attempt passes through the configured customisation exactly as a first attempt does
                    run_.nontriv(["retry", sc["id"]])
                    total = sum(len(o["reqs"]) for o in r["ops"])
                    if r.get("before_calls") != total:
                        run_.diverge("client=%s retry before-function-calls" % sc["client"],
                                     "with retries configured %d requests reached the server, the before-request function was called %s times (once per request)"
                                     % (total, r.get("before_calls")), rp)
                    for o in r["ops"]:
                        if o["op"] != "call":
                            continue
                        reqs = [q for q in o["reqs"] if q["kind"] == "request"]
                        bad = [q for q in reqs if not (q["nb"] == 1 and q["hdr"] and q["path"] and q["sid"] and q["via"] == sc["cfg"]["handler"] and q["ctx"] == "op")]
                        if o["res"] != "ok" or len(reqs) < 2 or bad:
                            run_.diverge("client=%s retry attempt-not-customised" % sc["client"],
                                         "with retries configured and the first attempt answered 503 the call ended %r with %d attempts on the wire; attempts that did not pass "
                                         "through the configuration as a first attempt does: %s" % (o["res"], len(reqs), [q.get("raw") for q in bad][:3]), rp)
                    continue
                ev = [dict(e="cfg", **sc["cfg"])]
                for o in r["ops"]:
                    ev.append({"e": "op", "op": o["op"], "res": o["res"], "reqs": [{k: v for k, v in q.items() if k != "raw"} for q in o["reqs"]]})
                items[sc["client"]].append((r["id"], ev))
                rps[r["id"]] = (rp, sc, r)
                run_.nontriv([sc["client"], json.dumps(sc["cfg"], sort_keys=True), sc["ops"]])
                if len(run_.samples) < 3 and "serverasks" in sc["ops"] and sc["cfg"]["before"] == "ok":
                    run_.sample({"scenario": sc, "log": ev})
    for client in ("streamable", "legacy"):
        rej = tracebatch.validate(run_, "TraceCustomise", "TraceCustomise_%s.cfg" % client, items[client], max_rejections=30)
        for tid, (pos, line) in rej.items():
            rp, sc, r = rps[tid]
            k = pos - 1
            exp = expected[tid][k] if 0 <= k < len(expected[tid]) else None
            o = r["ops"][k] if 0 <= k < len(r["ops"]) else {}
            # name the request kind that deviates, for a stable key
            kinds = sorted({q["kind"] for q in o.get("reqs", [])})
            what = "op=%s" % line.get("op")
            if exp is not None:
                want = {json.dumps(w, sort_keys=True) for w in exp[1]}
                got = {json.dumps({kk: vv for kk, vv in q.items() if kk != "raw"}, sort_keys=True) for q in o.get("reqs", [])}
                bad = sorted({json.loads(x)["kind"] for x in (want ^ got)})
                if bad:
                    what += " kind=" + "+".join(bad)
                elif exp[0] != o.get("res"):
                    what += " result=%s" % o.get("res")
            run_.diverge("client=%s %s" % (sc["client"], what),
                         "history %s with configuration %s: operation %d (%s) ended %r %s and put %s on the wire; the model expects result %r and %s"
                         % (sc["ops"], sc["cfg"], k + 1, line.get("op"), o.get("res"), o.get("err", "")[:120], [q.get("raw") for q in o.get("reqs", [])],
                            exp[0] if exp else None, exp[1] if exp else None), rp)
    run_.exhaustive = tier == "thorough"
    run_.rule = ("histories = per configuration (initial state of Customise: headers x before-function {none, ok, failing at one kind} x handler x path) "
                 "an edge cover of its call histories (thorough: every maximal history up to 4 operations), on the Streamable and the legacy SSE client; "
                 "every history is non-trivial (each emits several request kinds); distinct = distinct (client, configuration, history)")
    run_.assumptions = ["the library offers no option to replace the http.Client: that dimension of the statement's configuration space is unreachable",
                        "the legacy SSE client has no session header and no DELETE: its session id is the sessionId query parameter of the message endpoint",
                        "background requests (listening stream, answers to server requests, legacy connect) must see the handshake's context values"]
    return run_.finish()
