"""C03 - every emitted message is a well-formed JSON-RPC 2.0 / MCP message.

1. TLC: Core.tla enumerates the request classes (method x parameter class x id kind x handler outcome)
   with the reactions the property admits (NeverEmpty, StrictWhereStated).
2. Binding A: every class is concretised to bytes and sent by the raw reference peer to every server kind
   and mode (Streamable JSON / SSE / stateless / sessions disabled, legacy SSE, stdio), together with
   envelope-level mutations (field removed / retyped / duplicated), wrong paths and unparsable bodies.
3. Binding B: every exchange (status + every frame, re-encoded as tagged trees) is validated by TLC
   against TraceWellFormed, i.e. against the message grammar MsgGrammar.tla written from the protocol
   documents and the reaction set from Core.tla."""
import json
import random

from vlib import common, tla, tracebatch
from checks import rpccommon as rc

PROP = "C03"
REFUSE = ["rpc:any", "http4xx", "http5xx"]


def envelope_items():
    """structural mutations of the envelope of a valid tools/call; (id, body, method-for-shape, expect, reqid, isreq)"""
    good = '{"jsonrpc":"2.0","id":41,"method":"tools/call","params":{"name":"echo","arguments":{"nonce":"e"}}}'
    out = []

    def add(name, body, expect, reqid=41, isreq=True, **kw):
        out.append(dict(id="env-" + name, body=body, method="tools/call", expect=expect, reqid=reqid, isreq=isreq, **kw))
    served = ["result"] + REFUSE
    add("jsonrpc-missing", '{"id":41,"method":"tools/call","params":{"name":"echo","arguments":{"nonce":"e"}}}', served)
    add("jsonrpc-1.0", good.replace('"2.0"', '"1.0"'), served)
    add("jsonrpc-number", good.replace('"2.0"', '2'), served)
    add("id-missing", good.replace('"id":41,', ''), ["none"] + REFUSE, reqid="__none__", isreq=False)
    add("id-null", good.replace('"id":41', '"id":null'), ["none"] + served, reqid=None, isreq=False)
    add("id-object", good.replace('"id":41', '"id":{"a":1}'), served + ["none"], reqid=rc.Dup([("a", 1)]))
    add("id-array", good.replace('"id":41', '"id":[1]'), served + ["none"], reqid=[1])
    add("id-bool", good.replace('"id":41', '"id":true'), served + ["none"], reqid=True)
    add("method-missing", good.replace('"method":"tools/call",', ''), ["none"] + REFUSE, isreq=False)
    add("method-number", good.replace('"method":"tools/call"', '"method":5'), REFUSE)
    add("method-null", good.replace('"method":"tools/call"', '"method":null'), ["none"] + REFUSE, isreq=False)
    add("method-empty", good.replace('"method":"tools/call"', '"method":""'), ["none", "rpc:-32601", "rpc:-32600"] + REFUSE, isreq=False)
    add("dup-id", good.replace('"id":41', '"id":40,"id":41'), served)
    add("dup-method", good.replace('"method":"tools/call"', '"method":"ping","method":"tools/call"'), served)
    add("extra-field", good.replace('"id":41', '"id":41,"extra":{"x":[1,2]}'), ["result"])
    add("array-body", '[' + good + ']', REFUSE + ["result"])
    add("not-json", 'this is not json', ["rpc:-32700", "http4xx"], reqid="__none__")
    add("truncated", good[:40], ["rpc:-32700", "http4xx"], reqid="__none__")
    # objects that are no JSON-RPC message at all (neither id nor method): never accepted as if they were a notification
    # (on stdio and legacy SSE, where nothing can be addressed, silence is admitted - see below)
    add("empty-object", '{}', REFUSE, reqid="__none__", isreq=False)
    add("envelope-only", '{"jsonrpc":"2.0"}', REFUSE, reqid="__none__", isreq=False)
    add("id-null-only", '{"jsonrpc":"2.0","id":null}', REFUSE, reqid="__none__", isreq=False)
    add("json-string", '"hello"', REFUSE, reqid="__none__")
    add("json-number", '42', REFUSE, reqid="__none__")
    add("notification-unknown", '{"jsonrpc":"2.0","method":"notifications/verif-unknown"}', ["none"] + REFUSE, reqid="__none__", isreq=False)
    add("wrong-path", good, ["http4xx", "http5xx"], path="/wrong/path", http_only=True)
    add("wrong-path-notification", '{"jsonrpc":"2.0","method":"notifications/initialized"}', ["http4xx", "http5xx"], path="/elsewhere", http_only=True, reqid="__none__")
    return out


def run(tier, replay=None):
    run_ = common.Run(PROP, "exploration", tier)
    rnd = random.Random(common.seed())
    if replay:
        doc = json.load(open(replay))
        print(json.dumps(common.run_harness_json(doc["replay"]["cmd"], doc["replay"]["input"], crash_ok=True), indent=1)[:6000])
        return 0
    tla.sany("Core"); tla.sany("MsgGrammar"); tla.sany("TraceWellFormed")
    core = tla.run_tlc("Core", "Core.cfg", dump=True)
    if not core.ok:
        raise common.Broken("Core violates %s" % core.violation)
    classes = sorted(((st["m"], st["pc"], st["idk"], sorted(st["expect"])) for st in core.graph.nodes.values()))
    env = envelope_items()
    jobs, metas = [], []
    for kind in rc.KINDS:
        items, meta = [], []
        for n, (m, pc, idk, expect) in enumerate(classes):
            # thorough: three ids per kind (small, >= 10^6, near 2^53; plain, Unicode, long)
            idvs = [41 + n] if idk == "int" else ["req-%d" % n]
            if tier == "thorough":
                idvs += [1000000 + n, 9007199254740000 + n] if idk == "int" else ["é-😀-%d" % n, "x" * 300 + str(n)]
            for v, idv in enumerate(idvs):
                body, errmsg, iserr = rc.body_for(m, pc, idv)
                items.append({"id": "c%d_%d" % (n, v), "body": body, "sse": kind == "sse", "expect_answer": True})
                meta.append(dict(method=m, pc=pc, expect=expect, reqid=idv, isreq=True, errmsg=errmsg, iserr=iserr, body=body))
        for e in env:
            if e.get("http_only") and kind == "stdio":
                continue
            it = {"id": e["id"], "body": e["body"], "sse": kind == "sse", "expect_answer": bool(e["isreq"] and "none" not in e["expect"])}
            if e.get("path"):
                if kind == "legacy":
                    it["path"] = e["path"] + "?sessionId=x"
                else:
                    it["path"] = e["path"]
            items.append(it)
            exp = list(e["expect"])
            if kind in ("stdio", "legacy") and "none" not in exp and not e["isreq"]:
                exp.append("none")
            meta.append(dict(method=e["method"], pc=e["id"], expect=exp, reqid=e["reqid"], isreq=e["isreq"], errmsg="", iserr=False, body=e["body"]))
        jobs.append((kind, items, "rich"))
        metas.append(meta)
        # the same list requests on a server with nothing registered: empty lists are arrays, not null
        items2, meta2 = [], []
        for n, (m, pc, idk, expect) in enumerate(classes):
            if not (m.endswith("/list") and pc == "ok" and idk == "int"):
                continue
            idv = 900 + n
            body, errmsg, iserr = rc.body_for(m, pc, idv)
            items2.append({"id": "e%d" % n, "body": body, "sse": kind == "sse", "expect_answer": True})
            meta2.append(dict(method=m, pc="empty-registry", expect=sorted(set(expect) | {"rpc:-32601"}), reqid=idv, isreq=True, errmsg=errmsg, iserr=iserr, body=body))
        jobs.append((kind, items2, "empty"))
        metas.append(meta2)
    outs = rc.run_probes(jobs)
    batches = {}
    info = {}
    for (kind, items, regset), meta, out in zip(jobs, metas, outs):
        if "_crash" in out:
            run_.diverge("kind=%s process-crash" % kind, "the server process crashed: %s" % out["_crash"][:1500], {"cmd": ["rpcprobe"], "input": {"kind": kind, "set": regset, "items": items}})
            continue
        for it, mt, obs in zip(items, meta, out["obs"]):
            run_.evaluations += 1
            expect = mt["expect"]
            if kind in ("stdio",):
                expect = [e for e in expect if not e.startswith("http")] or ["rpc:any"]
            ev = rc.event_for(kind, mt["method"], expect, mt["reqid"], mt["isreq"], obs, mt["errmsg"], mt["iserr"])
            tid = "%s|%s|%s|%s" % (kind, mt["method"], mt["pc"], it["id"])
            batches.setdefault((kind,), []).append((tid, [ev]))
            info[tid] = (kind, mt, obs, it, regset)
            run_.nontriv([kind, mt["method"], mt["pc"], type(mt["reqid"]).__name__])
            if len(run_.samples) < 3 and mt["pc"] in ("h:error", "keyNumber", "env-dup-id"):
                run_.sample({"kind": kind, "request": mt["body"], "expected_reactions": expect, "status": obs["status"], "frames": obs["frames"][:2]})
    for key in sorted(batches):
        rej = tracebatch.validate(run_, "TraceWellFormed", "TraceWellFormed.cfg", batches[key], max_rejections=8)
        for tid, (pos, line) in rej.items():
            kind, mt, obs, it, regset = info[tid]
            run_.diverge("kind=%s method=%s class=%s got=%s" % (kind, mt["method"], mt["pc"], rc.summarise(obs).split(" result=")[0][:60]),
                         "request %s on %s: admitted reactions %s, observed %s" % (mt["body"][:200], kind, mt["expect"], rc.summarise(obs)),
                         {"cmd": ["rpcprobe"], "input": {"kind": kind, "set": regset, "items": [it]}, "expected": mt["expect"], "observed": obs, "spec": "Core / MsgGrammar / TraceWellFormed"})
    run_.states, run_.transitions = run_.states + core.distinct, run_.transitions + core.generated
    run_.extra["tlc_states"] = run_.states
    run_.extra["traces_validated_against_impl"] = run_.traces
    run_.rule = ("cases = Core's request classes (%d: 9 methods x parameter classes x id kinds x handler outcomes) + %d envelope / path / syntax "
                 "mutations, each on 6 server kinds; distinct non-trivial = distinct (kind, method, class, id kind)" % (len(classes), len(env)))
    run_.assumptions = ["conformance is to the hand-written grammar MsgGrammar.tla (subset of MCP 2025-03-26 the library uses)",
                        "where the statement is silent (version-less envelopes, odd id types, list methods with junk params) serving or refusing are both admitted"]
    return run_.finish()
