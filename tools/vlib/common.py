"""Shared orchestration helpers: harness build, evidence, known findings, verdict printing."""
import hashlib
import json
import os
import subprocess
import sys
import time

VERIF = os.path.dirname(os.path.dirname(os.path.dirname(os.path.abspath(__file__))))
REPO = os.environ.get("VERIF_REPO", "/repo")
BUILD = os.path.join(VERIF, ".build")
HARNESS = os.path.join(VERIF, "harness")

GOENV = dict(os.environ, GOFLAGS="-mod=mod", GOPROXY="off", GOSUMDB="off", GOTOOLCHAIN="local",
             CGO_ENABLED="0")


class Broken(Exception):
    """The check itself could not run (exit 2) - never a violation."""


def seed():
    try:
        return int(os.environ.get("VERIF_SEED", "1"))
    except ValueError:
        return 1


def build_harness():
    """(Re)build the Go harness against /repo's current working tree with the verif tag."""
    os.makedirs(BUILD, exist_ok=True)
    # go.sum of the harness mirrors the repository's
    try:
        with open(os.path.join(REPO, "go.sum")) as f:
            data = f.read()
        with open(os.path.join(HARNESS, "go.sum"), "w") as f:
            f.write(data)
    except OSError:
        pass
    out = os.path.join(BUILD, "mcpdrive")
    env = dict(GOENV)
    cmd = ["go", "build", "-tags", "verif", "-o", out, "./cmd/mcpdrive"]
    if REPO != "/repo":
        # alternate repository location (mutant scratch copies): use a go.work-less replace override
        cmd = ["go", "build", "-tags", "verif", "-modfile", _alt_modfile(), "-o", out, "./cmd/mcpdrive"]
    p = subprocess.run(cmd, cwd=HARNESS, env=env, stdout=subprocess.PIPE, stderr=subprocess.STDOUT, text=True)
    if p.returncode != 0:
        raise Broken("harness build failed:\n" + p.stdout[-4000:])
    return out


def _alt_modfile():
    src = open(os.path.join(HARNESS, "go.mod")).read().replace("=> /repo", "=> " + REPO)
    path = os.path.join(BUILD, "alt.mod")
    with open(path, "w") as f:
        f.write(src)
    sumsrc = os.path.join(HARNESS, "go.sum")
    if os.path.exists(sumsrc):
        with open(os.path.join(BUILD, "alt.sum"), "w") as f:
            f.write(open(sumsrc).read())
    return path


def run_harness(args, *, stdin=None, timeout=600, env=None, check=True):
    exe = os.path.join(BUILD, "mcpdrive")
    e = dict(os.environ)
    if env:
        e.update(env)
    try:
        p = subprocess.run([exe] + list(args), input=stdin, stdout=subprocess.PIPE, stderr=subprocess.PIPE,
                           timeout=timeout, text=True, env=e)
    except subprocess.TimeoutExpired:
        raise Broken("harness timeout: %s" % " ".join(args))
    if check and p.returncode != 0:
        raise Broken("harness %s failed rc=%s\nstderr:\n%s" % (" ".join(args), p.returncode, p.stderr[-4000:]))
    return p


def crash_text(stderr):
    """Text of a Go panic / fatal error of the harness process, if its stderr shows one."""
    for marker in ("panic: ", "fatal error: ", "[signal SIG"):
        i = stderr.find(marker)
        if i >= 0:
            return stderr[i:i + 3000]
    return None


def run_harness_json(args, payload, crash_ok=False, **kw):
    """Send a JSON document on stdin, parse the JSON document printed on stdout.  With crash_ok a
    process that died with a Go panic / fatal error is reported as {"_crash": text} (the real code
    crashed under the workload) instead of a broken check."""
    if crash_ok:
        p = run_harness(args, stdin=json.dumps(payload), check=False, **kw)
        if p.returncode != 0:
            ct = crash_text(p.stderr)
            if ct and "/repo/" in p.stderr:
                return {"_crash": ct}
            raise Broken("harness %s failed rc=%s\nstderr:\n%s" % (" ".join(args), p.returncode, p.stderr[-4000:]))
    else:
        p = run_harness(args, stdin=json.dumps(payload), **kw)
    try:
        return json.loads(p.stdout)
    except ValueError:
        raise Broken("harness %s printed no JSON: %r / %r" % (args, p.stdout[-2000:], p.stderr[-2000:]))


# --------------------------------------------------------------------------- known findings

def load_findings():
    path = os.path.join(VERIF, "known_findings.json")
    if not os.path.exists(path):
        return {"known": [], "fixed": []}
    with open(path) as f:
        return json.load(f)


def known_keys(prop):
    return {k["key"]: k for k in load_findings().get("known", []) if k["property"] == prop}


# --------------------------------------------------------------------------- result collection

class Run:
    """Collects what one invocation of a check covered and found."""

    def __init__(self, prop, level, tier):
        self.prop = prop
        self.level = level
        self.tier = tier
        self.t0 = time.time()
        self.states = 0
        self.transitions = 0
        self.traces = 0
        self.evaluations = 0
        self.nontrivial = set()
        self.samples = []
        self.violations = []      # (key, description, replay dict)
        self.known_hit = {}
        self.extra = {}
        self.assumptions = []
        self.rule = ""
        self.exhaustive = None
        self._known = known_keys(prop)

    def add_tlc(self, r):
        self.states += r.distinct
        self.transitions += r.generated

    def sample(self, x, limit=6):
        if len(self.samples) < limit:
            self.samples.append(x)

    def nontriv(self, obj):
        self.nontrivial.add(hashlib.sha1(json.dumps(obj, sort_keys=True, default=str).encode()).hexdigest())

    def diverge(self, key, desc, replay):
        """A divergence of the real code from the specification. `key` identifies the specific failing
        input / call site / history; listed keys are known findings, anything else is a violation."""
        if key in self._known:
            self.known_hit.setdefault(key, desc)
            return
        self.violations.append((key, desc, replay))

    def finish(self):
        wall = time.time() - self.t0
        cov = {
            "evaluations": int(self.evaluations),
            "distinct_nontrivial": len(self.nontrivial),
            "rule": self.rule,
            "samples": self.samples or ["(none)"],
        }
        if self.level == "model_checking":
            cov.update({"states": int(self.states), "transitions": int(self.transitions),
                        "traces_validated_against_impl": int(self.traces)})
        if self.exhaustive is not None:
            cov["exhaustive"] = bool(self.exhaustive)
        cov["known_findings_hit"] = sorted(self.known_hit)
        cov.update(self.extra)
        ev = {
            "property_id": self.prop, "tier": self.tier, "seed": seed(), "level": self.level,
            "coverage": cov, "assumptions": self.assumptions, "wall_s": round(wall, 2),
            "violations": len(self.violations),
        }
        os.makedirs(os.path.join(VERIF, "evidence"), exist_ok=True)
        with open(os.path.join(VERIF, "evidence", self.prop + ".json"), "w") as f:
            json.dump(ev, f, indent=1, default=str)
        for key, desc in sorted(self.known_hit.items()):
            print("KNOWN-FINDING: property=%s %s -- %s" % (self.prop, key, desc.splitlines()[0][:300]))
        if self.violations:
            rdir = os.path.join(VERIF, "replays", self.prop)
            os.makedirs(rdir, exist_ok=True)
            seen = set()
            for n, (key, desc, replay) in enumerate(self.violations):
                if key in seen:
                    continue
                seen.add(key)
                path = os.path.join(rdir, "%s-%d-%d.json" % (self.tier, seed(), n))
                with open(path, "w") as f:
                    json.dump({"property": self.prop, "key": key, "description": desc, "replay": replay},
                              f, indent=1, default=str)
                print("VIOLATION property=%s replay=%s" % (self.prop, path))
                print("  key=%s :: %s" % (key, desc[:600]))
            return 1
        print("OK property=%s tier=%s states=%d traces=%d evaluations=%d nontrivial=%d wall=%.1fs" % (
            self.prop, self.tier, self.states, self.traces, self.evaluations, len(self.nontrivial), wall))
        return 0
