"""TLA+/TLC plumbing: run sany/TLC in a scratch directory, parse statistics, parse
`-dump dot,actionlabels` state graphs, parse TLA+ values, validate NDJSON traces."""
import json
import os
import re
import shutil
import subprocess
import tempfile
import time

SPEC_DIR = os.path.join(os.path.dirname(os.path.dirname(os.path.dirname(os.path.abspath(__file__)))), "spec")


class TLCError(Exception):
    """TLC could not be run to a verdict (parse error, timeout, OOM ...): a broken check, never a violation."""


# --------------------------------------------------------------------------- values

class _P:
    def __init__(self, s):
        self.s = s
        self.i = 0

    def ws(self):
        while self.i < len(self.s) and self.s[self.i] in " \t\r\n":
            self.i += 1

    def peek(self, k=1):
        return self.s[self.i:self.i + k]

    def eat(self, t):
        self.ws()
        if not self.s.startswith(t, self.i):
            raise ValueError("expected %r at %d in %r" % (t, self.i, self.s[max(0, self.i - 30):self.i + 30]))
        self.i += len(t)

    def value(self):
        self.ws()
        c = self.peek()
        if c == '"':
            return self.string()
        if self.peek(2) == "<<":
            self.i += 2
            out = []
            self.ws()
            if self.peek(2) == ">>":
                self.i += 2
                return tuple(out)
            while True:
                out.append(self.value())
                self.ws()
                if self.peek(2) == ">>":
                    self.i += 2
                    return tuple(out)
                self.eat(",")
        if c == "{":
            self.i += 1
            out = []
            self.ws()
            if self.peek() == "}":
                self.i += 1
                return frozenset()
            while True:
                out.append(self.value())
                self.ws()
                if self.peek() == "}":
                    self.i += 1
                    return frozenset(out)
                self.eat(",")
        if c == "[":
            self.i += 1
            rec = {}
            while True:
                self.ws()
                m = re.compile(r"[A-Za-z_][A-Za-z0-9_]*").match(self.s, self.i)
                key = m.group(0)
                self.i = m.end()
                self.eat("|->")
                rec[key] = self.value()
                self.ws()
                if self.peek() == "]":
                    self.i += 1
                    return FrozenDict(rec)
                self.eat(",")
        if c == "(":
            # function literal  (k :> v @@ k :> v)
            self.i += 1
            fn = {}
            while True:
                k = self.value()
                self.eat(":>")
                fn[k] = self.value()
                self.ws()
                if self.peek() == ")":
                    self.i += 1
                    return FrozenDict(fn)
                self.eat("@@")
        m = re.compile(r"-?\d+").match(self.s, self.i)
        if m:
            self.i = m.end()
            return int(m.group(0))
        m = re.compile(r"[A-Za-z_][A-Za-z0-9_]*").match(self.s, self.i)
        if m:
            self.i = m.end()
            w = m.group(0)
            if w == "TRUE":
                return True
            if w == "FALSE":
                return False
            return ModelValue(w)
        raise ValueError("cannot parse value at %d: %r" % (self.i, self.s[self.i:self.i + 40]))

    def string(self):
        assert self.s[self.i] == '"'
        self.i += 1
        out = []
        while self.s[self.i] != '"':
            ch = self.s[self.i]
            if ch == "\\":
                self.i += 1
                ch = self.s[self.i]
                ch = {"n": "\n", "t": "\t", "r": "\r"}.get(ch, ch)
            out.append(ch)
            self.i += 1
        self.i += 1
        return "".join(out)


class FrozenDict(dict):
    def __hash__(self):
        return hash(tuple(sorted((repr(k), repr(v)) for k, v in self.items())))


class ModelValue(str):
    pass


def parse_value(s):
    p = _P(s)
    v = p.value()
    p.ws()
    if p.i != len(p.s):
        raise ValueError("trailing text in value: %r" % s[p.i:])
    return v


def parse_state(label):
    """'/\\ a = 1\n/\\ b = <<>>'  ->  {'a': 1, 'b': ()}"""
    out = {}
    p = _P(label)
    while True:
        p.ws()
        if p.i >= len(p.s):
            break
        p.eat("/\\")
        p.ws()
        m = re.compile(r"[A-Za-z_][A-Za-z0-9_]*").match(p.s, p.i)
        name = m.group(0)
        p.i = m.end()
        p.eat("=")
        out[name] = p.value()
    return out


def parse_action(label):
    """'Open("a",200)' -> ('Open', ('a', 200));  'Tick' -> ('Tick', ())"""
    m = re.match(r"\s*([A-Za-z_][A-Za-z0-9_!]*)\s*(\((.*)\))?\s*$", label, re.S)
    if not m:
        raise ValueError("bad action label %r" % label)
    name = m.group(1)
    if m.group(2) is None:
        return name, ()
    p = _P(m.group(3))
    args = []
    p.ws()
    if p.i < len(p.s):
        while True:
            args.append(p.value())
            p.ws()
            if p.i >= len(p.s):
                break
            p.eat(",")
    return name, tuple(args)


def to_json(v):
    """TLA value -> plain JSON-able python."""
    if isinstance(v, (FrozenDict, dict)):
        return {str(k): to_json(x) for k, x in v.items()}
    if isinstance(v, tuple):
        return [to_json(x) for x in v]
    if isinstance(v, frozenset):
        return sorted((to_json(x) for x in v), key=repr)
    return v


# --------------------------------------------------------------------------- graphs

_unesc_re = re.compile(r'\\(.)')


def _dot_unescape(s):
    return _unesc_re.sub(lambda m: {"n": "\n"}.get(m.group(1), m.group(1)), s)


class Graph:
    def __init__(self):
        self.nodes = {}      # id -> state dict
        self.labels = {}     # id -> raw label
        self.edges = []      # (src, dst, name, args)
        self.out = {}        # src -> [edge index]
        self.init = []

    def successors(self, n):
        return [self.edges[i] for i in self.out.get(n, [])]


_node_re = re.compile(r'^(-?\d+) \[label="((?:[^"\\]|\\.)*)"(.*)\]\s*;?\s*$')
_edge_re = re.compile(r'^(-?\d+) -> (-?\d+) \[label="((?:[^"\\]|\\.)*)"')


def parse_dot(path, parse_states=True):
    g = Graph()
    with open(path) as f:
        for line in f:
            line = line.rstrip("\n")
            m = _edge_re.match(line)
            if m:
                name, args = parse_action(_dot_unescape(m.group(3)))
                g.edges.append((m.group(1), m.group(2), name, args))
                g.out.setdefault(m.group(1), []).append(len(g.edges) - 1)
                continue
            m = _node_re.match(line)
            if m:
                lab = _dot_unescape(m.group(2))
                g.labels[m.group(1)] = lab
                g.nodes[m.group(1)] = parse_state(lab) if parse_states else None
                if "style = filled" in m.group(3):
                    g.init.append(m.group(1))
    return g


# --------------------------------------------------------------------------- running TLC

_stat_re = re.compile(r"(\d+) states generated, (\d+) distinct states found, (\d+) states left on queue")
_depth_re = re.compile(r"The depth of the complete state graph search is (\d+)")


class TLCResult:
    def __init__(self):
        self.ok = False
        self.generated = 0
        self.distinct = 0
        self.depth = 0
        self.violation = None     # name of violated invariant/property, if any
        self.stdout = ""
        self.wall = 0.0
        self.graph = None
        self.coverage_zero = []
        self.rc = None


def run_tlc(module, cfg, *, workers="auto", dump=False, timeout=600, java_props=(), extra_files=(),
            coverage=False, simulate=None, depth=None, seed=None, parse_states=True, keep_dir=None,
            expect_violation=False, heap=None, spec_dir=SPEC_DIR, deadlock=None):
    """Run TLC on spec/<module>.tla with spec/cfg/<cfg> in a scratch copy. Raises TLCError when TLC
    did not reach a verdict. Returns TLCResult (ok=False + violation set when an invariant fails)."""
    tmp = tempfile.mkdtemp(prefix="vtlc_")
    try:
        for fn in os.listdir(spec_dir):
            if fn.endswith(".tla"):
                shutil.copy(os.path.join(spec_dir, fn), tmp)
        cfgpath = cfg if os.path.isabs(cfg) else os.path.join(spec_dir, "cfg", cfg)
        shutil.copy(cfgpath, os.path.join(tmp, "run.cfg"))
        for src in extra_files:
            shutil.copy(src, tmp)
        cmd = ["java", "-XX:+UseParallelGC"]
        if heap:
            cmd.append("-Xmx" + heap)
        cmd.append("-Xss64m")
        cmd.append("-Djava.io.tmpdir=" + tmp)   # TLC's own tlc-<n> scratch directory goes away with ours
        for p in java_props:
            cmd.append("-D" + p)
        cmd += ["-cp", "/opt/veriftools/tla/tla2tools.jar:/opt/veriftools/tla/CommunityModules-deps.jar",
                "tlc2.TLC", "-metadir", os.path.join(tmp, "meta"), "-config", "run.cfg",
                "-workers", str(workers)]
        if deadlock is False:
            pass
        if dump:
            cmd += ["-dump", "dot,actionlabels", os.path.join(tmp, "graph.dot")]
        if coverage:
            cmd += ["-coverage", "1"]
        if simulate:
            cmd += ["-simulate", simulate]
            if depth:
                cmd += ["-depth", str(depth)]
        if seed is not None:
            cmd += ["-seed", str(seed)]
        cmd.append(module + ".tla")
        t0 = time.time()
        try:
            p = subprocess.run(cmd, cwd=tmp, stdout=subprocess.PIPE, stderr=subprocess.STDOUT,
                               timeout=timeout, text=True)
        except subprocess.TimeoutExpired:
            raise TLCError("TLC timeout after %ss on %s/%s" % (timeout, module, cfg))
        r = TLCResult()
        r.wall = time.time() - t0
        r.stdout = p.stdout
        r.rc = p.returncode
        for m in _stat_re.finditer(p.stdout):
            r.generated, r.distinct = int(m.group(1)), int(m.group(2))
        m = _depth_re.search(p.stdout)
        if m:
            r.depth = int(m.group(1))
        m = re.search(r"Invariant (\S+) is violated", p.stdout)
        if m:
            r.violation = m.group(1)
        m = re.search(r"Action property (\S+) is violated", p.stdout)
        if m:
            r.violation = m.group(1)
        if p.returncode == 0:
            r.ok = True
        elif p.returncode in (10, 11, 12, 13, 14):
            # 10 assumption/postcondition, 11 deadlock, 12 safety, 13 liveness, 14 assert
            if r.violation is None:
                r.violation = {10: "postcondition", 11: "deadlock", 12: "safety", 13: "liveness",
                               14: "assert"}[p.returncode]
        else:
            raise TLCError("TLC failed (rc=%s) on %s/%s:\n%s" % (p.returncode, module, cfg, p.stdout[-3000:]))
        if coverage:
            for m in re.finditer(r"^\s*(?:\|*)?line (\d+), col (\d+) to line (\d+), col (\d+) of module (\w+): 0\s*$",
                                 p.stdout, re.M):
                r.coverage_zero.append(m.group(0).strip())
            for m in re.finditer(r"^<(\w+) line (\d+), col \d+ to line \d+, col \d+ of module (\w+)>: (\d+):(\d+)", p.stdout, re.M):
                if int(m.group(4)) == 0 and int(m.group(5)) == 0:
                    r.coverage_zero.append("action %s never taken" % m.group(1))
        if dump and os.path.exists(os.path.join(tmp, "graph.dot")) and (r.ok or expect_violation):
            r.graph = parse_dot(os.path.join(tmp, "graph.dot"), parse_states=parse_states)
        if keep_dir:
            shutil.copytree(tmp, keep_dir, dirs_exist_ok=True)
        return r
    finally:
        shutil.rmtree(tmp, ignore_errors=True)


def sany(module, spec_dir=SPEC_DIR):
    jtmp = tempfile.mkdtemp(prefix="vsany_")
    try:
        p = subprocess.run(["java", "-Djava.io.tmpdir=" + jtmp, "-cp", "/opt/veriftools/tla/tla2tools.jar:/opt/veriftools/tla/CommunityModules-deps.jar",
                            "tla2sany.SANY", module + ".tla"], cwd=spec_dir, stdout=subprocess.PIPE,
                           stderr=subprocess.STDOUT, text=True, timeout=120)
    finally:
        shutil.rmtree(jtmp, ignore_errors=True)
    if p.returncode != 0 or "Semantic errors" in p.stdout or "Parse Error" in p.stdout or "*** Errors" in p.stdout:
        raise TLCError("SANY rejects %s:\n%s" % (module, p.stdout[-2000:]))


def validate_trace(module, cfg, trace_path, *, timeout=300, workers=1, dfs=True, extra_files=(), heap=None):
    """Run a trace-validation spec (reads trace.ndjson in its working dir). Returns (accepted, info).
    The trace spec must print 'TRACE-HWM <n>' lines via PrintT / or its postcondition failing leads
    to rejection.  info['hwm'] = highest consumed line if the spec reports it."""
    tmp = tempfile.mkdtemp(prefix="vtrc_")
    try:
        shutil.copy(trace_path, os.path.join(tmp, "trace.ndjson"))
        props = []
        if dfs:
            props.append("tlc2.tool.queue.IStateQueue=StateDeque")
        r = run_tlc(module, cfg, workers=workers, timeout=timeout, java_props=props,
                    extra_files=[os.path.join(tmp, "trace.ndjson")] + list(extra_files), heap=heap)
        info = {"stdout": r.stdout, "generated": r.generated, "distinct": r.distinct, "violation": r.violation}
        m = re.findall(r"TRACE-HWM\D+(\d+)", r.stdout)
        if m:
            info["hwm"] = max(int(x) for x in m)
        return r.violation is None, info
    finally:
        shutil.rmtree(tmp, ignore_errors=True)


def apalache_inductive(module, inv="IndInv", init="Init", indinit="IndInit", safety="Safety", cinit="CInit", timeout=300, spec_dir=SPEC_DIR):
    """Discharge an inductive invariant with Apalache: Init => IndInv (length 0), IndInv /\\ Next => IndInv' (length 1 from
    IndInit), IndInv => Safety (length 0 from IndInit). Returns a list of (obligation, ok, seconds). Raises TLCError when
    Apalache does not reach a verdict. Runs in a scratch copy (Apalache writes _apalache-out)."""
    tmp = tempfile.mkdtemp(prefix="vapa_")
    out = []
    try:
        shutil.copy(os.path.join(spec_dir, module + ".tla"), tmp)
        for name, args in (("Init => IndInv", ["--init=" + init, "--inv=" + inv, "--length=0"]),
                           ("IndInv /\\ Next => IndInv'", ["--init=" + indinit, "--inv=" + inv, "--length=1"]),
                           ("IndInv => " + safety, ["--init=" + indinit, "--inv=" + safety, "--length=0"])):
            t0 = time.time()
            env = dict(os.environ, JVM_ARGS="-Djava.io.tmpdir=" + tmp, JAVA_TOOL_OPTIONS="-Djava.io.tmpdir=" + tmp, TMPDIR=tmp)
            try:
                p = subprocess.run(["apalache-mc", "check", "--cinit=" + cinit] + args + ["--out-dir=" + os.path.join(tmp, "out"), module + ".tla"],
                                   cwd=tmp, stdout=subprocess.PIPE, stderr=subprocess.STDOUT, text=True, timeout=timeout, env=env)
            except subprocess.TimeoutExpired:
                raise TLCError("Apalache timeout on %s (%s)" % (module, name))
            if "EXITCODE: OK" in p.stdout:
                out.append((name, True, time.time() - t0))
            elif "EXITCODE: ERROR (12)" in p.stdout:
                out.append((name, False, time.time() - t0))
            else:
                raise TLCError("Apalache failed on %s (%s):\n%s" % (module, name, p.stdout[-2000:]))
        return out
    finally:
        shutil.rmtree(tmp, ignore_errors=True)
