"""Path planning over TLC state graphs: edge cover and seeded random walks."""
import collections
import random


def edge_cover_paths(g, max_len=60, edge_filter=None, rnd=None):
    """Return a list of paths (lists of edge indices) from an initial state that together cover
    every edge of g (optionally only those accepted by edge_filter). Greedy: walk preferring
    uncovered edges; when stuck, jump via a shortest path to the nearest uncovered edge; restart
    from an initial state when the current path is exhausted."""
    rnd = rnd or random.Random(1)
    want = set(i for i, e in enumerate(g.edges) if edge_filter is None or edge_filter(e))
    uncovered = set(want)
    paths = []
    init = g.init[0]

    def bfs_to_uncovered(src):
        # shortest edge path from src to the source node of (and including) an uncovered edge
        seen = {src}
        q = collections.deque([(src, [])])
        while q:
            n, p = q.popleft()
            outs = g.out.get(n, [])
            unc = [i for i in outs if i in uncovered]
            if unc:
                return p + [rnd.choice(unc)]
            for i in outs:
                d = g.edges[i][1]
                if d not in seen:
                    seen.add(d)
                    q.append((d, p + [i]))
        return None

    while uncovered:
        path = []
        node = init
        while len(path) < max_len:
            ext = bfs_to_uncovered(node)
            if ext is None or len(path) + len(ext) > max_len:
                break
            for i in ext:
                path.append(i)
                uncovered.discard(i)
            node = g.edges[path[-1]][1]
        if not path:
            # remaining uncovered edges unreachable within max_len from init: take the shortest path anyway
            ext = bfs_to_uncovered(init)
            if ext is None:
                break
            path = ext
            for i in ext:
                uncovered.discard(i)
        paths.append(path)
    return paths


def random_walks(g, n, max_len, rnd):
    paths = []
    for _ in range(n):
        node = g.init[0]
        path = []
        while len(path) < max_len:
            outs = g.out.get(node, [])
            if not outs:
                break
            i = rnd.choice(outs)
            path.append(i)
            node = g.edges[i][1]
        if path:
            paths.append(path)
    return paths


def path_nodes(g, path):
    """Nodes visited by a path: [n0, n1, ...] with len(path)+1 entries."""
    if not path:
        return [g.init[0]]
    nodes = [g.edges[path[0]][0]]
    for i in path:
        nodes.append(g.edges[i][1])
    return nodes
