"""Validate many short recorded traces with few TLC runs: traces are concatenated (with a separator
event when the trace spec needs one), and after a rejection the remaining traces are re-validated,
so one rejection never hides later ones."""
import json
import os
import tempfile

from . import common, tla


def validate(run, module, cfg, items, sep=None, max_lines=20000, max_rejections=4):
    """items: [(trace_id, [event dicts])]. Returns {trace_id: (index_in_trace, event)} for rejected ones.
    Adds TLC state counts and the number of accepted traces to `run`."""
    if os.environ.get("VERIF_FAILFAST"):
        max_rejections = 1          # mutant sweeps: the first rejection decides
    rejected = {}
    pending = [it for it in items if it[1]]
    while pending:
        batch, lines, owner, pos = [], [], [], []
        for tid, evs in pending:
            if lines and len(lines) + len(evs) > max_lines:
                break
            if lines and sep is not None:
                lines.append(sep)
                owner.append(tid)
                pos.append(-1)
            for k, e in enumerate(evs):
                lines.append(e)
                owner.append(tid)
                pos.append(k)
            batch.append(tid)
        with tempfile.NamedTemporaryFile("w", suffix=".ndjson", delete=False) as f:
            for e in lines:
                f.write(json.dumps(e) + "\n")
            path = f.name
        try:
            ok, info = tla.validate_trace(module, cfg, path)
        finally:
            os.unlink(path)
        run.states += info.get("distinct", 0)
        run.transitions += info.get("generated", 0)
        if ok:
            run.traces += len(batch)
            pending = pending[len(batch):]
            continue
        hwm = info.get("hwm")
        if hwm is None or hwm >= len(lines):
            raise common.Broken("trace validation of %s failed without a usable high-water mark:\n%s"
                                % (module, info["stdout"][-1500:]))
        bad = owner[hwm]
        idx = batch.index(bad)
        run.traces += idx
        rejected[bad] = (pos[hwm], lines[hwm])
        pending = pending[idx + 1:]
        if len(rejected) >= max_rejections:
            break          # enough evidence; the rest of the batch is left unvalidated
    return rejected
