------------------------------- MODULE InCall -------------------------------
(* In-call notifications of one tools/call over Streamable HTTP (property C10).

   Server side: the tool handler emits notifications n_1..n_k (kind, with or without _meta), then
   the responder writes the result; in SSE mode every message is one event of the POST's response
   stream and carries an event id, in JSON mode notifications are dropped.
   Client side: the call's goroutine reads the events in order; a notification whose method has a
   registered handler is dispatched synchronously, others are dropped; the call returns the result
   after the stream ended (or at once when no handler at all is registered).

   OneIdGen = TRUE : one event-id generator per response stream (intended)
            = FALSE: the notification sender and the responder each own a counter (as built)   *)
EXTENDS Naturals, Sequences, FiniteSets, TLC

CONSTANTS MaxN, OneIdGen

Kinds == {"progress", "log", "custom"}
Modes == {"sse", "json"}

VARIABLES mode, reg,      \* configuration of this call: response mode, kinds with a registered handler
          phase,          \* "handler" | "responded" | "closed"   (server side)
          emitted,        \* sequence of [kind, meta, i] the handler emitted
          wire,           \* sequence of events on the response stream: [id, what, i]
          genN, genR,     \* event id counters
          rd,             \* number of wire events the client has consumed
          delivered,      \* sequence of [kind, meta, i] dispatched to handlers
          result,         \* "none" | "ok"
          returned

vars == <<mode, reg, phase, emitted, wire, genN, genR, rd, delivered, result, returned>>

Init ==
  /\ mode \in Modes /\ reg \in SUBSET Kinds
  /\ phase = "handler" /\ emitted = <<>> /\ wire = <<>> /\ genN = 0 /\ genR = 0
  /\ rd = 0 /\ delivered = <<>> /\ result = "none" /\ returned = FALSE

Emit(kind, meta) ==
  /\ phase = "handler" /\ Len(emitted) < MaxN
  /\ LET n == [kind |-> kind, meta |-> meta, i |-> Len(emitted) + 1] IN
     /\ emitted' = Append(emitted, n)
     /\ IF mode = "sse"
          THEN /\ wire' = Append(wire, [id |-> genN + 1, what |-> "notif", i |-> n.i])
               /\ genN' = genN + 1
          ELSE UNCHANGED <<wire, genN>>
  /\ UNCHANGED <<mode, reg, phase, genR, rd, delivered, result, returned>>

Respond ==
  /\ phase = "handler"
  /\ phase' = "responded"
  /\ IF OneIdGen
       THEN /\ wire' = Append(wire, [id |-> genN + 1, what |-> "result", i |-> 0]) /\ genN' = genN + 1 /\ UNCHANGED genR
       ELSE /\ wire' = Append(wire, [id |-> genR + 1, what |-> "result", i |-> 0]) /\ genR' = genR + 1 /\ UNCHANGED genN
  /\ UNCHANGED <<mode, reg, emitted, rd, delivered, result, returned>>

ServerClose ==
  /\ phase = "responded" /\ phase' = "closed"
  /\ UNCHANGED <<mode, reg, emitted, wire, genN, genR, rd, delivered, result, returned>>

ClientRead ==
  /\ ~returned /\ rd < Len(wire)
  /\ LET e == wire[rd + 1] IN
     /\ rd' = rd + 1
     /\ IF e.what = "notif"
          THEN /\ delivered' = IF emitted[e.i].kind \in reg THEN Append(delivered, emitted[e.i]) ELSE delivered
               /\ UNCHANGED <<result, returned>>
          ELSE /\ result' = "ok"
               /\ returned' = (reg = {})          \* nothing registered: return at the first result
               /\ UNCHANGED delivered
  /\ UNCHANGED <<mode, reg, phase, emitted, wire, genN, genR>>

ClientEOF ==
  /\ ~returned /\ phase = "closed" /\ rd = Len(wire)
  /\ returned' = TRUE
  /\ UNCHANGED <<mode, reg, phase, emitted, wire, genN, genR, rd, delivered, result>>

Next ==
  \/ \E k \in Kinds, m \in BOOLEAN : Emit(k, m)
  \/ Respond \/ ServerClose \/ ClientRead \/ ClientEOF

Spec == Init /\ [][Next]_vars /\ WF_vars(Next)

(* ------------------------------------------------------------ observable oracle *)
Registered(seq) == SelectSeq(seq, LAMBDA n : n.kind \in reg)
Expected == IF mode = "sse" THEN Registered(emitted) ELSE <<>>

\* what may be dispatched next: the first registered emission not yet delivered
IsPrefix(a, b) == Len(a) <= Len(b) /\ \A j \in 1..Len(a) : a[j] = b[j]

InOrderOnce == IsPrefix(delivered, Expected)
CompleteAtReturn == returned => (delivered = Expected /\ result = "ok")
EventIdsDistinct == \A a, b \in 1..Len(wire) : a # b => wire[a].id # wire[b].id
Termination == <>returned
=============================================================================
