--------------------------- MODULE TraceWellFormed ---------------------------
(* Trace validation for C03 (and the reaction part of C06 / C14).  One event per exchange of a raw
   peer with a real server:
     [e |-> "x", method |-> m, expect |-> <<reaction, ..>>, isreq |-> BOOLEAN, http |-> BOOLEAN,
      reqid |-> tagged id, status |-> n, frames |-> <<tagged tree, ..>>, rawbody |-> BOOLEAN,
      errmsg |-> "text the error message must contain" | "", iserror |-> BOOLEAN]
   The exchange is accepted iff every frame is a well-formed message and the reaction is one of
   the admitted ones (`expect` comes from Core!Expect via the orchestrator).                  *)
EXTENDS MsgGrammar, Json

VARIABLES l
TraceLog == ndJsonDeserialize("trace.ndjson")
Ev == TraceLog[l]

Responses == {j \in 1..Len(Ev.frames) : IsResponseFor(Ev.frames[j], Ev.reqid)}
TheResponse == Ev.frames[CHOOSE j \in Responses : TRUE]
Http2xx == Ev.http /\ Ev.status \in 200..299

\* does the observed exchange realise reaction r ?
Realises(r) ==
  CASE r = "result" ->
         /\ Cardinality(Responses) = 1 /\ IsSuccess(TheResponse)
         /\ Get(TheResponse, "id") = Ev.reqid
         /\ ResultShape(Ev.method, Get(TheResponse, "result"))
         /\ (Ev.iserror => (Has(Get(TheResponse, "result"), "isError") /\ Get(Get(TheResponse, "result"), "isError").v = TRUE))
         /\ (Ev.http => Ev.status \in {200, 202})
    [] r = "rpc:any" ->
         /\ Cardinality(Responses) = 1 /\ IsError(TheResponse)
         /\ (Ev.reqid.k # "none" => Get(TheResponse, "id") \in {Ev.reqid, [k |-> "null"]})
    [] r = "http4xx" -> Ev.http /\ Ev.status \in 400..499 /\ Responses = {}
    [] r = "http5xx" -> Ev.http /\ Ev.status \in 500..599 /\ Responses = {}
    [] r = "none" -> Len(Ev.frames) = 0 /\ ~Ev.rawbody /\ (Ev.http => Ev.status \in {200, 202, 204})
    [] OTHER ->     \* "rpc:<code>"
         /\ Cardinality(Responses) = 1 /\ IsError(TheResponse)
         /\ "rpc:" \o ErrCode(TheResponse) = r
         /\ (Ev.reqid.k # "none" => Get(TheResponse, "id") = Ev.reqid)
         /\ Ev.errmsg # "" => (\E a, b \in 0..Len(Get(Get(TheResponse, "error"), "message").v) :
                                  a < b /\ SubSeq(Get(Get(TheResponse, "error"), "message").v, a + 1, b) = Ev.errmsg)

WellFormed ==
  /\ \A j \in 1..Len(Ev.frames) : IsMessage(Ev.frames[j]) \/ IsResponseFor(Ev.frames[j], Ev.reqid)
  /\ ~(Ev.rawbody /\ Http2xx)                       \* a 2xx never carries a non-JSON body
  /\ \E j \in 1..Len(Ev.expect) : Realises(Ev.expect[j])
  \* an input that is not served is never answered with an empty or successful 2xx
  /\ (Ev.isreq /\ Http2xx) => Len(Ev.frames) > 0

TInit == l = 1
TNext == l <= Len(TraceLog) /\ WellFormed /\ l' = l + 1
TraceSpec == TInit /\ [][TNext]_l

Mark == TLCSet(1, IF l - 1 > TLCGet(1) THEN l - 1 ELSE TLCGet(1))
ASSUME TLCSet(1, 0)
TraceAccepted ==
  IF TLCGet(1) = Len(TraceLog) THEN TRUE
  ELSE Print(<<"TRACE-HWM", TLCGet(1), "of", Len(TraceLog)>>, FALSE)
=============================================================================
