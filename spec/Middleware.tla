----------------------------- MODULE Middleware -----------------------------
(* The middleware chain around a request (property C15).

   chain = <<b_1, .., b_n>>, b_i the behaviour of middleware m_i (m_1 outermost):
     "pass"    calls next, returns what next returned          "modReq"  marks the request, calls next
     "modRes"  calls next, wraps the result it gets back       "short"   returns its own value, next is NOT called
     "fail"    returns an error, next is NOT called
   The request travels down (pc = 1..n, then the method handler at n+1) and the outcome travels up.
   `events` is what instrumented middlewares / handler record for this request:
     <<"b",i>>  m_i entered      <<"a",i>>  m_i got control back from next      <<"H">>  the handler ran
   The client receives `res`: base "H" (handler result, with the request marks it saw), "short" or
   "fail" (-> JSON-RPC internal error), wrapped by the modRes middlewares it passed on the way up.   *)
EXTENDS Naturals, Sequences, FiniteSets, TLC

CONSTANTS MaxLen
Behaviours == {"pass", "modReq", "modRes", "short", "fail"}

VARIABLES chain, pc, dir, trail, res, events, done
vars == <<chain, pc, dir, trail, res, events, done>>

NoRes == [base |-> "none", who |-> 0, trail |-> <<>>, wraps |-> <<>>]
N == Len(chain)

Init ==
  /\ chain \in UNION {[1..n -> Behaviours] : n \in 0..MaxLen}
  /\ pc = 1 /\ dir = "down" /\ trail = <<>> /\ res = NoRes /\ events = <<>> /\ done = FALSE

Enter(i) ==
  /\ ~done /\ dir = "down" /\ pc = i /\ i <= N
  /\ events' = Append(events, <<"b", i>>)
  /\ CASE chain[i] \in {"pass", "modRes"} -> pc' = i + 1 /\ UNCHANGED <<dir, trail, res>>
       [] chain[i] = "modReq" -> pc' = i + 1 /\ trail' = Append(trail, i) /\ UNCHANGED <<dir, res>>
       [] chain[i] = "short" -> /\ res' = [base |-> "short", who |-> i, trail |-> <<>>, wraps |-> <<>>]
                                /\ dir' = "up" /\ pc' = i - 1 /\ UNCHANGED trail
       [] chain[i] = "fail" -> /\ res' = [base |-> "fail", who |-> i, trail |-> <<>>, wraps |-> <<>>]
                               /\ dir' = "up" /\ pc' = i - 1 /\ UNCHANGED trail
  /\ UNCHANGED <<chain, done>>

Handler ==
  /\ ~done /\ dir = "down" /\ pc = N + 1
  /\ events' = Append(events, <<"H">>)
  /\ res' = [base |-> "H", who |-> 0, trail |-> trail, wraps |-> <<>>]
  /\ dir' = "up" /\ pc' = N
  /\ UNCHANGED <<chain, trail, done>>

Exit(i) ==
  /\ ~done /\ dir = "up" /\ pc = i /\ i >= 1
  /\ events' = Append(events, <<"a", i>>)
  /\ res' = IF chain[i] = "modRes" /\ res.base # "fail" THEN [res EXCEPT !.wraps = Append(@, i)] ELSE res
  /\ pc' = i - 1
  /\ UNCHANGED <<chain, dir, trail, done>>

Finish == ~done /\ dir = "up" /\ pc = 0 /\ done' = TRUE /\ UNCHANGED <<chain, pc, dir, trail, res, events>>

Next == (\E i \in 1..MaxLen : Enter(i)) \/ Handler \/ (\E i \in 1..MaxLen : Exit(i)) \/ Finish
Spec == Init /\ [][Next]_vars /\ WF_vars(Next)

(* ------------------------------------------------------------ properties *)
Count(e) == Cardinality({k \in 1..Len(events) : events[k] = e})
ExactlyOnce == \A i \in 1..MaxLen : Count(<<"b", i>>) <= 1 /\ Count(<<"a", i>>) <= 1 /\ Count(<<"H">>) <= 1
\* the stopper: first middleware that does not call next (0 if none)
Stoppers == {i \in 1..N : chain[i] \in {"short", "fail"}}
Stop == IF Stoppers = {} THEN 0 ELSE CHOOSE i \in Stoppers : \A j \in Stoppers : i <= j
Depth == IF Stop = 0 THEN N ELSE Stop
Onion ==
  done =>
    /\ \A i \in 1..Depth : Count(<<"b", i>>) = 1
    /\ \A i \in (Depth + 1)..MaxLen : Count(<<"b", i>>) = 0 /\ Count(<<"a", i>>) = 0     \* nothing inside a stopper runs
    /\ Count(<<"H">>) = (IF Stop = 0 THEN 1 ELSE 0)
    /\ \A i \in 1..Depth : (i # Stop) => Count(<<"a", i>>) = 1
    \* order: b1 b2 .. bDepth [H] a.. a2 a1
    /\ \A k \in 1..Depth : events[k] = <<"b", k>>
    /\ LET up == IF Stop = 0 THEN Depth ELSE Depth - 1
           off == Depth + (IF Stop = 0 THEN 1 ELSE 0) IN
         /\ Len(events) = off + up
         /\ \A k \in 1..up : events[off + k] = <<"a", up - k + 1>>
ShortIsTheAnswer == (done /\ Stop # 0) => (res.who = Stop /\ res.base = chain[Stop])
Termination == <>done
=============================================================================
