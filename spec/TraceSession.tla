---------------------------- MODULE TraceSession ----------------------------
(* Trace validation for C04: one event per HTTP exchange of a raw peer with a real server,
     {"e":op,"cls":c,"s":s,"status":n,"hdr":"sK"|"new"|"none"|"other","active":[ids],("ended":b)}
   op in init req notif resp get delete;  {"e":"sclose","s":s};  {"e":"cfg",...} starts a new walk.
   Each event must be explained by the SessionLifecycle action of the same name: some admissible
   status set contains the observed status, the session header is the required one, and the set
   of sessions the server reports equals the live set after the step.                       *)
EXTENDS SessionLifecycle, Json

VARIABLES l
TraceLog == ndJsonDeserialize("trace.ndjson")
tvars == <<vars, l>>
Ev == TraceLog[l]
IsEvent(e) == l <= Len(TraceLog) /\ Ev.e = e /\ l' = l + 1

H == [cls |-> Ev.cls, s |-> Ev.s]
ToSet(q) == {q[j] : j \in 1..Len(q)}

StatusOK(st) ==
  \/ ToString(Ev.status) \in st
  \/ "4xx" \in st /\ Ev.status \in 400..499
  \/ "5xx" \in st /\ Ev.status \in 500..599

HdrOK(kind) ==
  CASE kind = "new" -> Ev.hdr = "new"
    [] kind = "same" -> Ev.hdr = Ev.s
    [] kind = "none" -> Ev.hdr = "none"
    [] OTHER -> Ev.hdr \in {Ev.s, "none"}

ActiveOK == ToSet(Ev.active) = (IF Stateful THEN live' ELSE {})

Explained(A(_, _, _)) == \E st \in StatusSets, hk \in HdrKinds : A(H, st, hk) /\ StatusOK(st) /\ HdrOK(hk) /\ ActiveOK

TInit == Init /\ l = 1
TCfg == IsEvent("cfg") /\ issued' = 0 /\ live' = {} /\ deleted' = {} /\ streams' = {}
TInitialize == IsEvent("init") /\ Explained(PostInitialize)
TRequest == IsEvent("req") /\ Explained(PostRequest)
TNotification == IsEvent("notif") /\ Explained(PostNotification)
TResponse == IsEvent("resp") /\ Explained(PostResponse)
TGet == IsEvent("get") /\ Explained(Get)
TSClose == IsEvent("sclose") /\ StreamClose(Ev.s)
TDelete ==
  /\ IsEvent("delete")
  /\ \E st \in StatusSets, hk \in HdrKinds, e \in Sess \cup {"-"} :
        Delete(H, st, hk, e) /\ StatusOK(st) /\ HdrOK(hk) /\ ActiveOK /\ (e # "-" => Ev.ended)

TNext == TCfg \/ TInitialize \/ TRequest \/ TNotification \/ TResponse \/ TGet \/ TSClose \/ TDelete
TraceSpec == TInit /\ [][TNext]_tvars

Mark == TLCSet(1, IF l - 1 > TLCGet(1) THEN l - 1 ELSE TLCGet(1))
ASSUME TLCSet(1, 0)
TraceAccepted ==
  IF TLCGet(1) = Len(TraceLog) THEN TRUE
  ELSE Print(<<"TRACE-HWM", TLCGet(1), "of", Len(TraceLog)>>, FALSE)
=============================================================================
