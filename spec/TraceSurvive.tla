---------------------------- MODULE TraceSurvive ----------------------------
(* Trace validation for C06: {"e":"feed","cls":class,"reaction":r} ... {"e":"health","same":b,"fresh":b,"leak":n}
   {"e":"reset"}.  A feed event must be Survive!Feed with an allowed reaction ("empty2xx", "reset", "hang"
   are never allowed); at a health event the server must serve on the same and on a fresh connection and
   no library goroutine may be left behind.                                                        *)
EXTENDS Survive, Json

VARIABLES l
TraceLog == ndJsonDeserialize("trace.ndjson")
tvars == <<vars, l>>
Ev == TraceLog[l]
IsEvent(e) == l <= Len(TraceLog) /\ Ev.e = e /\ l' = l + 1

TInit == Init /\ l = 1
TFeed == IsEvent("feed") /\ Ev.cls \in Classes /\ Feed(Ev.cls, Ev.reaction)
THealth == IsEvent("health") /\ Ev.same /\ Ev.fresh /\ Ev.leak = 0 /\ UNCHANGED vars
TReset == IsEvent("reset") /\ fed' = <<>> /\ alive' = TRUE /\ last' = "none"
TNext == TFeed \/ THealth \/ TReset
TraceSpec == TInit /\ [][TNext]_tvars

Mark == TLCSet(1, IF l - 1 > TLCGet(1) THEN l - 1 ELSE TLCGet(1))
ASSUME TLCSet(1, 0)
TraceAccepted ==
  IF TLCGet(1) = Len(TraceLog) THEN TRUE
  ELSE Print(<<"TRACE-HWM", TLCGet(1), "of", Len(TraceLog)>>, FALSE)
=============================================================================
