------------------------------- MODULE Burst -------------------------------
(* Bursts of server-initiated notifications to ONE session whose stream is not being read (property C05, PerSessionFIFO).

   SendNotification either accepts a notification (it will be written to the session's stream) or refuses it (the
   bounded hand-over to the stream writer is full: the caller gets an error).  Whatever the stream later delivers is
   exactly the accepted notifications, each once, in the order in which they were accepted - also when the writer
   was stalled for a while and the hand-over overflowed.
   Reorder = TRUE : an overflowing notification takes another path to the stream and overtakes queued ones (a defect). *)
EXTENDS Naturals, Sequences, TLC

CONSTANTS N, Cap, Reorder

VARIABLES next,      \* number of the next notification to send
          accepted,  \* accepted notifications in order of acceptance
          queue,     \* handed over, not yet written
          side,      \* overflow path (defect only)
          delivered  \* what the reader has received, in order
vars == <<next, accepted, queue, side, delivered>>

Init == next = 1 /\ accepted = <<>> /\ queue = <<>> /\ side = <<>> /\ delivered = <<>>

Send(ok) ==
  /\ next <= N
  /\ next' = next + 1
  /\ IF Len(queue) < Cap
       THEN ok /\ queue' = Append(queue, next) /\ accepted' = Append(accepted, next) /\ UNCHANGED side
       ELSE IF Reorder THEN ok /\ side' = Append(side, next) /\ accepted' = Append(accepted, next) /\ UNCHANGED queue
       ELSE ~ok /\ UNCHANGED <<queue, side, accepted>>
  /\ UNCHANGED delivered

Write == \/ queue # <<>> /\ delivered' = Append(delivered, Head(queue)) /\ queue' = Tail(queue) /\ UNCHANGED <<next, accepted, side>>
         \/ side # <<>> /\ delivered' = Append(delivered, Head(side)) /\ side' = Tail(side) /\ UNCHANGED <<next, accepted, queue>>

Next == (\E ok \in BOOLEAN : Send(ok)) \/ Write
Spec == Init /\ [][Next]_vars

IsPrefix(a, b) == Len(a) <= Len(b) /\ \A i \in 1..Len(a) : a[i] = b[i]
PerSessionFIFO == IsPrefix(delivered, accepted)
=============================================================================
