----------------------------- MODULE TraceSchema -----------------------------
(* One record per (type, style) produced by the real generators (mcpdrive c18):
     t  ty, style, terminated, schema (tagged tree, $ref split), inst (tagged tree of the JSON encoding of a fully
        populated value), check: which predicate this line asserts ("terminates" | "refs" | "names" | "accepts" | "bind")
   Each predicate is a separate line so that a rejection names the predicate that fails.                           *)
EXTENDS Schema, Json

Trace == ndJsonDeserialize("trace.ndjson")
VARIABLE l
tvars == <<vars, l>>
Ev == Trace[l]

Holds(e) ==
  CASE e.check = "terminates" -> e.terminated
    [] e.check = "refs" -> NoForeignRefs(e.schema) /\ RefsResolve(e.schema)
    [] e.check = "names" -> Names(e.schema, e.schema, e.inst, 12)
    [] e.check = "accepts" -> Accepts(e.schema, e.schema, e.inst, 24)
    [] e.check = "bind" -> e.same
    [] OTHER -> FALSE

TT == /\ l <= Len(Trace) /\ Ev.e = "t" /\ l' = l + 1
      /\ Ev.ty \in Types /\ Ev.style \in Styles
      /\ ty' = Ev.ty /\ style' = Ev.style /\ checked' = TRUE
      /\ Holds(Ev)

TNext == TT
TInit == Init /\ l = 1
TraceSpec == TInit /\ [][TNext]_tvars

Mark == TLCSet(1, IF l - 1 > TLCGet(1) THEN l - 1 ELSE TLCGet(1))
ASSUME TLCSet(1, 0)
TraceAccepted ==
  IF TLCGet(1) = Len(Trace) THEN TRUE
  ELSE Print(<<"TRACE-HWM", TLCGet(1), "of", Len(Trace)>>, FALSE)
=============================================================================
