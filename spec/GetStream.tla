----------------------------- MODULE GetStream -----------------------------
(* Listening (GET) streams of ONE Streamable-HTTP session (property C11).

   Implementation-shaped: one action per critical section / gate window of the
   GET handler and of the push path:

     Open(c)      client issues GET c and receives the response headers
                  (handler runs up to the point right after the headers are out)
     Proceed(c)   the handler continues up to its wait on the connection context
     ClientClose(c)  the client drops stream c; the handler wakes up
     CleanupBegin(c) a woken handler starts its exit path (it then waits for an in-flight writer)
     Cleanup(c)   ... and, once no writer holds the stream's write lock, removes its entry under
                  the table lock and returns
     SendStart(k) SendNotification / SendRequest looks the session's stream up
     SendAcquire(k) ... takes the write lock of the stream it found (refused if that stream is ending)
     SendEnd(k)   ... writes the frame and returns

   Two switches describe the two orders/behaviours the code may have:
     FlushFirst   TRUE : headers are flushed, THEN the stream is registered   (as built, defect)
                  FALSE: the stream is registered before the headers go out   (intended)
     DeleteByKey  TRUE : the exit path deletes table[session]                 (as built, defect)
                  FALSE: the exit path deletes the entry only if it is its own (intended)
     StaleCheck   TRUE : "is the entry still mine?" is decided when the exit path STARTS and acted
                         upon when it ends (a refactoring hazard)   FALSE: decided at the delete

   The OBSERVABLE part (the oracle, shared with TraceGetStream) is what the
   property states: a send that starts after the newest stream's headers were
   received, while that stream stays the newest and is not dropped by the
   client, must succeed and be delivered on exactly that stream.             *)
EXTENDS Naturals, Sequences, FiniteSets, TLC

CONSTANTS NConn, NSend, FlushFirst, DeleteByKey, StaleCheck

ConnSeq == <<"c1", "c2", "c3", "c4", "c5", "c6", "c7", "c8">>
SendSeq == <<"k1", "k2", "k3", "k4", "k5", "k6", "k7", "k8">>
Conn == {ConnSeq[i] : i \in 1..NConn}
Send == {SendSeq[i] : i \in 1..NSend}
None == "none"
AnyS == "any"

VARIABLES
  pc,        \* handler of c: "idle" | "s1" (headers out, parked) | "running" | "woken" | "closing" | "done"
  wlock,     \* wlock[c]: the send holding c's write lock, or None
  mine,      \* mine[c]: what the exit path of c believed when it started (StaleCheck)
  table,     \* the session's entry in the stream table: a connection or None
  regd,      \* connections that have executed their registration
  \* ---- observable / oracle part
  opened,    \* number of GETs issued so far (streams are opened in order c1, c2, ...)
  newest,    \* the last stream whose headers the client has received
  dropped,   \* streams the client closed itself
  spc,       \* send k: "idle" | "looked" | "done"
  tgt,       \* stream found by the lookup of send k
  exp,       \* oracle: stream on which send k must arrive, or AnyS
  res        \* result of send k: [ok, on]

vars == <<pc, wlock, mine, table, regd, opened, newest, dropped, spc, tgt, exp, res>>
obsvars == <<opened, newest, dropped, spc, exp, res>>

NoRes == [ok |-> FALSE, on |-> "unset"]

Init ==
  /\ pc = [c \in Conn |-> "idle"]
  /\ wlock = [c \in Conn |-> None]
  /\ mine = [c \in Conn |-> FALSE]
  /\ table = None
  /\ regd = {}
  /\ opened = 0
  /\ newest = None
  /\ dropped = {}
  /\ spc = [k \in Send |-> "idle"]
  /\ tgt = [k \in Send |-> None]
  /\ exp = [k \in Send |-> AnyS]
  /\ res = [k \in Send |-> NoRes]

(* ------------------------------------------------------------ oracle steps *)
\* headers of c arrive at the client: c is the newest stream; sends in flight lose their addressee
OHeaders(c) ==
  /\ newest' = c
  /\ exp' = [k \in Send |-> IF spc[k] \in {"looked", "writing"} THEN AnyS ELSE exp[k]]

ODrop(c) ==
  /\ dropped' = dropped \cup {c}
  /\ exp' = [k \in Send |-> IF spc[k] \in {"looked", "writing"} /\ exp[k] = c THEN AnyS ELSE exp[k]]

OExpect == IF newest # None /\ newest \notin dropped THEN newest ELSE AnyS

\* what the property demands of a finished send
SendConforms(k, r) == exp[k] # AnyS => (r.ok /\ r.on = exp[k])

(* ------------------------------------------------------------ design steps *)
\* registration under the table lock: cancel the previous owner, store c
DoRegister(c, pc0) ==
  LET old == table IN
  /\ table' = c
  /\ regd' = regd \cup {c}
  /\ pc' = [x \in Conn |->
              IF x = c THEN (IF FlushFirst THEN "running" ELSE "s1")
              ELSE IF x = old /\ pc0[x] = "running" THEN "woken"
              ELSE pc0[x]]

Open(c) ==
  /\ opened < NConn /\ c = ConnSeq[opened + 1]
  /\ newest = IF opened = 0 THEN None ELSE ConnSeq[opened]   \* opens are sequential
  /\ pc[c] = "idle"
  /\ opened' = opened + 1
  /\ OHeaders(c)
  /\ IF FlushFirst
       THEN /\ pc' = [pc EXCEPT ![c] = "s1"]
            /\ UNCHANGED <<table, regd>>
       ELSE DoRegister(c, pc)
  /\ UNCHANGED <<wlock, mine, dropped, spc, tgt, res>>

Proceed(c) ==
  /\ pc[c] = "s1"
  /\ IF FlushFirst
       THEN DoRegister(c, pc)
       ELSE /\ pc' = [pc EXCEPT ![c] = IF table = c THEN "running" ELSE "woken"]
            /\ UNCHANGED <<table, regd>>
  /\ UNCHANGED <<wlock, mine, opened, newest, dropped, spc, tgt, exp, res>>

ClientClose(c) ==
  /\ pc[c] = "running"
  /\ c \notin dropped
  /\ pc' = [pc EXCEPT ![c] = "woken"]
  /\ ODrop(c)
  /\ UNCHANGED <<wlock, mine, table, regd, opened, newest, spc, tgt, res>>

CleanupBegin(c) ==
  /\ pc[c] = "woken"
  /\ pc' = [pc EXCEPT ![c] = "closing"]
  /\ mine' = [mine EXCEPT ![c] = (table = c)]
  /\ UNCHANGED <<wlock, table, regd, opened, newest, dropped, spc, tgt, exp, res>>

Cleanup(c) ==
  /\ pc[c] = "closing"
  /\ wlock[c] = None                      \* the handler never returns while a writer uses its stream
  /\ pc' = [pc EXCEPT ![c] = "done"]
  /\ table' = IF DeleteByKey \/ (IF StaleCheck THEN mine[c] ELSE table = c) THEN None ELSE table
  /\ UNCHANGED <<wlock, mine, regd, opened, newest, dropped, spc, tgt, exp, res>>

\* symmetry breaking: sends are used in the order k1, k2, ...
SendOrder(k) == \A i \in 1..NSend : SendSeq[i] = k => \A j \in 1..(i-1) : spc[SendSeq[j]] # "idle"

SendStart(k) ==
  /\ spc[k] = "idle"
  /\ SendOrder(k)
  /\ opened > 0
  /\ spc' = [spc EXCEPT ![k] = "looked"]
  /\ tgt' = [tgt EXCEPT ![k] = table]
  /\ exp' = [exp EXCEPT ![k] = OExpect]
  /\ UNCHANGED <<pc, wlock, mine, table, regd, opened, newest, dropped, res>>

Ending(c) == pc[c] \in {"woken", "closing", "done"}

\* take the write lock of the stream found; a stream whose handler has been woken refuses writes
SendAcquire(k) ==
  /\ spc[k] = "looked"
  /\ IF tgt[k] = None \/ (wlock[tgt[k]] = None /\ Ending(tgt[k]))
       THEN /\ spc' = [spc EXCEPT ![k] = "done"]
            /\ res' = [res EXCEPT ![k] = [ok |-> FALSE, on |-> None]]
            /\ UNCHANGED wlock
       ELSE /\ wlock[tgt[k]] = None
            /\ wlock' = [wlock EXCEPT ![tgt[k]] = k]
            /\ spc' = [spc EXCEPT ![k] = "writing"]
            /\ UNCHANGED res
  /\ UNCHANGED <<pc, mine, table, regd, opened, newest, dropped, tgt, exp>>

SendEnd(k) ==
  /\ spc[k] = "writing"
  /\ spc' = [spc EXCEPT ![k] = "done"]
  /\ wlock' = [wlock EXCEPT ![tgt[k]] = None]
  /\ res' = [res EXCEPT ![k] = [ok |-> TRUE, on |-> tgt[k]]]
  /\ UNCHANGED <<pc, mine, table, regd, opened, newest, dropped, tgt, exp>>

Next ==
  \/ \E c \in Conn : Open(c)
  \/ \E c \in Conn : Proceed(c)
  \/ \E c \in Conn : ClientClose(c)
  \/ \E c \in Conn : CleanupBegin(c)
  \/ \E c \in Conn : Cleanup(c)
  \/ \E k \in Send : SendStart(k)
  \/ \E k \in Send : SendAcquire(k)
  \/ \E k \in Send : SendEnd(k)

Spec == Init /\ [][Next]_vars

(* ------------------------------------------------------------ properties *)
TypeOK ==
  /\ pc \in [Conn -> {"idle", "s1", "running", "woken", "closing", "done"}]
  /\ table \in Conn \cup {None}
  /\ spc \in [Send -> {"idle", "looked", "writing", "done"}]

\* C11, first sentence: every finished send conforms to the oracle
SendOK == \A k \in Send : spc[k] = "done" => SendConforms(k, res[k])

\* C11, last sentence: "a stream that ends for any reason removes only itself"
ExitRemovesOnlySelf ==
  [][\A c \in Conn : (pc[c] = "closing" /\ pc'[c] = "done" /\ table # c) => table' = table]_vars

\* the table never points at a stream whose handler has returned while a live one exists
NoStaleOwner == table # None => pc[table] # "idle"

\* the old stream is closed: a superseded stream is always on its way out
OldIsClosed == \A c \in Conn : (c \in regd /\ table \notin {c, None}) => pc[c] \in {"s1", "woken", "closing", "done"}
\* a handler never returns while a writer holds its stream
NoWriteAfterReturn == \A c \in Conn : wlock[c] # None => pc[c] # "done"

\* used to make sure the interesting part of the space is reached (sanity / vacuity guard)
ReachStrict == ~(\E k \in Send : spc[k] = "done" /\ exp[k] # AnyS /\ opened >= 2)
=============================================================================
