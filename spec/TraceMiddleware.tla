--------------------------- MODULE TraceMiddleware ---------------------------
(* Trace validation for C15: the event log one request left in the instrumented middlewares and
   the handler,  {"e":"cfg","chain":[..]}  {"e":"ev","k":"b"|"a"|"H","i":n} ...  {"e":"end"},
   must be a complete behaviour of Middleware for that chain.                              *)
EXTENDS Middleware, Json

VARIABLES l
TraceLog == ndJsonDeserialize("trace.ndjson")
tvars == <<vars, l>>
Ev == TraceLog[l]
IsEvent(e) == l <= Len(TraceLog) /\ Ev.e = e /\ l' = l + 1

TInit == Init /\ l = 1
TCfg == /\ IsEvent("cfg")
        /\ chain' = Ev.chain /\ pc' = 1 /\ dir' = "down" /\ trail' = <<>> /\ res' = NoRes /\ events' = <<>> /\ done' = FALSE
TEnter == IsEvent("ev") /\ Ev.k = "b" /\ Ev.i \in 1..MaxLen /\ Enter(Ev.i)
THandler == IsEvent("ev") /\ Ev.k = "H" /\ Handler
TExit == IsEvent("ev") /\ Ev.k = "a" /\ Ev.i \in 1..MaxLen /\ Exit(Ev.i)
\* a stopper's return is not an event of its own: the step out of it is silent
TEnd == IsEvent("end") /\ Finish

TNext == TCfg \/ TEnter \/ THandler \/ TExit \/ TEnd
TraceSpec == TInit /\ [][TNext]_tvars

Mark == TLCSet(1, IF l - 1 > TLCGet(1) THEN l - 1 ELSE TLCGet(1))
ASSUME TLCSet(1, 0)
TraceAccepted ==
  IF TLCGet(1) = Len(TraceLog) THEN TRUE
  ELSE Print(<<"TRACE-HWM", TLCGet(1), "of", Len(TraceLog)>>, FALSE)
=============================================================================
