------------------------------ MODULE Handshake ------------------------------
(* Handshake (property C16): the server's answer to initialize, and the client state machine.

   SERVER side (Side = "server"): prompts / resources may be registered at any time; an
   initialize carrying a version of class v is answered with the negotiated version and the
   capability set derived from what is registered AT THAT TIME.
     version classes: "v2025" "v2024" (supported)  "older" "future" "empty" "garbage" "long" "padded"
   CLIENT side (Side = "client"): Initialize ends in one of
     "ok" | "transport" (no answer) | "rpc" (JSON-RPC error) | "badresult" | "notify" (the
     initialized notification cannot be delivered);  operations and Close at any time.
   Every action carries what the caller / the recording server must observe:
     err: "none" | "notinit" | "already" | "fail"     wire: "zero" | "some"  (requests on the wire)  *)
EXTENDS Naturals, FiniteSets, TLC

CONSTANTS Side

VClasses == {"v2025", "v2024", "older", "future", "empty", "garbage", "long", "padded", "between"}   \* padded: a supported version with white space around it
Supported == {"v2025", "v2024"}
Latest == "v2025"
Select(v) == IF v \in Supported THEN v ELSE Latest
\* a server may read " 2024-11-05\n" as 2024-11-05 (lenient) or as an unknown version (strict): both answers are supported versions
Selects(v) == IF v = "padded" THEN {"v2024", Latest} ELSE {Select(v)}

Outcomes == {"ok", "transport", "rpc", "badresult", "notify"}
Ops == {"ListTools", "CallTool", "ListPrompts", "GetPrompt", "ListResources", "ReadResource", "RootsChanged"}

VARIABLES hasPrompt, hasResource,           \* server side
          cstate, inited, closed, okBefore   \* client side
vars == <<hasPrompt, hasResource, cstate, inited, closed, okBefore>>

Init == /\ hasPrompt = FALSE /\ hasResource = FALSE
        /\ cstate = "disconnected" /\ inited = FALSE /\ closed = FALSE /\ okBefore = FALSE

(* ------------------------------------------------------------ server *)
RegisterPrompt == Side = "server" /\ ~hasPrompt /\ hasPrompt' = TRUE /\ UNCHANGED <<hasResource, cstate, inited, closed, okBefore>>
RegisterResource == Side = "server" /\ ~hasResource /\ hasResource' = TRUE /\ UNCHANGED <<hasPrompt, cstate, inited, closed, okBefore>>

Caps == {"tools"} \cup (IF hasPrompt THEN {"prompts"} ELSE {}) \cup (IF hasResource THEN {"resources"} ELSE {})

ServerInitialize(v, version, caps) ==
  /\ Side = "server"
  /\ version \in Selects(v) /\ caps = Caps
  /\ UNCHANGED vars

(* ------------------------------------------------------------ client *)
ClientInitialize(outcome, err, st, wire) ==
  /\ Side = "client" /\ ~closed
  /\ IF inited
       THEN /\ outcome = "ok" /\ err = "already" /\ wire = "zero" /\ st = cstate /\ UNCHANGED vars
       ELSE /\ err = (IF outcome = "ok" THEN "none" ELSE "fail") /\ wire = "some"
            /\ st = (IF outcome = "ok" THEN "initialized" ELSE "disconnected")
            /\ inited' = (outcome = "ok") /\ cstate' = st
            /\ okBefore' = (okBefore \/ outcome = "ok")
            /\ UNCHANGED <<hasPrompt, hasResource, closed>>

ClientOp(op, err, wire) ==
  /\ Side = "client"
  /\ IF inited THEN err = "none" /\ wire = "some" ELSE err = "notinit" /\ wire = "zero"
  /\ UNCHANGED vars

ClientClose(st) ==
  /\ Side = "client" /\ ~closed
  /\ st = "disconnected"
  /\ closed' = TRUE /\ inited' = FALSE /\ cstate' = "disconnected"
  /\ UNCHANGED <<hasPrompt, hasResource, okBefore>>

Errs == {"none", "notinit", "already", "fail"}
Wires == {"zero", "some"}
States == {"disconnected", "connected", "initialized"}

Next ==
  \/ RegisterPrompt \/ RegisterResource
  \/ \E v \in VClasses, version \in Supported, caps \in SUBSET {"tools", "prompts", "resources"} : ServerInitialize(v, version, caps)
  \/ \E o \in Outcomes, e \in Errs, st \in States, w \in Wires : ClientInitialize(o, e, st, w)
  \/ \E op \in Ops, e \in Errs, w \in Wires : ClientOp(op, e, w)
  \/ \E st \in States : ClientClose(st)

Spec == Init /\ [][Next]_vars

(* ------------------------------------------------------------ properties *)
NeverUnsupported == \A v \in VClasses : Select(v) \in Supported
StateConsistent == (cstate = "initialized") <=> inited
ClosedIsUninitialised == closed => (~inited /\ cstate = "disconnected")
ToolsAlways == "tools" \in Caps
CapsExact == ("prompts" \in Caps <=> hasPrompt) /\ ("resources" \in Caps <=> hasResource)
=============================================================================
