-------------------------------- MODULE Push --------------------------------
(* Server-initiated traffic (property C05): notifications addressed to a session, broadcast and
   filtered sends, and server-issued requests (roots/list) with their pending table.

   Sessions are opened in the order s1, s2, ...; a session may have an open listening stream.
   Sends carry as parameters what the caller must observe (ok flag / reached set / count), fixed
   by guards so that they appear in the edge labels of the dumped graph.

   A server-issued request is modelled in its steps:
       SReqStart(s,r)      the tool handler in session s calls ListRoots: entry registered, frame written on s's stream
       ClientAnswer(p,r)   session p POSTs a response carrying request r's id (p may be the wrong session)
       SReqReturn(s,r,from) ListRoots returns the accepted answer (from = the session that posted it)
       SReqCancel(s,r)     the caller's context ends first: ListRoots returns an error
   KeyBySession = TRUE : the pending entry is matched on (session, id)            (intended)
                = FALSE: on the id alone - any session's answer is accepted       (as built, defect)  *)
EXTENDS Naturals, FiniteSets, Sequences, TLC

CONSTANTS NSess, NReq, Kind, KeyBySession
\* Kind: "streamable" (sessions + optional GET stream, broadcast, filtered) | "legacy" (stream = session)

SessSeq == <<"s1", "s2", "s3">>
ReqSeq == <<"r1", "r2", "r3">>
Sess == {SessSeq[i] : i \in 1..NSess}
Req == {ReqSeq[i] : i \in 1..NReq}
None == "none"

VARIABLES made,      \* number of sessions created so far
          live,      \* sessions that exist
          open,      \* sessions with an open stream
          rstate,    \* request r: "unused" | "pending" | "answered" | "done"
          rsess,     \* session r was issued in
          rfrom      \* session whose answer was accepted for r

vars == <<made, live, open, rstate, rsess, rfrom>>

Init ==
  /\ made = 0 /\ live = {} /\ open = {}
  /\ rstate = [r \in Req |-> "unused"] /\ rsess = [r \in Req |-> None] /\ rfrom = [r \in Req |-> None]

Busy(s) == \E r \in Req : rstate[r] \in {"pending", "answered"} /\ rsess[r] = s

NewSession(s) ==
  /\ made < NSess /\ s = SessSeq[made + 1]
  /\ made' = made + 1 /\ live' = live \cup {s}
  /\ open' = IF Kind = "legacy" THEN open \cup {s} ELSE open
  /\ UNCHANGED <<rstate, rsess, rfrom>>

OpenStream(s) ==
  /\ Kind = "streamable" /\ s \in live /\ s \notin open
  /\ open' = open \cup {s}
  /\ UNCHANGED <<made, live, rstate, rsess, rfrom>>

\* the client drops its stream; with the legacy transport the session dies with it
CloseStream(s) ==
  /\ s \in open /\ ~Busy(s)
  /\ open' = open \ {s}
  /\ live' = IF Kind = "legacy" THEN live \ {s} ELSE live
  /\ UNCHANGED <<made, rstate, rsess, rfrom>>

DeleteSession(s) ==
  /\ Kind = "streamable" /\ s \in live /\ ~Busy(s)
  /\ live' = live \ {s} /\ open' = open \ {s}
  /\ UNCHANGED <<made, rstate, rsess, rfrom>>

(* ------------------------------------------------------------ notifications *)
SendNotification(s, ok) ==
  /\ s \in Sess /\ made > 0
  /\ ok = (s \in live /\ s \in open)          \* delivered on s's stream iff ok, never elsewhere
  /\ UNCHANGED vars

Broadcast(reached, count) ==
  /\ Kind = "streamable"
  /\ reached = live \cap open
  /\ count = Cardinality(reached)
  /\ UNCHANGED vars

Filters == SUBSET Sess
SendFiltered(F, reached, count) ==
  /\ Kind = "streamable"
  /\ reached = (live \cap F) \cap open
  /\ count = Cardinality(reached)
  /\ UNCHANGED vars

(* ------------------------------------------------------------ server-issued requests *)
SReqStart(s, r) ==
  /\ s \in live /\ s \in open /\ ~Busy(s)
  /\ rstate[r] = "unused"
  /\ \A q \in Req : (\E i, j \in 1..NReq : ReqSeq[i] = q /\ ReqSeq[j] = r /\ i < j) => rstate[q] # "unused"
  /\ rstate' = [rstate EXCEPT ![r] = "pending"]
  /\ rsess' = [rsess EXCEPT ![r] = s]
  /\ UNCHANGED <<made, live, open, rfrom>>

\* session p posts a response that carries r's request id
ClientAnswer(p, r, accepted) ==
  /\ p \in live /\ rstate[r] \in {"pending", "answered"}
  /\ accepted = (rstate[r] = "pending" /\ (KeyBySession => p = rsess[r]))
  /\ IF accepted
       THEN rstate' = [rstate EXCEPT ![r] = "answered"] /\ rfrom' = [rfrom EXCEPT ![r] = p]
       ELSE UNCHANGED <<rstate, rfrom>>
  /\ UNCHANGED <<made, live, open, rsess>>

SReqReturn(s, r, from) ==
  /\ rstate[r] = "answered" /\ rsess[r] = s /\ from = rfrom[r]
  /\ rstate' = [rstate EXCEPT ![r] = "done"]
  /\ UNCHANGED <<made, live, open, rsess, rfrom>>

SReqCancel(s, r) ==
  /\ rstate[r] = "pending" /\ rsess[r] = s
  /\ rstate' = [rstate EXCEPT ![r] = "done"]
  /\ UNCHANGED <<made, live, open, rsess, rfrom>>

Next ==
  \/ \E s \in Sess : NewSession(s)
  \/ \E s \in Sess : OpenStream(s)
  \/ \E s \in Sess : CloseStream(s)
  \/ \E s \in Sess : DeleteSession(s)
  \/ \E s \in Sess, ok \in BOOLEAN : SendNotification(s, ok)
  \/ \E reached \in SUBSET Sess, count \in 0..NSess : Broadcast(reached, count)
  \/ \E F \in Filters, reached \in SUBSET Sess, count \in 0..NSess : SendFiltered(F, reached, count)
  \/ \E s \in Sess, r \in Req : SReqStart(s, r)
  \/ \E p \in Sess, r \in Req, a \in BOOLEAN : ClientAnswer(p, r, a)
  \/ \E s \in Sess, r \in Req, f \in Sess : SReqReturn(s, r, f)
  \/ \E s \in Sess, r \in Req : SReqCancel(s, r)

Spec == Init /\ [][Next]_vars

(* ------------------------------------------------------------ properties *)
TypeOK == live \subseteq Sess /\ open \subseteq live
\* the pending table: entries of requests still in flight
Pending == {r \in Req : rstate[r] \in {"pending", "answered"}}
AnswerFromAddresseeOnly == \A r \in Req : rfrom[r] # None => rfrom[r] = rsess[r]
NothingPendingAtQuiescence == (\A s \in Sess : ~Busy(s)) => Pending = {}
\* vacuity guard: the wrong-session answer is really explored
ReachWrongAnswer == ~(\E r \in Req : rstate[r] = "done" /\ rfrom[r] # None /\ made >= 2)
=============================================================================
