-------------------------------- MODULE Push --------------------------------
(* Server-initiated traffic (property C05): notifications addressed to a session, broadcast and
   filtered sends, and server-issued requests (roots/list) with their pending table.

   Sessions are opened in the order s1, s2, ...; a session may have an open listening stream.
   Sends carry as parameters what the caller must observe (ok flag / reached set / count), fixed
   by guards so that they appear in the edge labels of the dumped graph.

   A server-issued request is modelled in its steps:
       SReqStart(s,r,i)    a request is issued in session s: entry registered, frame written on s's stream;
                           i = "auto" (server-chosen unique id, ListRoots) or "x" (ONE caller-chosen id that
                           different sessions may use at the same time - ids are scoped to a session)
       ClientAnswer(p,r,q) session p POSTs a response carrying request r's id (p may be the wrong session);
                           q = the request it is accepted for, or None
       SReqReturn(s,r,from) ListRoots returns the accepted answer (from = the session that posted it)
       SReqCancel(s,r)     the caller's context ends first: ListRoots returns an error
   KeyBySession = TRUE : the pending entry is matched on (session, id)            (intended)
                = FALSE: on the id alone - any session's answer is accepted       (as built, defect)  *)
EXTENDS Naturals, FiniteSets, Sequences, TLC

CONSTANTS NSess, NReq, Kind, KeyBySession
\* Kind: "streamable" (sessions + optional GET stream, broadcast, filtered) | "legacy" (stream = session)

SessSeq == <<"s1", "s2", "s3">>
ReqSeq == <<"r1", "r2", "r3">>
Sess == {SessSeq[i] : i \in 1..NSess}
Req == {ReqSeq[i] : i \in 1..NReq}
None == "none"

VARIABLES made,      \* number of sessions created so far
          live,      \* sessions that exist
          open,      \* sessions with an open stream
          rstate,    \* request r: "unused" | "pending" | "answered" | "done"
          rsess,     \* session r was issued in
          rfrom,     \* session whose answer was accepted for r
          rid        \* id class of r: "none" | "auto" | "x"

vars == <<made, live, open, rstate, rsess, rfrom, rid>>

Init ==
  /\ made = 0 /\ live = {} /\ open = {}
  /\ rstate = [r \in Req |-> "unused"] /\ rsess = [r \in Req |-> None] /\ rfrom = [r \in Req |-> None]
  /\ rid = [r \in Req |-> "none"]

Busy(s) == \E r \in Req : rstate[r] \in {"pending", "answered"} /\ rsess[r] = s

NewSession(s) ==
  /\ made < NSess /\ s = SessSeq[made + 1]
  /\ made' = made + 1 /\ live' = live \cup {s}
  /\ open' = IF Kind = "legacy" THEN open \cup {s} ELSE open
  /\ UNCHANGED <<rstate, rsess, rfrom, rid>>

OpenStream(s) ==
  /\ Kind = "streamable" /\ s \in live /\ s \notin open
  /\ open' = open \cup {s}
  /\ UNCHANGED <<made, live, rstate, rsess, rfrom, rid>>

\* the client drops its stream; with the legacy transport the session dies with it
CloseStream(s) ==
  /\ s \in open /\ ~Busy(s)
  /\ open' = open \ {s}
  /\ live' = IF Kind = "legacy" THEN live \ {s} ELSE live
  /\ UNCHANGED <<made, rstate, rsess, rfrom, rid>>

DeleteSession(s) ==
  /\ Kind = "streamable" /\ s \in live /\ ~Busy(s)
  /\ live' = live \ {s} /\ open' = open \ {s}
  /\ UNCHANGED <<made, rstate, rsess, rfrom, rid>>

(* ------------------------------------------------------------ notifications *)
SendNotification(s, ok) ==
  /\ s \in Sess /\ made > 0
  /\ ok = (s \in live /\ s \in open)          \* delivered on s's stream iff ok, never elsewhere
  /\ UNCHANGED vars

Broadcast(reached, count) ==
  /\ Kind = "streamable"
  /\ reached = live \cap open
  /\ count = Cardinality(reached)
  /\ UNCHANGED vars

Filters == SUBSET Sess
SendFiltered(F, reached, count) ==
  /\ Kind = "streamable"
  /\ reached = (live \cap F) \cap open
  /\ count = Cardinality(reached)
  /\ UNCHANGED vars

(* ------------------------------------------------------------ server-issued requests *)
SReqStart(s, r, i) ==
  /\ s \in live /\ s \in open /\ ~Busy(s)
  /\ rstate[r] = "unused" /\ i \in {"auto", "x"}
  /\ \A q \in Req : (\E a, b \in 1..NReq : ReqSeq[a] = q /\ ReqSeq[b] = r /\ a < b) => rstate[q] # "unused"
  /\ rstate' = [rstate EXCEPT ![r] = "pending"]
  /\ rsess' = [rsess EXCEPT ![r] = s]
  /\ rid' = [rid EXCEPT ![r] = i]
  /\ UNCHANGED <<made, live, open, rfrom>>

\* q carries the same wire id as r
SameId(q, r) == q = r \/ (rid[q] = "x" /\ rid[r] = "x")
\* the pending request a response from p with r's id belongs to (at most one: one request per session at a time)
Target(p, r) == {q \in Req : rstate[q] = "pending" /\ SameId(q, r) /\ (KeyBySession => rsess[q] = p)}

\* session p posts a response that carries r's request id
ClientAnswer(p, r, q) ==
  /\ p \in live /\ rstate[r] \in {"pending", "answered"}
  /\ IF Target(p, r) = {} THEN q = None ELSE q \in Target(p, r)
  /\ IF q # None
       THEN rstate' = [rstate EXCEPT ![q] = "answered"] /\ rfrom' = [rfrom EXCEPT ![q] = p]
       ELSE UNCHANGED <<rstate, rfrom>>
  /\ UNCHANGED <<made, live, open, rsess, rid>>

SReqReturn(s, r, from) ==
  /\ rstate[r] = "answered" /\ rsess[r] = s /\ from = rfrom[r]
  /\ rstate' = [rstate EXCEPT ![r] = "done"]
  /\ UNCHANGED <<made, live, open, rsess, rfrom, rid>>

SReqCancel(s, r) ==
  /\ rstate[r] = "pending" /\ rsess[r] = s
  /\ rstate' = [rstate EXCEPT ![r] = "done"]
  /\ UNCHANGED <<made, live, open, rsess, rfrom, rid>>

Next ==
  \/ \E s \in Sess : NewSession(s)
  \/ \E s \in Sess : OpenStream(s)
  \/ \E s \in Sess : CloseStream(s)
  \/ \E s \in Sess : DeleteSession(s)
  \/ \E s \in Sess, ok \in BOOLEAN : SendNotification(s, ok)
  \/ \E reached \in SUBSET Sess, count \in 0..NSess : Broadcast(reached, count)
  \/ \E F \in Filters, reached \in SUBSET Sess, count \in 0..NSess : SendFiltered(F, reached, count)
  \/ \E s \in Sess, r \in Req, i \in {"auto", "x"} : SReqStart(s, r, i)
  \/ \E p \in Sess, r \in Req, q \in Req \cup {None} : ClientAnswer(p, r, q)
  \/ \E s \in Sess, r \in Req, f \in Sess : SReqReturn(s, r, f)
  \/ \E s \in Sess, r \in Req : SReqCancel(s, r)

Spec == Init /\ [][Next]_vars

(* ------------------------------------------------------------ properties *)
TypeOK == live \subseteq Sess /\ open \subseteq live
\* the pending table: entries of requests still in flight
Pending == {r \in Req : rstate[r] \in {"pending", "answered"}}
AnswerFromAddresseeOnly == \A r \in Req : rfrom[r] # None => rfrom[r] = rsess[r]
\* the addressee's own answer is never turned away while its request is pending
OwnAnswerAccepted == \A r \in Req : rstate[r] = "pending" => Target(rsess[r], r) = {r}
NothingPendingAtQuiescence == (\A s \in Sess : ~Busy(s)) => Pending = {}
\* vacuity guard: the wrong-session answer is really explored
ReachWrongAnswer == ~(\E r \in Req : rstate[r] = "done" /\ rfrom[r] # None /\ made >= 2)
=============================================================================
