------------------------------ MODULE PeerGone ------------------------------
(* The server side of C08: what a server holds for a peer is released once the peer's connections are gone.

   For each peer the server may hold: its listening stream entry ("stream"), running handler invocations
   ("handler") and entries of server-to-client requests waiting for the peer's answer ("pending").
   Vanish(p) closes or resets all connections of p.  Each kind of holding is released by its own step, which
   is enabled only by what the code really watches:
     stream   - the stream's request context ends with its connection
     handler  - the handler's context must end: it is bound to the POST connection (Streamable) or to the
                session's stream (legacy; HandlerBound = FALSE models a context nothing ever cancels)
     pending  - the waiting SendRequest returns when the handler's context ends                           *)
EXTENDS Naturals, FiniteSets, TLC

CONSTANTS NPeers, HandlerBound

Peers == 1..NPeers
Kinds == {"stream", "handler", "pending"}
States == {"idle-stream", "in-handler", "in-listroots", "in-listroots-late"}   \* late: the request is registered but not yet written

VARIABLES state,     \* the scenario: what every peer was doing when it vanished
          held,      \* held[p] \subseteq Kinds
          gone,      \* peers whose connections are gone
          ctxEnded   \* peers whose handler contexts have ended
vars == <<state, held, gone, ctxEnded>>

HoldFor(s) == CASE s = "idle-stream" -> {"stream"}
                [] s = "in-handler" -> {"stream", "handler"}
                [] s \in {"in-listroots", "in-listroots-late"} -> {"stream", "handler", "pending"}

Init == /\ state \in States
        /\ held = [p \in Peers |-> HoldFor(state)] /\ gone = {} /\ ctxEnded = {}

Vanish(p) == p \notin gone /\ gone' = gone \cup {p} /\ UNCHANGED <<state, held, ctxEnded>>
EndCtx(p) == /\ HandlerBound /\ p \in gone /\ p \notin ctxEnded
             /\ ctxEnded' = ctxEnded \cup {p} /\ UNCHANGED <<state, held, gone>>
DropStream(p) == /\ p \in gone /\ "stream" \in held[p]
                 /\ held' = [held EXCEPT ![p] = @ \ {"stream"}] /\ UNCHANGED <<state, gone, ctxEnded>>
DropPending(p) == /\ p \in ctxEnded /\ "pending" \in held[p]
                  /\ held' = [held EXCEPT ![p] = @ \ {"pending"}] /\ UNCHANGED <<state, gone, ctxEnded>>
EndHandler(p) == /\ p \in ctxEnded /\ "handler" \in held[p] /\ "pending" \notin held[p]
                 /\ held' = [held EXCEPT ![p] = @ \ {"handler"}] /\ UNCHANGED <<state, gone, ctxEnded>>

Next == \E p \in Peers : Vanish(p) \/ EndCtx(p) \/ DropStream(p) \/ DropPending(p) \/ EndHandler(p)
Spec == Init /\ [][Next]_vars /\ WF_vars(Next)

NothingHeldForLivePeerOnly == \A p \in Peers : p \notin gone => held[p] = HoldFor(state)
Released == <>(\A p \in Peers : held[p] = {})
Settled == \A p \in Peers : p \in gone /\ held[p] = {}
=============================================================================
