----------------------------- MODULE TraceParity -----------------------------
(* Trace validation for C14.  One event per request class (or per scripted server answer):
     [e |-> "p", what |-> "...", expect |-> <<reaction, ..>> (empty = not constrained by Core),
      answers |-> << [kind |-> k, reaction |-> "result" | "rpc:<code>" | ..., digest |-> "hash of the normalised result"] .. >>]
   All transports (or all clients) must have given the same answer: same reaction class and, for a
   success, the same normalised result; when Core constrains the class, the common reaction must
   be one it admits (Core!Expect, passed in by the orchestrator).                             *)
EXTENDS Naturals, Sequences, FiniteSets, TLC, Json

VARIABLES l
TraceLog == ndJsonDeserialize("trace.ndjson")
Ev == TraceLog[l]
ToSet(q) == {q[j] : j \in 1..Len(q)}

AllAlike == \A a, b \in 1..Len(Ev.answers) :
              /\ Ev.answers[a].reaction = Ev.answers[b].reaction
              /\ Ev.answers[a].digest = Ev.answers[b].digest
Admitted == Len(Ev.expect) = 0 \/ \A a \in 1..Len(Ev.answers) : Ev.answers[a].reaction \in ToSet(Ev.expect)

TInit == l = 1
TNext == l <= Len(TraceLog) /\ Len(Ev.answers) >= 2 /\ AllAlike /\ Admitted /\ l' = l + 1
TraceSpec == TInit /\ [][TNext]_l

Mark == TLCSet(1, IF l - 1 > TLCGet(1) THEN l - 1 ELSE TLCGet(1))
ASSUME TLCSet(1, 0)
TraceAccepted ==
  IF TLCGet(1) = Len(TraceLog) THEN TRUE
  ELSE Print(<<"TRACE-HWM", TLCGet(1), "of", Len(TraceLog)>>, FALSE)
=============================================================================
