--------------------------- MODULE TraceHandshake ---------------------------
(* Trace validation for C16.  Server walks:  {"e":"regprompt"} {"e":"regresource"}
     {"e":"sinit","v":class,"version":class|"other","caps":[..]}
   client walks: {"e":"cinit","outcome":o,"err":e,"state":s,"wire":"zero"|"some"}
     {"e":"op","name":n,"err":e,"wire":w}   {"e":"close","state":s};   {"e":"cfg"} starts a walk. *)
EXTENDS Handshake, Json, Sequences

VARIABLES l
TraceLog == ndJsonDeserialize("trace.ndjson")
tvars == <<vars, l>>
Ev == TraceLog[l]
IsEvent(e) == l <= Len(TraceLog) /\ Ev.e = e /\ l' = l + 1
ToSet(q) == {q[j] : j \in 1..Len(q)}

TInit == Init /\ l = 1
TCfg == /\ IsEvent("cfg") /\ hasPrompt' = FALSE /\ hasResource' = FALSE
        /\ cstate' = "disconnected" /\ inited' = FALSE /\ closed' = FALSE /\ okBefore' = FALSE
TRegP == IsEvent("regprompt") /\ RegisterPrompt
TRegR == IsEvent("regresource") /\ RegisterResource
TSInit == IsEvent("sinit") /\ Ev.version \in Supported /\ ServerInitialize(Ev.v, Ev.version, ToSet(Ev.caps))
TCInit == IsEvent("cinit") /\ ClientInitialize(Ev.outcome, Ev.err, Ev.state, Ev.wire)
TOp == IsEvent("op") /\ ClientOp(Ev.name, Ev.err, Ev.wire)
TClose == IsEvent("close") /\ ClientClose(Ev.state)

TNext == TCfg \/ TRegP \/ TRegR \/ TSInit \/ TCInit \/ TOp \/ TClose
TraceSpec == TInit /\ [][TNext]_tvars

Mark == TLCSet(1, IF l - 1 > TLCGet(1) THEN l - 1 ELSE TLCGet(1))
ASSUME TLCSet(1, 0)
TraceAccepted ==
  IF TLCGet(1) = Len(TraceLog) THEN TRUE
  ELSE Print(<<"TRACE-HWM", TLCGet(1), "of", Len(TraceLog)>>, FALSE)
=============================================================================
