--------------------------- MODULE TraceGetStream ---------------------------
(* Trace validation for C11: the black-box events a raw HTTP peer records while it opens,
   drops and re-opens listening streams and the server sends to the session are checked,
   line by line, against the OBSERVABLE part (oracle) of GetStream.  The design variables of
   GetStream (pc, table, ...) are not logged and stay untouched: the oracle alone decides.

   events:  {"e":"open","c":..}   GET issued            {"e":"hdr","c":..}  headers received
            {"e":"close","c":..}  client drops stream   {"e":"eof","c":..}  body ended
            {"e":"sstart","k":..} send invoked          {"e":"send","k":..,"ok":..,"on":..} send returned
            {"e":"probe","ok":..,"on":..} an ungated send at a quiescent point
            {"e":"reset"}         next recorded run starts                                  *)
EXTENDS GetStream, Json

VARIABLES l, opening

TraceLog == ndJsonDeserialize("trace.ndjson")

tvars == <<vars, l, opening>>

Ev == TraceLog[l]
IsEvent(e) == l <= Len(TraceLog) /\ Ev.e = e /\ l' = l + 1

design == <<pc, wlock, mine, table, regd, tgt>>

TInit == Init /\ l = 1 /\ opening = FALSE

TOpen ==
  /\ IsEvent("open")
  /\ opening' = TRUE
  /\ opened' = opened + 1
  /\ exp' = [k \in Send |-> IF spc[k] \in {"looked", "writing"} THEN AnyS ELSE exp[k]]
  /\ UNCHANGED <<design, newest, dropped, spc, res>>

THdr ==
  /\ IsEvent("hdr")
  /\ Ev.c \in Conn
  /\ OHeaders(Ev.c)
  /\ opening' = FALSE
  /\ UNCHANGED <<design, opened, dropped, spc, res>>

TClose ==
  /\ IsEvent("close")
  /\ Ev.c \in Conn
  /\ ODrop(Ev.c)
  /\ UNCHANGED <<design, opened, newest, spc, res, opening>>

TEof ==
  /\ IsEvent("eof")
  /\ UNCHANGED <<vars, opening>>

TSStart ==
  /\ IsEvent("sstart")
  /\ Ev.k \in Send /\ spc[Ev.k] = "idle"
  /\ spc' = [spc EXCEPT ![Ev.k] = "looked"]
  /\ exp' = [exp EXCEPT ![Ev.k] = IF opening THEN AnyS ELSE OExpect]
  /\ UNCHANGED <<design, opened, newest, dropped, res, opening>>

TSend ==
  /\ IsEvent("send")
  /\ Ev.k \in Send /\ spc[Ev.k] = "looked"
  /\ LET r == [ok |-> Ev.ok, on |-> Ev.on] IN
       /\ SendConforms(Ev.k, r)          \* <- the property
       /\ res' = [res EXCEPT ![Ev.k] = r]
  /\ spc' = [spc EXCEPT ![Ev.k] = "done"]
  /\ UNCHANGED <<design, opened, newest, dropped, exp, opening>>

\* an ungated send issued and completed at a quiescent point of the run
TProbe ==
  /\ IsEvent("probe")
  /\ (~opening /\ OExpect # AnyS) => (Ev.ok /\ Ev.on = OExpect)
  /\ UNCHANGED <<vars, opening>>

TReset ==
  /\ IsEvent("reset")
  /\ pc' = [c \in Conn |-> "idle"] /\ table' = None /\ regd' = {}
  /\ wlock' = [c \in Conn |-> None] /\ mine' = [c \in Conn |-> FALSE]
  /\ opened' = 0 /\ newest' = None /\ dropped' = {}
  /\ spc' = [k \in Send |-> "idle"] /\ tgt' = [k \in Send |-> None]
  /\ exp' = [k \in Send |-> AnyS] /\ res' = [k \in Send |-> NoRes]
  /\ opening' = FALSE

TNext == TOpen \/ THdr \/ TClose \/ TEof \/ TSStart \/ TSend \/ TProbe \/ TReset

TraceSpec == TInit /\ [][TNext]_tvars

\* high-water mark of consumed lines (deterministic trace: equals the diameter, kept explicit for the report)
Mark == TLCSet(1, IF l - 1 > TLCGet(1) THEN l - 1 ELSE TLCGet(1))
ASSUME TLCSet(1, 0)

TraceAccepted ==
  IF TLCGet(1) = Len(TraceLog) THEN TRUE
  ELSE Print(<<"TRACE-HWM", TLCGet(1), "of", Len(TraceLog)>>, FALSE)
=============================================================================
