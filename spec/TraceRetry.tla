----------------------------- MODULE TraceRetry -----------------------------
(* Trace validation for C17: what one run of the real retry loop did,
     {"e":"cfg"}                    a new run starts
     {"e":"cancel"}                 the caller's context was cancelled (logged where it happened)
     {"e":"attempt","o":kind}       the operation was invoked and ended with this outcome
     {"e":"done","result":r}        the loop returned: "ok" | "ctxErr" | "err:<kind>"
   must be a behaviour of Retry; the loop's own steps (context check, end of a wait) are not logged
   and are inferred by TLC (silent steps).                                                   *)
EXTENDS Retry, Json

VARIABLES l
TraceLog == ndJsonDeserialize("trace.ndjson")
tvars == <<vars, l>>
Ev == TraceLog[l]
IsEvent(e) == l <= Len(TraceLog) /\ Ev.e = e /\ l' = l + 1

TInit == Init /\ l = 1
TCfg == IsEvent("cfg") /\ phase' = "check" /\ outcomes' = <<>> /\ waits' = <<>> /\ cancelled' = FALSE /\ result' = "none"
TCancel == IsEvent("cancel") /\ Cancel
TAttempt == IsEvent("attempt") /\ Ev.o \in Outcomes /\ Attempt(Ev.o)
TDone == /\ IsEvent("done") /\ phase = "done"
         /\ Ev.result = (IF result \in {"success", "rpcError"} THEN "ok"
                         ELSE IF result = "ctxErr" THEN "ctxErr" ELSE "err:" \o result)
         /\ UNCHANGED vars
Silent == (Check \/ WaitDone \/ CancelDuringWait) /\ UNCHANGED l

TNext == TCfg \/ TCancel \/ TAttempt \/ TDone \/ Silent
TraceSpec == TInit /\ [][TNext]_tvars

Mark == TLCSet(1, IF l - 1 > TLCGet(1) THEN l - 1 ELSE TLCGet(1))
ASSUME TLCSet(1, 0)
TraceAccepted ==
  IF TLCGet(1) = Len(TraceLog) THEN TRUE
  ELSE Print(<<"TRACE-HWM", TLCGet(1), "of", Len(TraceLog)>>, FALSE)
=============================================================================
