----------------------------- MODULE Customise -----------------------------
(* Client-side customisation applies to every outbound HTTP request (property C19).

   A client is configured with static headers (hdr), a before-request function (before: "none" | "ok" |
   "err" - failing for requests of kind errAt), a custom request handler (handler) and a custom path (path).
   Every operation of a call history emits HTTP requests of some KIND:
        Streamable client:  request  notification  stream (listening GET)  answer (to a server request)  delete
        legacy SSE client:  connect (GET)  request  notification  answer
   wire holds the requests the last operation put on the wire, as records
        [kind, path, via, hdr, sid, nb, ctx]
   path  the request went to the configured URL and path        via   it passed through the custom handler
   hdr   it carries every static header                          sid   it carries the session id (once issued)
   nb    number of passes through the before-request function    ctx   whose context values that function saw:
                                                                       "op" the calling operation's, "handshake"
                                                                       for background kinds, "none" without function
   SkipBefore / SkipHandler / SkipPath : kinds that are built by a code path which forgets the before-request
   function / the request handler / the path (the as-built defects; empty in the intended design).          *)
EXTENDS Naturals, Sequences, FiniteSets, TLC

CONSTANTS Client, SkipBefore, SkipHandler, SkipPath, MaxOps, LateSid

Kinds == IF Client = "streamable" THEN {"request", "notification", "stream", "answer", "delete"}
         ELSE {"connect", "request", "notification", "answer"}
Background == {"stream", "answer", "connect"}      \* emitted by background activity: the handshake's context values
Ops == IF Client = "streamable" THEN {"initialize", "call", "notify", "serverasks", "terminate"}
       ELSE {"initialize", "call", "notify", "serverasks"}

VARIABLES hdr, before, errAt, handler, path, getsse,     \* the configuration (fixed per behaviour); getsse: the listening stream is enabled
          latesid,     \* the server issues the session id not with the handshake but with the answer to the first later request
          sess,        \* a session id has been issued
          inited,      \* the handshake succeeded
          stream,      \* the background stream is up (server requests can arrive)
          nops, over,  \* history bound; over = the history has ended (terminate, or a failed handshake)
          wire, res    \* output of the last operation
vars == <<hdr, before, errAt, handler, path, getsse, latesid, sess, inited, stream, nops, over, wire, res>>
cfg == <<hdr, before, errAt, handler, path, getsse, latesid>>

Fails(k) == before = "err" /\ errAt = k
Rec(k, s) == [kind |-> k,
              path |-> k \notin SkipPath,
              via |-> handler /\ k \notin SkipHandler,
              hdr |-> hdr,
              sid |-> s,
              nb |-> IF before = "none" \/ k \in SkipBefore THEN 0 ELSE 1,
              ctx |-> IF before = "none" \/ k \in SkipBefore THEN "none" ELSE IF k \in Background THEN "handshake" ELSE "op"]
\* what one request of kind k puts on the wire: nothing when the before-request function fails for it
Put(k, s) == IF Fails(k) THEN {} ELSE {Rec(k, s)}

Init == /\ hdr \in BOOLEAN /\ before \in {"none", "ok", "err"} /\ handler \in BOOLEAN
        /\ path \in (IF Client = "streamable" THEN BOOLEAN ELSE {FALSE})
        /\ getsse \in (IF Client = "streamable" THEN BOOLEAN ELSE {TRUE})
        /\ latesid \in (IF Client = "streamable" /\ LateSid THEN BOOLEAN ELSE {FALSE})
        /\ errAt \in (IF before = "err" THEN Kinds ELSE {"-"})
        /\ sess = FALSE /\ inited = FALSE /\ stream = FALSE /\ nops = 0 /\ over = FALSE /\ wire = {} /\ res = "-"

\* the handshake: [connect,] initialize request, initialized notification, [listening stream]
Initialize ==
  /\ ~inited /\ ~over
  /\ LET c == IF Client = "legacy" THEN Put("connect", FALSE) ELSE {}
         conOK == Client # "legacy" \/ ~Fails("connect")
         r == IF conOK THEN Put("request", Client = "legacy") ELSE {}
         reqOK == conOK /\ ~Fails("request")
         n == IF reqOK THEN Put("notification", ~latesid) ELSE {}
         ok == reqOK /\ ~Fails("notification")
         \* without a session id from the handshake the client takes the server for a stateless one: no listening stream
         g == IF ok /\ Client = "streamable" /\ getsse /\ ~latesid THEN Put("stream", TRUE) ELSE {}
     IN /\ wire' = c \cup r \cup n \cup g
        /\ res' = IF ok THEN "ok" ELSE "err"
        /\ inited' = ok /\ over' = ~ok
        /\ sess' = (reqOK /\ ~latesid)
        /\ stream' = (ok /\ ~latesid /\ (IF Client = "streamable" THEN getsse /\ ~Fails("stream") ELSE TRUE))
  /\ nops' = nops + 1 /\ UNCHANGED cfg

\* a request carries the session id once one has been issued; its answer may be what issues it (latesid)
Call == /\ inited /\ ~over /\ nops < MaxOps
        /\ wire' = Put("request", sess) /\ res' = IF Fails("request") THEN "err" ELSE "ok"
        /\ sess' = (sess \/ ~Fails("request"))
        /\ nops' = nops + 1 /\ UNCHANGED <<cfg, inited, stream, over>>
Notify == /\ inited /\ ~over /\ nops < MaxOps
          /\ wire' = Put("notification", sess) /\ res' = IF Fails("notification") THEN "err" ELSE "ok"
          /\ nops' = nops + 1 /\ UNCHANGED <<cfg, sess, inited, stream, over>>
\* the server issues a request on the background stream; the client answers it with a POST of its own
ServerAsks == /\ inited /\ ~over /\ stream /\ nops < MaxOps
              /\ wire' = Put("answer", TRUE) /\ res' = IF Fails("answer") THEN "noanswer" ELSE "ok"
              /\ nops' = nops + 1 /\ UNCHANGED <<cfg, sess, inited, stream, over>>
\* the server issues a request of a method the client does not serve: the answer is an error, built by another code path
ServerAsksOther == /\ inited /\ ~over /\ stream /\ nops < MaxOps
                   /\ wire' = Put("answer", TRUE) /\ res' = IF Fails("answer") THEN "noanswer" ELSE "ok"
                   /\ nops' = nops + 1 /\ UNCHANGED <<cfg, sess, inited, stream, over>>
\* the server refuses the DELETE: the session lives on and later requests still carry its id
TerminateRefused == /\ Client = "streamable" /\ inited /\ ~over /\ nops < MaxOps /\ sess
                    /\ wire' = Put("delete", TRUE) /\ res' = IF Fails("delete") THEN "err" ELSE "refused"
                    /\ nops' = nops + 1 /\ UNCHANGED <<cfg, sess, inited, stream, over>>
Terminate == /\ Client = "streamable" /\ inited /\ ~over /\ sess      \* without a session there is nothing to terminate
             /\ wire' = Put("delete", TRUE) /\ res' = IF Fails("delete") THEN "err" ELSE "ok"
             /\ over' = TRUE /\ nops' = nops + 1 /\ UNCHANGED <<cfg, sess, inited, stream>>

Next == Initialize \/ Call \/ Notify \/ ServerAsks \/ ServerAsksOther \/ TerminateRefused \/ Terminate
Spec == Init /\ [][Next]_vars

(* The property, on every request on the wire *)
Customised ==
  \A r \in wire :
     /\ r.path /\ r.hdr = hdr /\ r.via = handler
     /\ r.nb = (IF before = "none" THEN 0 ELSE 1)
     /\ (before # "none" => r.ctx = (IF r.kind \in Background THEN "handshake" ELSE "op"))
NothingSentOnError == before = "err" => \A r \in wire : r.kind # errAt
\* once a session id has been issued every request carries it (inited is read BEFORE the step: the handshake's own
\* first request cannot carry what it is about to obtain)
SessionCarried == [][\A r \in wire' : (r.kind \in {"stream", "answer", "delete"} \/ (inited /\ sess)) => r.sid]_vars
=============================================================================
