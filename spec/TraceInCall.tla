---------------------------- MODULE TraceInCall ----------------------------
(* Trace validation for C10. Events of one call, in the order the harness mutex saw them:
     {"e":"cfg","mode":m,"reg":[kinds]}             configuration of the call (also resets)
     {"e":"emit","kind":k,"meta":b,"i":n}           the tool handler is about to emit n_i
     {"e":"deliver","kind":k,"meta":b,"i":n}        a registered client handler was entered with n_i
     {"e":"ret","result":"ok"|...}                  CallTool returned
     {"e":"wire","ids":[...]}                       event ids seen on the raw response stream
   Every step must keep InCall's observable invariants; the wire variables of InCall are not
   logged and stay untouched.                                                             *)
EXTENDS InCall, Json

VARIABLES l, ids

TraceLog == ndJsonDeserialize("trace.ndjson")
tvars == <<vars, l, ids>>
Ev == TraceLog[l]
IsEvent(e) == l <= Len(TraceLog) /\ Ev.e = e /\ l' = l + 1

unlogged == <<phase, wire, genN, genR, rd>>

TInit == Init /\ l = 1 /\ ids = <<>>

ToSet(s) == {s[j] : j \in 1..Len(s)}

TCfg ==
  /\ IsEvent("cfg")
  /\ mode' = Ev.mode /\ reg' = ToSet(Ev.reg)
  /\ emitted' = <<>> /\ delivered' = <<>> /\ result' = "none" /\ returned' = FALSE /\ ids' = <<>>
  /\ UNCHANGED unlogged

TEmit ==
  /\ IsEvent("emit")
  /\ ~returned
  /\ Ev.i = Len(emitted) + 1
  /\ emitted' = Append(emitted, [kind |-> Ev.kind, meta |-> Ev.meta, i |-> Ev.i])
  /\ UNCHANGED <<mode, reg, delivered, result, returned, ids, unlogged>>

TDeliver ==
  /\ IsEvent("deliver")
  /\ ~returned                                   \* nothing is dispatched after the call returned
  /\ delivered' = Append(delivered, [kind |-> Ev.kind, meta |-> Ev.meta, i |-> Ev.i])
  /\ IsPrefix(delivered', Expected)              \* InOrderOnce, with method and _meta presence intact
  /\ UNCHANGED <<mode, reg, emitted, result, returned, ids, unlogged>>

TRet ==
  /\ IsEvent("ret")
  /\ Ev.result = "ok"
  /\ delivered = Expected                        \* CompleteAtReturn
  /\ result' = "ok" /\ returned' = TRUE
  /\ UNCHANGED <<mode, reg, emitted, delivered, ids, unlogged>>

TWire ==
  /\ IsEvent("wire")
  /\ \A a, b \in 1..Len(Ev.ids) : a # b => Ev.ids[a] # Ev.ids[b]     \* EventIdsDistinct
  /\ ids' = Ev.ids
  /\ UNCHANGED <<vars>>

TNext == TCfg \/ TEmit \/ TDeliver \/ TRet \/ TWire
TraceSpec == TInit /\ [][TNext]_tvars

Mark == TLCSet(1, IF l - 1 > TLCGet(1) THEN l - 1 ELSE TLCGet(1))
ASSUME TLCSet(1, 0)
TraceAccepted ==
  IF TLCGet(1) = Len(TraceLog) THEN TRUE
  ELSE Print(<<"TRACE-HWM", TLCGet(1), "of", Len(TraceLog)>>, FALSE)
=============================================================================
