----------------------------- MODULE TraceBurst -----------------------------
(* Recorded bursts on the real servers (mcpdrive c05burst): {"e":"send","n":i,"ok":b} in sending order, then
   {"e":"recv","n":i} in the order the reference reader found them on the stream, then {"e":"end"}: everything accepted
   has arrived.  The model's own capacity is not bound to the implementation's: a send may be accepted or refused. *)
EXTENDS Naturals, Sequences, TLC, Json

Trace == ndJsonDeserialize("trace.ndjson")
VARIABLES l, accepted, delivered
tvars == <<l, accepted, delivered>>
Ev == Trace[l]
IsEvent(e) == l <= Len(Trace) /\ Ev.e = e /\ l' = l + 1

TReset == IsEvent("reset") /\ accepted' = <<>> /\ delivered' = <<>>
TSend == IsEvent("send") /\ accepted' = (IF Ev.ok THEN Append(accepted, Ev.n) ELSE accepted) /\ UNCHANGED delivered
\* the next frame on the stream is the next accepted notification
TRecv == /\ IsEvent("recv") /\ Len(delivered) < Len(accepted) /\ accepted[Len(delivered) + 1] = Ev.n
         /\ delivered' = Append(delivered, Ev.n) /\ UNCHANGED accepted
TEnd == IsEvent("end") /\ delivered = accepted /\ UNCHANGED <<accepted, delivered>>

TNext == TReset \/ TSend \/ TRecv \/ TEnd
TInit == l = 1 /\ accepted = <<>> /\ delivered = <<>>
TraceSpec == TInit /\ [][TNext]_tvars

Mark == TLCSet(1, IF l - 1 > TLCGet(1) THEN l - 1 ELSE TLCGet(1))
ASSUME TLCSet(1, 0)
TraceAccepted ==
  IF TLCGet(1) = Len(Trace) THEN TRUE
  ELSE Print(<<"TRACE-HWM", TLCGet(1), "of", Len(Trace)>>, FALSE)
=============================================================================
