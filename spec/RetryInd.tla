------------------------------ MODULE RetryInd ------------------------------
(* The attempt bound of the retry loop for ANY MaxRetries (property C17), as an inductive invariant
   discharged by Apalache:   Init => IndInv   and   IndInv /\ Next => IndInv'.

   This is Retry.tla with the two history sequences replaced by what the bound depends on: their lengths
   (n = Len(outcomes), nw = Len(waits)).  TLC checks Retry.tla
   for MaxRetries in 0..3; this module removes that bound for the invariants Bounded, WaitsOK (length part)
   and CancelStops.                                                                      *)
EXTENDS Integers

CONSTANTS
  \* @type: Int;
  MaxRetries,
  \* @type: Bool;
  HasRetry

VARIABLES
  \* @type: Str;
  phase,
  \* @type: Int;
  n,
  \* @type: Int;
  nw,
  \* @type: Bool;
  cancelled,
  \* @type: Str;
  result

CInit == MaxRetries \in Nat /\ HasRetry \in BOOLEAN
Limit == IF HasRetry THEN MaxRetries ELSE 0

Init == phase = "check" /\ n = 0 /\ nw = 0 /\ cancelled = FALSE /\ result = "none"

Check ==
  /\ phase = "check"
  /\ IF cancelled /\ Limit > 0
       THEN phase' = "done" /\ result' = "ctxErr"
       ELSE phase' = "attempting" /\ UNCHANGED result
  /\ UNCHANGED <<n, nw, cancelled>>

\* transient = the attempt ended with a transient failure
Attempt(transient) ==
  /\ phase = "attempting"
  /\ n' = n + 1
  /\ IF transient /\ n + 1 < Limit + 1
       THEN phase' = "waiting" /\ nw' = nw + 1 /\ UNCHANGED result
       ELSE phase' = "done" /\ result' = "outcome" /\ UNCHANGED nw
  /\ UNCHANGED cancelled

WaitDone == phase = "waiting" /\ ~cancelled /\ phase' = "check" /\ UNCHANGED <<n, nw, cancelled, result>>
CancelDuringWait == phase = "waiting" /\ cancelled /\ phase' = "done" /\ result' = "ctxErr" /\ UNCHANGED <<n, nw, cancelled>>
Cancel == ~cancelled /\ phase # "done" /\ cancelled' = TRUE /\ UNCHANGED <<phase, n, nw, result>>

Next == Check \/ (\E t \in BOOLEAN : Attempt(t)) \/ WaitDone \/ CancelDuringWait \/ Cancel

TypeOK == /\ phase \in {"check", "attempting", "waiting", "done"} /\ n \in Nat /\ nw \in Nat
          /\ result \in {"none", "outcome", "ctxErr"} /\ cancelled \in BOOLEAN
          /\ MaxRetries \in Nat

\* the properties of Retry.tla that do not mention the contents of the sequences
Bounded == n <= Limit + 1
WaitsLen == nw <= n /\ nw >= n - 1
CancelStops == (result = "ctxErr") => cancelled

\* the inductive strengthening: where the loop stands determines how many attempts and waits there have been
IndInv ==
  /\ TypeOK
  /\ (phase \in {"check", "attempting"}) => (n <= Limit /\ nw = n /\ result = "none")
  /\ (phase = "waiting") => (n <= Limit /\ nw = n /\ n >= 1 /\ result = "none")
  /\ (phase = "done" /\ result = "outcome") => (n <= Limit + 1 /\ n >= 1 /\ nw = n - 1)
  /\ (phase = "done" /\ result = "ctxErr") => (n <= Limit /\ nw = n /\ cancelled)
  /\ (phase = "done") => result # "none"
  /\ (phase # "done") => result = "none"

IndInit == IndInv
Safety == Bounded /\ WaitsLen /\ CancelStops
=============================================================================
