-------------------------------- MODULE Wire --------------------------------
(* What a handler returns is what the caller receives (property C02).

   The channel handler -> server encoder -> transport framing -> client decoder is specified as the IDENTITY on
   a value algebra; this module is the enumerator of that algebra ("one implementation test per abstract value")
   and the oracle (got = sent).  A value is a flat record
       [fam, k1, s1, k2, s2, flag, extra]
   fam = "tool"      result with content <<item1[, item2]>> (k1 = "-": empty content), flag = isError,
                     extra = class of structuredContent
         "prompt"    messages <<[role, item1][, [other role, item2]]>>, flag = first role is assistant,
                     extra = class of the description
         "resource"  contents <<c1[, c2]>> with k in {"text","blob"}, flag = a mimeType is given
         "toolerr" | "prompterr" | "reserr"   the handler fails with a message of string class s1
         "tooldesc" | "promptdesc" | "resdesc"   a registered descriptor, read back through the list methods
   Item kinds: text image audio embtext embblob (embedded text / blob resource).
   String classes: empty ascii newline (LF, CR, CRLF inside) u2028 (U+2028/9, U+0085) quote (quotes, backslashes,
   "</script>", data: prefixes) percent (printf verbs, URL escapes, "100%") control (U+0001..001F, DEL) astral (emoji, combining marks, RTL) big (2 MiB).     *)
EXTENDS Naturals, TLC

Kinds == {"text", "image", "audio", "embtext", "embblob"}
SC == {"empty", "ascii", "newline", "u2028", "quote", "percent", "control", "astral", "big"}
PairSC == {"ascii", "empty", "newline"}
Structs == {"absent", "flat", "nested", "array", "number", "string"}

V(f, k1, s1, k2, s2, flag, extra) == [fam |-> f, k1 |-> k1, s1 |-> s1, k2 |-> k2, s2 |-> s2, flag |-> flag, extra |-> extra]

ToolValues ==
       {V("tool", k, s, "-", "-", e, st) : k \in Kinds, s \in SC, e \in BOOLEAN, st \in Structs}
  \cup {V("tool", a, s, b, s, e, "absent") : a \in Kinds, b \in Kinds, s \in PairSC, e \in BOOLEAN}
  \cup {V("tool", "-", "-", "-", "-", e, st) : e \in BOOLEAN, st \in Structs}
PromptValues ==
       {V("prompt", k, s, "-", "-", r, d) : k \in Kinds, s \in SC, r \in BOOLEAN, d \in {"absent", "ascii", "u2028"}}
  \cup {V("prompt", a, s, b, s, r, "absent") : a \in Kinds, b \in Kinds, s \in PairSC, r \in BOOLEAN}
ResourceValues ==
       {V("resource", k, s, "-", "-", m, "-") : k \in {"text", "blob"}, s \in SC, m \in BOOLEAN}
  \cup {V("resource", a, s, b, s, m, "-") : a \in {"text", "blob"}, b \in {"text", "blob"}, s \in PairSC, m \in BOOLEAN}
ErrorValues == {V(f, "-", s, "-", "-", FALSE, "-") : f \in {"toolerr", "prompterr", "reserr"}, s \in SC \ {"big"}}
\* descriptors as registered and as listed: s1 = class of the description, extra = shape of the input schema,
\* flag = annotations (tool) / arguments (prompt) / mimeType + size + annotations (resource) are given
DescValues ==
       {V("tooldesc", "-", s, "-", "-", a, sh) : s \in SC \ {"big"}, a \in BOOLEAN, sh \in {"none", "flat", "nested", "enum", "required"}}
  \cup {V("promptdesc", "-", s, "-", "-", a, "-") : s \in SC \ {"big"}, a \in BOOLEAN}
  \cup {V("resdesc", "-", s, "-", "-", a, "-") : s \in SC \ {"big"}, a \in BOOLEAN}
Values == ToolValues \cup PromptValues \cup ResourceValues \cup ErrorValues \cup DescValues

VARIABLES v, got, delivered
vars == <<v, got, delivered>>

Init == v \in Values /\ got = v /\ delivered = FALSE
Deliver == ~delivered /\ delivered' = TRUE /\ got' = v /\ UNCHANGED v
Next == Deliver
Spec == Init /\ [][Next]_vars

Identity == delivered => got = v
=============================================================================
