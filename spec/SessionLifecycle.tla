-------------------------- MODULE SessionLifecycle --------------------------
(* Streamable-HTTP session lifecycle (property C04), the session part of the Streamable server.

   State: which session ids have been issued, which are live, which were deleted, which live
   sessions have an open listening stream.  Every INPUT action carries, as parameters, what the
   property allows the peer to observe: the set of admissible HTTP statuses (exact codes or the
   classes "4xx"/"5xx") and what the Mcp-Session-Id response header must be:
       "new"  a fresh id (never seen before)      "same"  the id the request carried
       "none" no session header                   "same|none"  either (the statement is silent)
   The parameters are fixed by a guard (`st = ...`), so they appear in the edge labels of the
   dumped state graph and the walker compares them with the real exchange.                 *)
EXTENDS Naturals, FiniteSets, Sequences, TLC

CONSTANTS Mode,        \* "stateful" | "stateless" | "nosession"
          GetEnabled,  \* BOOLEAN
          NSess        \* number of session ids that may be issued

SessSeq == <<"s1", "s2", "s3", "s4">>
Sess == {SessSeq[i] : i \in 1..NSess}

\* header classes of a request
HNone == [cls |-> "none", s |-> "-"]
HLive(s) == [cls |-> "live", s |-> s]
HDeleted(s) == [cls |-> "deleted", s |-> s]
HNever == [cls |-> "never", s |-> "-"]
Headers == {HNone, HNever} \cup {HLive(s) : s \in Sess} \cup {HDeleted(s) : s \in Sess}

VARIABLES issued,   \* number of ids issued so far (ids are issued in the order s1, s2, ...)
          live, deleted, streams

vars == <<issued, live, deleted, streams>>

Init == issued = 0 /\ live = {} /\ deleted = {} /\ streams = {}

\* is the header consistent with the state (a "live" header names a live session, ...)
Valid(h) ==
  \/ h.cls \in {"none", "never"}
  \/ h.cls = "live" /\ h.s \in live
  \/ h.cls = "deleted" /\ h.s \in deleted

Known(h) == h.cls = "live"
Unknown(h) == h.cls \in {"deleted", "never"}

Stateful == Mode = "stateful"
NonErr == {"4xx", "5xx"}

(* ---------------------------------------------------------------- POST initialize *)
PostInitialize(h, st, hdr) ==
  /\ Valid(h)
  /\ IF ~Stateful THEN
        /\ st = {"200"} /\ hdr = "none" /\ UNCHANGED vars
     ELSE IF h.cls = "none" THEN
        /\ issued < NSess
        /\ st = {"200"} /\ hdr = "new"
        /\ issued' = issued + 1
        /\ live' = live \cup {SessSeq[issued + 1]}
        /\ UNCHANGED <<deleted, streams>>
     ELSE IF Known(h) THEN
        /\ st = {"200"} /\ hdr = "same" /\ UNCHANGED vars
     ELSE
        /\ st = {"404"} /\ hdr = "none" /\ UNCHANGED vars

(* ---------------------------------------------------------------- POST request (tools/list, ping) *)
PostRequest(h, st, hdr) ==
  /\ Valid(h)
  /\ UNCHANGED vars
  /\ IF ~Stateful THEN st = {"200"} /\ hdr = "none"
     ELSE IF h.cls = "none" THEN st = {"400"} /\ hdr = "none"
     ELSE IF Known(h) THEN st = {"200"} /\ hdr = "same"
     ELSE st = {"404"} /\ hdr = "none"

(* ---------------------------------------------------------------- POST notification *)
\* the statement is silent on the status of a notification in a live session (a second
\* notifications/initialized is answered 500 today): 202 or any error; same id if any
PostNotification(h, st, hdr) ==
  /\ Valid(h)
  /\ UNCHANGED vars
  /\ IF ~Stateful THEN st = {"202"} \cup NonErr /\ hdr = "none"
     ELSE IF h.cls = "none" THEN st = {"400"} /\ hdr = "none"
     ELSE IF Known(h) THEN st = {"202"} \cup NonErr /\ hdr = "same|none"
     ELSE st = {"404"} /\ hdr = "none"

(* ---------------------------------------------------------------- POST response (answer to a server request) *)
PostResponse(h, st, hdr) ==
  /\ Valid(h)
  /\ UNCHANGED vars
  /\ IF ~Stateful THEN st = {"202"} \cup NonErr /\ hdr = "none"
     ELSE IF h.cls = "none" THEN st = {"400"} /\ hdr = "none"
     ELSE IF Known(h) THEN st = {"202"} \cup NonErr /\ hdr = "same|none"
     ELSE st = {"404"} /\ hdr = "none"

(* ---------------------------------------------------------------- GET (listening stream) *)
Get(h, st, hdr) ==
  /\ Valid(h)
  /\ IF Mode = "stateless" \/ ~GetEnabled THEN
        /\ st = {"405"} /\ hdr = "none" /\ UNCHANGED vars
     ELSE IF Mode = "nosession" THEN
        /\ st = NonErr /\ hdr = "none" /\ UNCHANGED vars      \* no session to listen on: refused
     ELSE IF h.cls = "none" THEN
        /\ st = {"400"} /\ hdr = "none" /\ UNCHANGED vars
     ELSE IF Known(h) THEN
        /\ st = {"200"} /\ hdr = "same"
        /\ streams' = streams \cup {h.s}                       \* a newer stream replaces an older one (C11)
        /\ UNCHANGED <<issued, live, deleted>>
     ELSE
        /\ st = {"404"} /\ hdr = "none" /\ UNCHANGED vars

StreamClose(s) ==
  /\ s \in streams
  /\ streams' = streams \ {s}
  /\ UNCHANGED <<issued, live, deleted>>

(* ---------------------------------------------------------------- DELETE *)
\* ends: the session whose open stream must reach EOF ("-" if none)
Delete(h, st, hdr, ends) ==
  /\ Valid(h)
  /\ IF ~Stateful THEN
        /\ st = NonErr /\ hdr = "none" /\ ends = "-" /\ UNCHANGED vars
     ELSE IF h.cls = "none" THEN
        /\ st = {"400"} /\ hdr = "none" /\ ends = "-" /\ UNCHANGED vars
     ELSE IF Known(h) THEN
        /\ st = {"200"} /\ hdr = "same|none"
        /\ ends = IF h.s \in streams THEN h.s ELSE "-"
        /\ live' = live \ {h.s}
        /\ deleted' = deleted \cup {h.s}
        /\ streams' = streams \ {h.s}
        /\ UNCHANGED issued
     ELSE
        /\ st = {"404"} /\ hdr = "none" /\ ends = "-" /\ UNCHANGED vars

\* environment: the expiry sweep removes an idle session (modelled, not bound to the code)
Expire(s) ==
  /\ Stateful /\ s \in live /\ s \notin streams
  /\ live' = live \ {s} /\ deleted' = deleted \cup {s}
  /\ UNCHANGED <<issued, streams>>

StatusSets == {{"200"}, {"202"}, {"400"}, {"404"}, {"405"}, NonErr, {"202"} \cup NonErr}
HdrKinds == {"new", "same", "none", "same|none"}

Next ==
  \/ \E h \in Headers, st \in StatusSets, hdr \in HdrKinds : PostInitialize(h, st, hdr)
  \/ \E h \in Headers, st \in StatusSets, hdr \in HdrKinds : PostRequest(h, st, hdr)
  \/ \E h \in Headers, st \in StatusSets, hdr \in HdrKinds : PostNotification(h, st, hdr)
  \/ \E h \in Headers, st \in StatusSets, hdr \in HdrKinds : PostResponse(h, st, hdr)
  \/ \E h \in Headers, st \in StatusSets, hdr \in HdrKinds : Get(h, st, hdr)
  \/ \E s \in Sess : StreamClose(s)
  \/ \E h \in Headers, st \in StatusSets, hdr \in HdrKinds, e \in Sess \cup {"-"} : Delete(h, st, hdr, e)

NextWithExpiry == Next \/ \E s \in Sess : Expire(s)

Spec == Init /\ [][Next]_vars
SpecExpiry == Init /\ [][NextWithExpiry]_vars

(* ---------------------------------------------------------------- properties of the design *)
TypeOK == issued \in 0..NSess /\ live \subseteq Sess /\ deleted \subseteq Sess /\ streams \subseteq Sess
IssuedSet == {SessSeq[i] : i \in 1..issued}
Partition == live \cap deleted = {} /\ live \cup deleted = IssuedSet
StreamsLive == streams \subseteq live
StatelessNeverIssues == ~Stateful => (issued = 0 /\ live = {})
\* ids are never reused and a deleted id never comes back
NoResurrection == [][deleted \subseteq deleted' /\ issued' >= issued]_vars
\* a request bearing an unknown id changes nothing (404_NoEffect): checked as an action property
\* over the whole next-state relation restricted to such requests
UnknownNoEffect ==
  [][\A h \in Headers, st \in StatusSets, hdr \in HdrKinds :
        (Unknown(h) /\ (PostInitialize(h, st, hdr) \/ PostRequest(h, st, hdr) \/ Get(h, st, hdr)))
           => UNCHANGED vars]_vars
=============================================================================
