------------------------ MODULE TraceClientSurvive ------------------------
(* Trace validation for C07. One scenario of a real client against a scripted server:
     {"e":"scenario","bad":class,"pos":p}
     {"e":"call1","r":"ok"|"err"|"wrong"|"hang"}    how call 1 ended (ok = its own result)
     {"e":"idle","spin":b}                           CPU burnt while nothing was going on
     {"e":"call2","r":..}    {"e":"close","ok":b}    {"e":"marker","seen":b} (listening stream only)
   must be a behaviour of ClientSurvive with both defect switches off; the reader's own steps
   (Consume, deadlines) are silent.                                                          *)
EXTENDS ClientSurvive, Json

VARIABLES l
TraceLog == ndJsonDeserialize("trace.ndjson")
tvars == <<vars, l>>
Ev == TraceLog[l]
IsEvent(e) == l <= Len(TraceLog) /\ Ev.e = e /\ l' = l + 1

TInit == Init /\ l = 1
TScenario == /\ IsEvent("scenario") /\ Ev.bad \in BadClasses /\ Ev.pos \in Positions
             /\ bad' = Ev.bad /\ pos' = Ev.pos /\ wire' = Script(Ev.pos) /\ reader' = "running"
             /\ c1' = "pending" /\ c2' = "idle" /\ phase' = 1
TCall1 == IsEvent("call1") /\ phase = 1 /\ c1 = Ev.r /\ IssueCall2
TIdle == IsEvent("idle") /\ ~Ev.spin /\ reader = "running" /\ UNCHANGED vars
TCall2 == IsEvent("call2") /\ phase = 2 /\ c2 = Ev.r /\ Ev.r = "ok" /\ UNCHANGED vars
TMarker == IsEvent("marker") /\ Ev.seen /\ reader = "running" /\ UNCHANGED vars
TClose == IsEvent("close") /\ Ev.ok /\ Close
Silent == (Consume \/ Deadline1 \/ Deadline2) /\ UNCHANGED l

TNext == TScenario \/ TCall1 \/ TIdle \/ TCall2 \/ TMarker \/ TClose \/ Silent
TraceSpec == TInit /\ [][TNext]_tvars

Mark == TLCSet(1, IF l - 1 > TLCGet(1) THEN l - 1 ELSE TLCGet(1))
ASSUME TLCSet(1, 0)
TraceAccepted ==
  IF TLCGet(1) = Len(TraceLog) THEN TRUE
  ELSE Print(<<"TRACE-HWM", TLCGet(1), "of", Len(TraceLog)>>, FALSE)
=============================================================================
