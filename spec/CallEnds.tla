------------------------------ MODULE CallEnds ------------------------------
(* Every client call ends when its connection or context ends; nothing leaks (property C08).

   NCalls calls are pending on one client connection.  The environment injects ONE fault
       "close" | "reset"   the server ends the connection             "stall"  the server goes silent
       "exit"  | "kill"    the stdio server process ends / is killed
       "clientclose"       the client's owner calls Close() while the calls are pending
   at a boundary of the exchange ("b0" nothing sent .. "mid" inside a message .. "done" after the complete
   answer), or the caller's context ends.  A pending call then returns an error promptly (for a stall: when
   its context ends); it returns a result only if the complete answer had arrived before the fault; it
   never returns a partial result.  After Close() everything the client created for the calls and the
   connection - reader goroutines, connections, the child process, pending entries - is released.

   LeakOnEarlyReturn = TRUE : returning at the first result leaves the response stream open (as built)  *)
EXTENDS Naturals, Sequences, FiniteSets, TLC

CONSTANTS NCalls, LeakOnEarlyReturn

Calls == 1..NCalls
Faults == {"close", "reset", "stall", "exit", "kill", "clientclose"}
Boundaries == {"b0", "headers-mid", "headers-done", "mid", "between", "done"}

VARIABLES fault, at,        \* the scenario
          st,               \* st[c]: "pending" | "ok" | "err" | "partial"
          delivered,        \* whose complete answer reached the client before the fault: "none" | "each" call | the "first"
          conn,             \* "up" | "down"
          ctxdone,          \* the callers' contexts have ended
          res,              \* resources held: subset of {"reader", "conn", "child", "pending"}
          closed
vars == <<fault, at, st, delivered, conn, ctxdone, res, closed>>

Got(c) == delivered = "each" \/ (delivered = "first" /\ c = 1)

Init == /\ fault \in Faults /\ at \in Boundaries
        /\ st = [c \in Calls |-> "pending"]
        /\ delivered \in IF at = "done" THEN {"each", "first"} ELSE {"none"}   \* one stream per call | one shared stream
        /\ conn = "up" /\ ctxdone = FALSE /\ res = {"reader", "conn", "child", "pending"} /\ closed = FALSE

Inject == /\ conn = "up" /\ fault # "stall"
          /\ conn' = "down" /\ UNCHANGED <<fault, at, st, delivered, ctxdone, res, closed>>

CtxEnds == ~ctxdone /\ ctxdone' = TRUE /\ UNCHANGED <<fault, at, st, delivered, conn, res, closed>>

Return(c) ==
  /\ st[c] = "pending"
  /\ \/ Got(c) /\ st' = [st EXCEPT ![c] = "ok"]
     \/ (conn = "down" \/ ctxdone) /\ st' = [st EXCEPT ![c] = "err"]   \* also when the answer had arrived: the fault may win
  /\ res' = IF (\A d \in Calls \ {c} : st[d] # "pending") THEN res \ {"pending"} ELSE res
  /\ UNCHANGED <<fault, at, delivered, conn, ctxdone, closed>>

Close == /\ ~closed /\ \A c \in Calls : st[c] # "pending"
         /\ closed' = TRUE
         /\ res' = IF LeakOnEarlyReturn /\ delivered # "none" /\ fault = "stall" THEN {"conn"} ELSE {}
         /\ UNCHANGED <<fault, at, st, delivered, conn, ctxdone>>

Next == Inject \/ CtxEnds \/ (\E c \in Calls : Return(c)) \/ Close
Spec == Init /\ [][Next]_vars /\ WF_vars(Inject) /\ WF_vars(CtxEnds) /\ WF_vars(Close) /\ \A c \in Calls : WF_vars(Return(c))

NeverPartial == \A c \in Calls : st[c] # "partial" /\ (st[c] = "ok" => Got(c))
ErrHasCause == \A c \in Calls : st[c] = "err" => (conn = "down" \/ ctxdone)
NothingLeaks == closed => res = {}
ReaderAlive == (conn = "up" /\ ~closed) => "reader" \in res     \* a later call on the same client can still be answered
EveryCallEnds == \A c \in Calls : <>(st[c] # "pending")
Closes == <>closed
=============================================================================
