------------------------------ MODULE Framing ------------------------------
(* One message per frame (property C09).

   A stream is the sequence of Write calls that reached it.  A frame f (one JSON-RPC message:
   a stdio line = payload + "\n"; an SSE event = "id:" line, "data:" line(s), blank line) is
   written with NParts Write calls.  Writers are concurrent: responders of concurrent requests,
   the notification / server-request pump, keep-alive comments.

   Locked = TRUE  : a per-stream lock is held from the first to the last Write of a frame (intended)
   Locked = FALSE : no lock (the stdio server as built: outputMu is declared but never taken)

   The unlocked model is also the GENERATOR of schedules: every interleaving of the Write calls of
   the frames is forced on the real writers through the hook gates; what decides is the byte
   stream seen by an independent reference de-framer.                                      *)
EXTENDS Naturals, Sequences, FiniteSets

CONSTANTS NFrames, NParts, Locked

FrameSeq == <<"f1", "f2", "f3", "f4">>
Frames == {FrameSeq[i] : i \in 1..NFrames}
None == "none"

VARIABLES idx,      \* idx[f] = number of parts of f written so far
          holder,   \* frame holding the stream lock, or None
          stream    \* sequence of <<frame, part>>

vars == <<idx, holder, stream>>

Init == idx = [f \in Frames |-> 0] /\ holder = None /\ stream = <<>>

\* one Write call of frame f (the first one takes the lock, the last one releases it)
Write(f) ==
  /\ idx[f] < NParts
  /\ Locked => (holder = f \/ (holder = None /\ idx[f] = 0))
  /\ stream' = Append(stream, <<f, idx[f] + 1>>)
  /\ idx' = [idx EXCEPT ![f] = @ + 1]
  /\ holder' = IF ~Locked THEN None ELSE IF idx[f] + 1 = NParts THEN None ELSE f

Next == \E f \in Frames : Write(f)

Spec == Init /\ [][Next]_vars

(* the reference de-framer: cut the chunk sequence at every last part; a frame is recovered when
   the chunks since the previous cut are exactly <<f,1>> .. <<f,NParts>>                         *)
RECURSIVE Deframe(_, _, _)
Deframe(s, cur, acc) ==
  IF s = <<>> THEN acc
  ELSE LET c == Head(s) cur2 == Append(cur, c) IN
       IF c[2] = NParts THEN Deframe(Tail(s), <<>>, Append(acc, cur2))
       ELSE Deframe(Tail(s), cur2, acc)

GoodFrame(fr) == Len(fr) = NParts /\ \A i \in 1..NParts : fr[i] = <<fr[1][1], i>>

\* every cut-out frame is one whole message
WellFramed == \A i \in 1..Len(Deframe(stream, <<>>, <<>>)) : GoodFrame(Deframe(stream, <<>>, <<>>)[i])

\* at quiescence the reader has recovered exactly the messages written, each once
AllRecovered ==
  (\A f \in Frames : idx[f] = NParts) =>
     LET d == Deframe(stream, <<>>, <<>>) IN
       /\ Len(d) = NFrames
       /\ \A f \in Frames : \E i \in 1..Len(d) : d[i][1][1] = f

\* parts of one frame are contiguous in the stream
Contiguous ==
  \A i, j \in 1..Len(stream) :
     (i < j /\ stream[i][1] = stream[j][1]) => \A k \in i..j : stream[k][1] = stream[i][1]
=============================================================================
