----------------------------- MODULE Correlation -----------------------------
(* Request / response correlation on one client connection (property C01).

   A call c is issued with a fresh id (its pending entry is registered first), travels to the
   server, its handler runs, the answer is enqueued on the connection's outgoing queue (bounded
   on legacy SSE; the other transports behave like an unbounded one), the writer emits it, the
   client's reader looks the id up in the pending table and hands the answer to the waiting call.

   BigIds   : calls whose id is >= 10^6 (the value at which "%v" of a float64 switches to
              exponent notation while the same number as int64 does not)
   IdFormatBug = TRUE : the reader's lookup key is produced by formatting the decoded JSON number
              (float64) with %v while the entry was registered with the int64 - big ids miss
   QueueDrop = TRUE   : an answer enqueued on a full queue is dropped (as built on legacy SSE)
              FALSE   : the responder waits for room (intended)
   The connection may be lost (ConnLost): answers in flight are gone and every call still outstanding fails - "nothing" is an
   admitted outcome only then.  Absent a configured retry nobody sends the request a second time:
   TransportResends = TRUE : the HTTP transport silently re-sends a request whose connection died before the first byte of the
              answer (what net/http does for requests it considers replayable) - the handler runs twice (self-test)        *)
EXTENDS Naturals, Sequences, FiniteSets, TLC

CONSTANTS NCalls, QueueCap, BigIds, IdFormatBug, QueueDrop, TransportResends

Calls == 1..NCalls

VARIABLES st,        \* "idle" "sent" "handled" "queued" "wire" "delivered" "returned" "lost" "failed"
          up,        \* the connection is up
          pending,   \* ids with a registered pending entry
          runs,      \* handler invocations per call
          queue,     \* outgoing queue of the connection
          wire,      \* emitted, not yet read by the client
          got        \* got[c] = call whose answer c received (0 = none)

vars == <<st, up, pending, runs, queue, wire, got>>

Init == /\ st = [c \in Calls |-> "idle"] /\ up = TRUE /\ pending = {} /\ runs = [c \in Calls |-> 0]
        /\ queue = <<>> /\ wire = <<>> /\ got = [c \in Calls |-> 0]

Issue(c) == /\ st[c] = "idle" /\ up
            /\ st' = [st EXCEPT ![c] = "sent"] /\ pending' = pending \cup {c}
            /\ UNCHANGED <<up, runs, queue, wire, got>>

HandlerRun(c) == /\ st[c] = "sent"
                 /\ st' = [st EXCEPT ![c] = "handled"] /\ runs' = [runs EXCEPT ![c] = @ + 1]
                 /\ UNCHANGED <<up, pending, queue, wire, got>>

Enqueue(c) ==
  /\ st[c] = "handled" /\ up
  /\ IF Len(queue) < QueueCap
       THEN queue' = Append(queue, c) /\ st' = [st EXCEPT ![c] = "queued"]
       ELSE /\ QueueDrop                             \* otherwise the responder waits (not enabled)
            /\ st' = [st EXCEPT ![c] = "lost"] /\ UNCHANGED queue
  /\ UNCHANGED <<up, pending, runs, wire, got>>

WriterEmit ==
  /\ queue # <<>> /\ up
  /\ wire' = Append(wire, Head(queue)) /\ queue' = Tail(queue)
  /\ st' = [st EXCEPT ![Head(queue)] = "wire"]
  /\ UNCHANGED <<up, pending, runs, got>>

KeyMatches(c) == ~(IdFormatBug /\ c \in BigIds)

ClientDispatch ==
  /\ wire # <<>> /\ up
  /\ LET c == Head(wire) IN
     /\ wire' = Tail(wire)
     /\ IF c \in pending /\ KeyMatches(c)
          THEN st' = [st EXCEPT ![c] = "delivered"] /\ got' = [got EXCEPT ![c] = c]
          ELSE st' = [st EXCEPT ![c] = "lost"] /\ UNCHANGED got
  /\ UNCHANGED <<up, pending, runs, queue>>

Return(c) == /\ st[c] = "delivered"
             /\ st' = [st EXCEPT ![c] = "returned"] /\ pending' = pending \ {c}
             /\ UNCHANGED <<up, runs, queue, wire, got>>

\* the connection is lost: what was on its way is gone
ConnLost == /\ up /\ up' = FALSE /\ queue' = <<>> /\ wire' = <<>>
            /\ st' = [c \in Calls |-> IF st[c] \in {"queued", "wire"} THEN "handled" ELSE st[c]]
            /\ UNCHANGED <<pending, runs, got>>
\* a call outstanding on a lost connection ends with an error
Fail(c) == /\ ~up /\ st[c] \in {"sent", "handled"}
           /\ st' = [st EXCEPT ![c] = "failed"] /\ pending' = pending \ {c}
           /\ UNCHANGED <<up, runs, queue, wire, got>>
\* the request had reached the server before the connection went: its handler may still run - once
HandlerLate(c) == /\ st[c] = "failed" /\ runs[c] = 0 /\ runs' = [runs EXCEPT ![c] = 1]
                  /\ UNCHANGED <<st, up, pending, queue, wire, got>>
\* the defect: the transport re-sends the request over a new connection, unasked
Resend(c) == /\ TransportResends /\ ~up /\ st[c] = "handled"
             /\ st' = [st EXCEPT ![c] = "sent"] /\ up' = TRUE
             /\ UNCHANGED <<pending, runs, queue, wire, got>>

Next == \/ \E c \in Calls : Issue(c) \/ HandlerRun(c) \/ Enqueue(c) \/ Return(c) \/ Fail(c) \/ HandlerLate(c) \/ Resend(c)
        \/ WriterEmit \/ ClientDispatch \/ ConnLost
Fair == /\ WF_vars(WriterEmit) /\ WF_vars(ClientDispatch)
        /\ \A c \in Calls : WF_vars(HandlerRun(c)) /\ WF_vars(Enqueue(c)) /\ WF_vars(Return(c)) /\ WF_vars(Fail(c))
Spec == Init /\ [][Next]_vars /\ Fair

OwnAnswer == \A c \in Calls : got[c] \in {0, c}
HandlerOnce == \A c \in Calls : runs[c] <= 1 /\ (st[c] = "returned" => runs[c] = 1)
PendingExact == pending = {c \in Calls : st[c] \notin {"idle", "returned", "failed"}}
\* "nothing" is an outcome only of a call whose connection went away
FailedOnlyWhenDown == \A c \in Calls : st[c] = "failed" => ~up
NothingLost == \A c \in Calls : st[c] # "lost"
EveryCallReturns == \A c \in Calls : (st[c] = "sent") ~> (st[c] \in {"returned", "failed"})
=============================================================================
