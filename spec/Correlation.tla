----------------------------- MODULE Correlation -----------------------------
(* Request / response correlation on one client connection (property C01).

   A call c is issued with a fresh id (its pending entry is registered first), travels to the
   server, its handler runs, the answer is enqueued on the connection's outgoing queue (bounded
   on legacy SSE; the other transports behave like an unbounded one), the writer emits it, the
   client's reader looks the id up in the pending table and hands the answer to the waiting call.

   BigIds   : calls whose id is >= 10^6 (the value at which "%v" of a float64 switches to
              exponent notation while the same number as int64 does not)
   IdFormatBug = TRUE : the reader's lookup key is produced by formatting the decoded JSON number
              (float64) with %v while the entry was registered with the int64 - big ids miss
   QueueDrop = TRUE   : an answer enqueued on a full queue is dropped (as built on legacy SSE)
              FALSE   : the responder waits for room (intended)                           *)
EXTENDS Naturals, Sequences, FiniteSets, TLC

CONSTANTS NCalls, QueueCap, BigIds, IdFormatBug, QueueDrop

Calls == 1..NCalls

VARIABLES st,        \* "idle" "sent" "handled" "queued" "wire" "delivered" "returned" "lost"
          pending,   \* ids with a registered pending entry
          runs,      \* handler invocations per call
          queue,     \* outgoing queue of the connection
          wire,      \* emitted, not yet read by the client
          got        \* got[c] = call whose answer c received (0 = none)

vars == <<st, pending, runs, queue, wire, got>>

Init == /\ st = [c \in Calls |-> "idle"] /\ pending = {} /\ runs = [c \in Calls |-> 0]
        /\ queue = <<>> /\ wire = <<>> /\ got = [c \in Calls |-> 0]

Issue(c) == /\ st[c] = "idle"
            /\ st' = [st EXCEPT ![c] = "sent"] /\ pending' = pending \cup {c}
            /\ UNCHANGED <<runs, queue, wire, got>>

HandlerRun(c) == /\ st[c] = "sent"
                 /\ st' = [st EXCEPT ![c] = "handled"] /\ runs' = [runs EXCEPT ![c] = @ + 1]
                 /\ UNCHANGED <<pending, queue, wire, got>>

Enqueue(c) ==
  /\ st[c] = "handled"
  /\ IF Len(queue) < QueueCap
       THEN queue' = Append(queue, c) /\ st' = [st EXCEPT ![c] = "queued"]
       ELSE /\ QueueDrop                             \* otherwise the responder waits (not enabled)
            /\ st' = [st EXCEPT ![c] = "lost"] /\ UNCHANGED queue
  /\ UNCHANGED <<pending, runs, wire, got>>

WriterEmit ==
  /\ queue # <<>>
  /\ wire' = Append(wire, Head(queue)) /\ queue' = Tail(queue)
  /\ st' = [st EXCEPT ![Head(queue)] = "wire"]
  /\ UNCHANGED <<pending, runs, got>>

KeyMatches(c) == ~(IdFormatBug /\ c \in BigIds)

ClientDispatch ==
  /\ wire # <<>>
  /\ LET c == Head(wire) IN
     /\ wire' = Tail(wire)
     /\ IF c \in pending /\ KeyMatches(c)
          THEN st' = [st EXCEPT ![c] = "delivered"] /\ got' = [got EXCEPT ![c] = c]
          ELSE st' = [st EXCEPT ![c] = "lost"] /\ UNCHANGED got
  /\ UNCHANGED <<pending, runs, queue>>

Return(c) == /\ st[c] = "delivered"
             /\ st' = [st EXCEPT ![c] = "returned"] /\ pending' = pending \ {c}
             /\ UNCHANGED <<runs, queue, wire, got>>

Next == (\E c \in Calls : Issue(c) \/ HandlerRun(c) \/ Enqueue(c) \/ Return(c)) \/ WriterEmit \/ ClientDispatch
Fair == /\ WF_vars(WriterEmit) /\ WF_vars(ClientDispatch)
        /\ \A c \in Calls : WF_vars(HandlerRun(c)) /\ WF_vars(Enqueue(c)) /\ WF_vars(Return(c))
Spec == Init /\ [][Next]_vars /\ Fair

OwnAnswer == \A c \in Calls : got[c] \in {0, c}
HandlerOnce == \A c \in Calls : runs[c] <= 1 /\ (st[c] = "returned" => runs[c] = 1)
PendingExact == pending = {c \in Calls : st[c] \notin {"idle", "returned"}}
NothingLost == \A c \in Calls : st[c] # "lost"
EveryCallReturns == \A c \in Calls : (st[c] = "sent") ~> (st[c] = "returned")
=============================================================================
