---------------------------- MODULE TraceRegistry ----------------------------
(* Linearizability check of a recorded black-box history against Registry's sequential meaning.
     {"e":"inv","op":id,"k":"reg"|"unreg"|"list"|"call","n":name,"v":version}
     {"e":"ret","op":id,"res":[[name,version],..]}   (list)     {"e":"ret","op":id,"res":version|0}  (call)
     {"e":"ret","op":id}                              (reg / unreg)        {"e":"reset"}
   Between its invocation and its return every operation takes effect at one silent Linearize step;
   TLC searches for the choice of these instants that explains every logged result.          *)
EXTENDS Naturals, Sequences, FiniteSets, TLC, Json

CONSTANTS Ordered      \* TRUE: list answers must be in registration order (resources)

NameSet == {"n1", "n2", "n3"}
ApplyRegister(r, o, n, v) == <<[r EXCEPT ![n] = v], IF r[n] = 0 THEN Append(o, n) ELSE o>>
ApplyUnregister(r, o, n) == <<[r EXCEPT ![n] = 0], SelectSeq(o, LAMBDA x : x # n)>>
CallResult(r, n) == r[n]
ListSeq(r, o) == [k \in 1..Len(o) |-> <<o[k], r[o[k]]>>]

VARIABLES l, reg, order, pend
TraceLog == ndJsonDeserialize("trace.ndjson")
tvars == <<l, reg, order, pend>>
Ev == TraceLog[l]
ToSet(q) == {q[j] : j \in 1..Len(q)}

TInit == l = 1 /\ reg = [n \in NameSet |-> 0] /\ order = <<>> /\ pend = <<>>

\* pend: function op -> [k, n, v, done, res]; represented as a record-valued function over a set of op ids
Ops == DOMAIN pend

Invoke ==
  /\ l <= Len(TraceLog) /\ Ev.e = "inv" /\ Ev.op \notin Ops
  /\ pend' = pend @@ (Ev.op :> [k |-> Ev.k, n |-> Ev.n, v |-> Ev.v, done |-> FALSE, res |-> <<>>, num |-> 0])
  /\ l' = l + 1 /\ UNCHANGED <<reg, order>>

Linearize(o) ==
  /\ o \in Ops /\ ~pend[o].done
  /\ LET p == pend[o] IN
     CASE p.k = "reg" -> LET a == ApplyRegister(reg, order, p.n, p.v) IN
                           reg' = a[1] /\ order' = a[2] /\ pend' = [pend EXCEPT ![o].done = TRUE]
       [] p.k = "unreg" -> LET a == ApplyUnregister(reg, order, p.n) IN
                           reg' = a[1] /\ order' = a[2] /\ pend' = [pend EXCEPT ![o].done = TRUE]
       [] p.k = "list" -> /\ pend' = [pend EXCEPT ![o].done = TRUE, ![o].res = ListSeq(reg, order)]
                          /\ UNCHANGED <<reg, order>>
       [] p.k = "call" -> /\ pend' = [pend EXCEPT ![o].done = TRUE, ![o].num = CallResult(reg, p.n)]
                          /\ UNCHANGED <<reg, order>>
  /\ UNCHANGED l

Return ==
  /\ l <= Len(TraceLog) /\ Ev.e = "ret" /\ Ev.op \in Ops /\ pend[Ev.op].done
  /\ LET p == pend[Ev.op] IN
     CASE p.k = "list" -> IF Ordered THEN Ev.res = p.res
                          ELSE ToSet(Ev.res) = ToSet(p.res) /\ Len(Ev.res) = Len(p.res)   \* no duplicate, no phantom, none missing
       [] p.k = "call" -> Ev.res = p.num
       [] OTHER -> TRUE
  /\ pend' = [o \in Ops \ {Ev.op} |-> pend[o]]
  /\ l' = l + 1 /\ UNCHANGED <<reg, order>>

Reset ==
  /\ l <= Len(TraceLog) /\ Ev.e = "reset" /\ Ops = {}
  /\ reg' = [n \in NameSet |-> 0] /\ order' = <<>> /\ pend' = <<>> /\ l' = l + 1

TNext == Invoke \/ Return \/ Reset \/ (\E o \in Ops : Linearize(o))
TraceSpec == TInit /\ [][TNext]_tvars

Mark == TLCSet(1, IF l - 1 > TLCGet(1) THEN l - 1 ELSE TLCGet(1))
ASSUME TLCSet(1, 0)
TraceAccepted ==
  IF TLCGet(1) = Len(TraceLog) THEN TRUE
  ELSE Print(<<"TRACE-HWM", TLCGet(1), "of", Len(TraceLog)>>, FALSE)
=============================================================================
