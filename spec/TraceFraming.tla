---------------------------- MODULE TraceFraming ----------------------------
(* Trace validation for C09: the chunk log of a recording writer (one event per Write call that
   reached the stream: goroutine, does it open a frame, does it close one) must be a behaviour of
   the LOCKED Framing design: a chunk that opens a frame is only possible while no frame is open,
   every other chunk must come from the writer whose frame is open.  This is Framing!Write's
   guard `holder = f \/ (holder = None /\ idx[f] = 0)` for frames that are not known in advance.
   events: {"e":"w","g":<goroutine>,"first":bool,"last":bool}   {"e":"reset"}                  *)
EXTENDS Naturals, Sequences, TLC, Json

VARIABLES l, holder, nframes

TraceLog == ndJsonDeserialize("trace.ndjson")
tvars == <<l, holder, nframes>>
Ev == TraceLog[l]

TInit == l = 1 /\ holder = 0 /\ nframes = 0

TWrite ==
  /\ l <= Len(TraceLog) /\ Ev.e = "w"
  /\ IF Ev.first THEN holder = 0 ELSE holder = Ev.g
  /\ holder' = IF Ev.last THEN 0 ELSE Ev.g
  /\ nframes' = IF Ev.last THEN nframes + 1 ELSE nframes
  /\ l' = l + 1

TReset ==
  /\ l <= Len(TraceLog) /\ Ev.e = "reset"
  /\ holder = 0            \* a run never ends inside a frame
  /\ holder' = 0 /\ nframes' = 0 /\ l' = l + 1

TNext == TWrite \/ TReset
TraceSpec == TInit /\ [][TNext]_tvars

Mark == TLCSet(1, IF l - 1 > TLCGet(1) THEN l - 1 ELSE TLCGet(1))
ASSUME TLCSet(1, 0)
TraceAccepted ==
  IF TLCGet(1) = Len(TraceLog) THEN TRUE
  ELSE Print(<<"TRACE-HWM", TLCGet(1), "of", Len(TraceLog)>>, FALSE)
=============================================================================
