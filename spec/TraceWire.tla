------------------------------ MODULE TraceWire ------------------------------
(* Recorded round trips of real handler return values (mcpdrive c02) against Wire.
   x   v      the abstract value (a member of Values)
       sent   the projection of the Go value the handler returned      got   the projection of what the client
              obtained, or [err |-> message-digest-or-text]
   Projections are trees of kinds, digests of strings, mime types, flags: the step is accepted iff got = sent
   (for the error families: the caller got an error carrying the handler's message).                         *)
EXTENDS Wire, Json, Sequences

Trace == ndJsonDeserialize("trace.ndjson")
VARIABLE l
tvars == <<vars, l>>
Ev == Trace[l]

TX == /\ l <= Len(Trace) /\ Ev.e = "x" /\ l' = l + 1
      /\ Ev.v \in Values
      /\ v' = Ev.v /\ delivered' = TRUE /\ got' = Ev.v
      /\ Ev.got = Ev.sent

TNext == TX
TInit == Init /\ l = 1
TraceSpec == TInit /\ [][TNext]_tvars

Mark == TLCSet(1, IF l - 1 > TLCGet(1) THEN l - 1 ELSE TLCGet(1))
ASSUME TLCSet(1, 0)
TraceAccepted ==
  IF TLCGet(1) = Len(Trace) THEN TRUE
  ELSE Print(<<"TRACE-HWM", TLCGet(1), "of", Len(Trace)>>, FALSE)
=============================================================================
