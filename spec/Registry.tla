------------------------------ MODULE Registry ------------------------------
(* A registry of named entries (tools / prompts / resources) used while the server serves
   (property C12).  reg[n] = version of the entry registered under name n (0 = absent); `order`
   = names in registration order (a re-registration keeps the original position, an
   unregistration removes the name).

   Operations are atomic at their linearization point - ApplyRegister, ApplyUnregister, ListResult,
   CallResult are the sequential meaning used both by the design model below and by the
   linearizability check of recorded histories (TraceRegistry).

   Design model: Workers run operations; a List is either one atomic step (Atomic = TRUE, the
   intended design: the whole list is built under the registry lock) or two steps - names first,
   entries later - (Atomic = FALSE: a list assembled from two reads).  ListIsSnapshot says that a
   returned list equals the registry content at SOME instant between invocation and return.   *)
EXTENDS Naturals, Sequences, FiniteSets, TLC

CONSTANTS Names, MaxVersion, Atomic, NListers

VARIABLES reg, order, nextv,
          lpc,     \* lister i: "idle" | "names" (has read the names) | "done"
          lnames,  \* names the lister read in its first step
          lres,    \* what the lister returned: set of <<name, version>>
          lseen    \* registry contents that existed since the lister started

vars == <<reg, order, nextv, lpc, lnames, lres, lseen>>
Listers == 1..NListers

(* ---- sequential meaning *)
ApplyRegister(r, o, n, v) == <<[r EXCEPT ![n] = v], IF r[n] = 0 THEN Append(o, n) ELSE o>>
ApplyUnregister(r, o, n) == <<[r EXCEPT ![n] = 0], SelectSeq(o, LAMBDA x : x # n)>>
Content(r) == {<<n, r[n]>> : n \in {m \in DOMAIN r : r[m] # 0}}
CallResult(r, n) == r[n]      \* 0 = not found, otherwise the version whose handler runs

Init == /\ reg = [n \in Names |-> 0] /\ order = <<>> /\ nextv = 1
        /\ lpc = [i \in Listers |-> "idle"] /\ lnames = [i \in Listers |-> {}]
        /\ lres = [i \in Listers |-> {}] /\ lseen = [i \in Listers |-> {}]

Track(r2) == [i \in Listers |-> IF lpc[i] = "names" THEN lseen[i] \cup {Content(r2)} ELSE lseen[i]]

Register(n) ==
  /\ nextv <= MaxVersion
  /\ LET a == ApplyRegister(reg, order, n, nextv) IN reg' = a[1] /\ order' = a[2] /\ lseen' = Track(a[1])
  /\ nextv' = nextv + 1
  /\ UNCHANGED <<lpc, lnames, lres>>

Unregister(n) ==
  /\ reg[n] # 0
  /\ LET a == ApplyUnregister(reg, order, n) IN reg' = a[1] /\ order' = a[2] /\ lseen' = Track(a[1])
  /\ UNCHANGED <<nextv, lpc, lnames, lres>>

ListAtomic(i) ==
  /\ Atomic /\ lpc[i] = "idle"
  /\ lpc' = [lpc EXCEPT ![i] = "done"]
  /\ lres' = [lres EXCEPT ![i] = Content(reg)]
  /\ lseen' = [lseen EXCEPT ![i] = {Content(reg)}]
  /\ UNCHANGED <<reg, order, nextv, lnames>>

ListNames(i) ==
  /\ ~Atomic /\ lpc[i] = "idle"
  /\ lpc' = [lpc EXCEPT ![i] = "names"]
  /\ lnames' = [lnames EXCEPT ![i] = {n \in Names : reg[n] # 0}]
  /\ lseen' = [lseen EXCEPT ![i] = {Content(reg)}]
  /\ UNCHANGED <<reg, order, nextv, lres>>

ListEntries(i) ==
  /\ ~Atomic /\ lpc[i] = "names"
  /\ lpc' = [lpc EXCEPT ![i] = "done"]
  /\ lres' = [lres EXCEPT ![i] = {<<n, reg[n]>> : n \in lnames[i]}]      \* may contain <<n,0>>: a torn entry
  /\ UNCHANGED <<reg, order, nextv, lnames, lseen>>

Next == (\E n \in Names : Register(n) \/ Unregister(n)) \/ (\E i \in Listers : ListAtomic(i) \/ ListNames(i) \/ ListEntries(i))
Spec == Init /\ [][Next]_vars

ListIsSnapshot == \A i \in Listers : lpc[i] = "done" => lres[i] \in lseen[i]
OrderConsistent == /\ \A k \in 1..Len(order) : reg[order[k]] # 0
                   /\ \A n \in Names : reg[n] # 0 => \E k \in 1..Len(order) : order[k] = n
                   /\ \A a, b \in 1..Len(order) : a # b => order[a] # order[b]
=============================================================================
