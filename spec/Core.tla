-------------------------------- MODULE Core --------------------------------
(* The transport-independent core of a server (properties C03, C06, C14): which REACTION a request
   of a given class must get.  A request class = method x parameter class (x id kind x handler
   outcome for calls).  Reactions:
       "result"       a success response whose result has the shape prescribed for the method
       "rpc:<code>"   a JSON-RPC error response with that code           "rpc:any"  any error response
       "http4xx" "http5xx"  the request is refused at HTTP level (HTTP transports only)
       "none"         nothing comes back (notifications; 202 on HTTP)
   Expect(m, pc) is the set the property admits - strict where the statement is explicit (unknown
   method -32601, parameters missing / of the wrong shape -32602, handler failure -32603 with the
   handler's message, unparsable input -32700 or a 4xx) and wide where it is silent.  The same
   reference is used for every transport, hence all transports must answer alike (C14).      *)
EXTENDS Naturals, FiniteSets, TLC

Methods == {"initialize", "ping", "tools/list", "tools/call", "prompts/list", "prompts/get",
            "resources/list", "resources/read", "unknown/method",
            \* the remaining methods of the dispatch table, and one the library does not serve
            "resources/templates/list", "resources/subscribe", "resources/unsubscribe", "completion/complete", "logging/setLevel"}

NeedsParams == {"initialize", "tools/call", "prompts/get", "resources/read", "resources/subscribe", "resources/unsubscribe", "completion/complete"}
KeyOf == [m \in NeedsParams |-> CASE m = "initialize" -> "protocolVersion" [] m \in {"resources/read", "resources/subscribe", "resources/unsubscribe"} -> "uri"
                                   [] m = "completion/complete" -> "ref" [] OTHER -> "name"]
\* methods on which the statements are silent beyond "a well-formed answer": serving and refusing are both admitted
Optional == {"resources/subscribe", "resources/unsubscribe", "completion/complete", "logging/setLevel"}

\* parameter classes
PCommon == {"ok", "absent", "null", "array", "string", "number"}
PKeyed == {"keyMissing", "keyNumber", "keyNull", "keyObject", "unknownEntry"}
PCall == {"argsArray", "argsString", "argsNull", "argsMissing",
          "h:error", "h:isError", "h:nil", "h:noContent", "h:unencodable", "h:ctxError"}
PClasses(m) ==
  CASE m = "tools/call" -> PCommon \cup PKeyed \cup PCall \cup {"keyEmpty"}
    [] m = "prompts/get" -> PCommon \cup PKeyed \cup {"argsArray", "h:error", "h:nil"}
    [] m = "resources/read" -> PCommon \cup PKeyed \cup {"argsArray", "argsString", "h:error", "h:nil", "h:multi", "h:nilItem"}
    [] m = "initialize" -> PCommon \cup {"keyMissing", "keyNumber", "keyNull"}
    [] m \in {"resources/subscribe", "resources/unsubscribe"} -> PCommon \cup PKeyed
    [] m = "completion/complete" -> PCommon \cup {"keyMissing", "keyNumber", "keyNull", "unknownEntry"}
    [] m \in {"tools/list", "prompts/list", "resources/list"} -> PCommon \cup {"cursorNumber", "cursorNull", "cursorObject", "cursorUnknown"}
    [] OTHER -> PCommon

NotFound == {"rpc:-32601", "rpc:-32602", "rpc:-32002"}
Refuse == {"rpc:any", "http4xx", "http5xx"}

Expect(m, pc) ==
  IF m = "unknown/method" THEN {"rpc:-32601"}
  ELSE IF m \in Optional THEN
         IF pc = "ok" THEN {"result", "rpc:any"}
         ELSE IF m = "logging/setLevel" \/ pc = "unknownEntry" THEN {"result", "rpc:any"}
         ELSE {"rpc:any"}                      \* parameters absent or of the wrong shape are never served as a success
  ELSE IF m = "resources/templates/list" THEN       \* not among the methods every transport serves (stdio: -32601)
         IF pc \in {"ok", "absent", "null"} THEN {"result", "rpc:-32601"} ELSE {"result", "rpc:-32602", "rpc:-32601"}
  ELSE IF m \notin NeedsParams THEN
         IF pc \in {"ok", "absent", "null"} THEN {"result"} ELSE {"result", "rpc:-32602"}       \* incl. the cursor classes
  ELSE CASE pc = "ok" -> {"result"}
         [] pc \in {"absent", "null", "array", "string", "number"} -> {"rpc:-32602"}
         [] pc \in {"keyMissing", "keyNumber", "keyNull", "keyObject", "keyEmpty"} -> {"rpc:-32602"}
         [] pc = "unknownEntry" -> NotFound
         [] pc \in {"argsArray", "argsString"} -> {"rpc:-32602"}
         [] pc \in {"argsNull", "argsMissing"} -> {"result"}
         [] pc \in {"h:error", "h:ctxError"} -> {"rpc:-32603"}
         [] pc \in {"h:isError", "h:multi"} -> {"result"}
         [] pc \in {"h:nil", "h:noContent", "h:nilItem"} -> {"result", "rpc:-32603"}   \* a served result still has to fit MsgGrammar
         [] pc = "h:unencodable" -> {"rpc:-32603"}

IdKinds == {"int", "str"}

VARIABLES m, pc, idk, expect
vars == <<m, pc, idk, expect>>
Init == /\ m \in Methods /\ pc \in PClasses(m) /\ idk \in IdKinds /\ expect = Expect(m, pc)
Next == UNCHANGED vars
Spec == Init /\ [][Next]_vars

\* sanity of the reference itself
NeverEmpty == expect # {}
StrictWhereStated ==
  /\ (m = "unknown/method") => expect = {"rpc:-32601"}
  /\ (m \in NeedsParams \ Optional /\ pc \in {"absent", "array", "string", "number", "keyMissing", "keyNumber"}) => expect = {"rpc:-32602"}
  /\ (pc = "h:error") => expect = {"rpc:-32603"}
=============================================================================
