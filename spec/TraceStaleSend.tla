----------------------------- MODULE TraceStaleSend -----------------------------
(* Logs of mcpdrive c05stale against StaleSend (the design: CheckUnderLock = TRUE).  Events: look / acq / write per send (acq carries
   whether the send was refused there, write its reported result and whether the peer read the frame), end (how), notice.
   A parked inside its write has looked the stream up and holds the lock; B's acq is placed where it returned (it cannot have
   taken the lock earlier: A held it). *)
EXTENDS StaleSend, Sequences, TLC, Json

Trace == ndJsonDeserialize("trace.ndjson")
VARIABLE l
tvars == <<vars, l>>
Ev == Trace[l]
IsEvent(e) == l <= Len(Trace) /\ Ev.e = e /\ l' = l + 1

TReset == IsEvent("reset") /\ open' = TRUE /\ ended' = FALSE /\ noticed' = FALSE /\ lock' = "none"
          /\ pc' = [s \in Send |-> "idle"] /\ early' = [s \in Send |-> FALSE] /\ late' = [s \in Send |-> FALSE]
          /\ res' = [s \in Send |-> "none"] /\ got' = {}
TLook == IsEvent("look") /\ Lookup(Ev.s)
TAcq == IsEvent("acq") /\ Acquire(Ev.s) /\ (res'[Ev.s] = "refused") = Ev.refused
TWrite == IsEvent("write") /\ Write(Ev.s, Ev.ok) /\ (Ev.seen => Ev.s \in got')
TEndE == IsEvent("end") /\ End(Ev.how)
TNotice == IsEvent("notice") /\ Notice

TNext == TReset \/ TLook \/ TAcq \/ TWrite \/ TEndE \/ TNotice
TInit == Init /\ l = 1
TraceSpec == TInit /\ [][TNext]_tvars

Mark == TLCSet(1, IF l - 1 > TLCGet(1) THEN l - 1 ELSE TLCGet(1))
ASSUME TLCSet(1, 0)
TraceAccepted ==
  IF TLCGet(1) = Len(Trace) THEN TRUE
  ELSE Print(<<"TRACE-HWM", TLCGet(1), "of", Len(Trace)>>, FALSE)
=============================================================================
