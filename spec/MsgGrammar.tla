----------------------------- MODULE MsgGrammar -----------------------------
(* Grammar of the JSON-RPC 2.0 / MCP 2025-03-26 messages a server may emit, as predicates over
   TAGGED TREES (written from the protocol documents, independent of the Go structs):
      [k |-> "str", v |-> "..."]   [k |-> "num", v |-> "<decimal text>", int |-> BOOLEAN]
      [k |-> "bool", v |-> BOOLEAN]   [k |-> "null"]   [k |-> "arr", v |-> <<..>>]
      [k |-> "obj", f |-> <<key, key, ..>>, v |-> [key |-> tree]]    (f keeps order and duplicates)   *)
EXTENDS Naturals, Sequences, FiniteSets, TLC

ToSet(q) == {q[j] : j \in 1..Len(q)}
IsObj(t) == t.k = "obj"
IsArr(t) == t.k = "arr"
IsStr(t) == t.k = "str"
IsNum(t) == t.k = "num"
IsInt(t) == t.k = "num" /\ t.int
IsBool(t) == t.k = "bool"
Keys(t) == ToSet(t.f)
NoDupKeys(t) == Len(t.f) = Cardinality(Keys(t))
Has(t, key) == IsObj(t) /\ key \in Keys(t)
Get(t, key) == t.v[key]
StrField(t, key) == Has(t, key) /\ IsStr(Get(t, key))
OptStr(t, key) == Has(t, key) => IsStr(Get(t, key))
ObjField(t, key) == Has(t, key) /\ IsObj(Get(t, key))
ArrField(t, key) == Has(t, key) /\ IsArr(Get(t, key))
All(arr, P(_)) == \A j \in 1..Len(arr.v) : P(arr.v[j])

(* ---------------------------------------------------------------- envelope *)
Envelope(t) == IsObj(t) /\ NoDupKeys(t) /\ StrField(t, "jsonrpc") /\ Get(t, "jsonrpc").v = "2.0"
IdOK(t) == Has(t, "id") /\ Get(t, "id").k \in {"str", "num", "null"}
ErrorObj(e) == IsObj(e) /\ Has(e, "code") /\ IsInt(Get(e, "code")) /\ StrField(e, "message")
IsResponse(t) ==
  /\ Envelope(t) /\ IdOK(t) /\ ~Has(t, "method")
  /\ (Has(t, "result") /\ ~Has(t, "error")) \/ (~Has(t, "result") /\ Has(t, "error") /\ ErrorObj(Get(t, "error")))
\* a response to a request whose OWN id was of an exotic JSON type may echo that id
IsResponseFor(t, rid) ==
  /\ Envelope(t) /\ Has(t, "id") /\ (Get(t, "id").k \in {"str", "num", "null"} \/ Get(t, "id") = rid) /\ ~Has(t, "method")
  /\ (Has(t, "result") /\ ~Has(t, "error")) \/ (~Has(t, "result") /\ Has(t, "error") /\ ErrorObj(Get(t, "error")))
IsSuccess(t) == Has(t, "result")
IsError(t) == Has(t, "error")
ErrCode(t) == Get(Get(t, "error"), "code").v
IsNotification(t) == Envelope(t) /\ StrField(t, "method") /\ ~Has(t, "id") /\ ~Has(t, "result") /\ ~Has(t, "error")
IsRequest(t) == Envelope(t) /\ StrField(t, "method") /\ IdOK(t) /\ Get(t, "id").k # "null" /\ ~Has(t, "result") /\ ~Has(t, "error")
IsMessage(t) == IsResponse(t) \/ IsNotification(t) \/ IsRequest(t)

(* ---------------------------------------------------------------- result shapes *)
ResourceContents(r) == IsObj(r) /\ StrField(r, "uri") /\ OptStr(r, "mimeType")
                       /\ (StrField(r, "text") \/ StrField(r, "blob")) /\ ~(Has(r, "text") /\ Has(r, "blob"))
ContentItem(c) ==
  /\ IsObj(c) /\ StrField(c, "type")
  /\ LET ty == Get(c, "type").v IN
       CASE ty = "text" -> StrField(c, "text")
         [] ty \in {"image", "audio"} -> StrField(c, "data") /\ StrField(c, "mimeType")
         [] ty = "resource" -> ObjField(c, "resource") /\ ResourceContents(Get(c, "resource"))
         [] OTHER -> FALSE
ToolDescriptor(t) == IsObj(t) /\ StrField(t, "name") /\ OptStr(t, "description") /\ ObjField(t, "inputSchema")
PromptDescriptor(p) == IsObj(p) /\ StrField(p, "name") /\ OptStr(p, "description") /\ (Has(p, "arguments") => IsArr(Get(p, "arguments")))
ResourceDescriptor(r) == IsObj(r) /\ StrField(r, "uri") /\ StrField(r, "name") /\ OptStr(r, "mimeType")
TemplateDescriptor(t) == IsObj(t) /\ StrField(t, "name") /\ Has(t, "uriTemplate") /\ OptStr(t, "description") /\ OptStr(t, "mimeType")
PromptMessage(pm) == IsObj(pm) /\ StrField(pm, "role") /\ Get(pm, "role").v \in {"user", "assistant"}
                     /\ Has(pm, "content") /\ ContentItem(Get(pm, "content"))

ResultShape(method, r) ==
  /\ IsObj(r) /\ NoDupKeys(r)
  /\ CASE method = "initialize" ->
            /\ StrField(r, "protocolVersion") /\ ObjField(r, "capabilities") /\ ObjField(r, "serverInfo")
            /\ StrField(Get(r, "serverInfo"), "name") /\ StrField(Get(r, "serverInfo"), "version")
       [] method = "ping" -> TRUE
       [] method = "tools/list" -> ArrField(r, "tools") /\ All(Get(r, "tools"), ToolDescriptor)
       [] method = "tools/call" -> /\ ArrField(r, "content") /\ All(Get(r, "content"), ContentItem)
                                   /\ (Has(r, "isError") => IsBool(Get(r, "isError")))
       [] method = "prompts/list" -> ArrField(r, "prompts") /\ All(Get(r, "prompts"), PromptDescriptor)
       [] method = "prompts/get" -> ArrField(r, "messages") /\ All(Get(r, "messages"), PromptMessage) /\ OptStr(r, "description")
       [] method = "resources/list" -> ArrField(r, "resources") /\ All(Get(r, "resources"), ResourceDescriptor)
       [] method = "resources/read" -> ArrField(r, "contents") /\ All(Get(r, "contents"), ResourceContents)
       [] method = "resources/templates/list" -> ArrField(r, "resourceTemplates") /\ All(Get(r, "resourceTemplates"), TemplateDescriptor)
       [] method = "completion/complete" -> ObjField(r, "completion") /\ ArrField(Get(r, "completion"), "values")
       [] OTHER -> TRUE
=============================================================================
