---------------------------- MODULE TraceContext ----------------------------
(* Trace validation for C13: the log of what every stage of every concurrently processed request
   saw, in the order the stages were let through:
     {"e":"cfg","n":k}   {"e":"stage","r":req,"stage":"cf"|"body"|"mw"|"fh","token":seen}
   must be a behaviour of ReqContext with PerRequest = TRUE: the logged token is the one the
   specification's stage observes (sees'[r] ends with it).                                *)
EXTENDS ReqContext, Json, TLC

VARIABLES l
TraceLog == ndJsonDeserialize("trace.ndjson")
tvars == <<vars, l>>
Ev == TraceLog[l]
IsEvent(e) == l <= Len(TraceLog) /\ Ev.e = e /\ l' = l + 1

TInit == Init /\ l = 1
TCfg == /\ IsEvent("cfg")
        /\ pc' = [r \in Reqs |-> 0] /\ cfdone' = {} /\ ctx' = [r \in Reqs |-> "none"] /\ slot' = "none" /\ sees' = [r \in Reqs |-> <<>>]
TStage ==
  /\ IsEvent("stage") /\ Ev.r \in Reqs
  /\ Step(Ev.r)
  /\ (Ev.stage # "body") => sees'[Ev.r][Len(sees'[Ev.r])] = Ev.token
  /\ (Ev.stage = "body") <=> (sees'[Ev.r] = sees[Ev.r])
TNext == TCfg \/ TStage
TraceSpec == TInit /\ [][TNext]_tvars

Mark == TLCSet(1, IF l - 1 > TLCGet(1) THEN l - 1 ELSE TLCGet(1))
ASSUME TLCSet(1, 0)
TraceAccepted ==
  IF TLCGet(1) = Len(TraceLog) THEN TRUE
  ELSE Print(<<"TRACE-HWM", TLCGet(1), "of", Len(TraceLog)>>, FALSE)
=============================================================================
