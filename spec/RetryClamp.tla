----------------------------- MODULE RetryClamp -----------------------------
(* Clamping of a retry configuration into the documented ranges (C17, last sentence):
     MaxRetries 0..10, InitialBackoff 1ms..30s, BackoffFactor 1..10, MaxBackoff InitialBackoff..5min.
   Durations in units of 100 microseconds, the factor in hundredths.  Every grid point is an initial state;
   TLC checks range, idempotence and "in-range values are left alone", and the dumped states are
   the expected results for the real Validate().                                             *)
EXTENDS Integers, TLC

Ms == 10   \* unit: 100 microseconds
Sec == 1000 * Ms
Retries == {-5, -1, 0, 1, 3, 10, 11, 1000}
Initials == {-Sec, 0, 1, 5, Ms, 250 * Ms, Sec, 30 * Sec, 30 * Sec + 1, 3600 * Sec}
Factors == {-100, 0, 50, 99, 100, 150, 1000, 1001, 1000000}
Maxes == {-Sec, 0, Ms, 250 * Ms - 1, 250 * Ms, 10 * Sec, 300 * Sec, 300 * Sec + 1, 3600 * Sec}

Bound(x, lo, hi) == IF x < lo THEN lo ELSE IF x > hi THEN hi ELSE x

Clamp(c) ==
  LET i == Bound(c.initial, Ms, 30 * Sec) IN
  [retries |-> Bound(c.retries, 0, 10),
   initial |-> i,
   factor  |-> Bound(c.factor, 100, 1000),
   max     |-> Bound(c.max, i, 300 * Sec)]

VARIABLES cfg, out
Init == /\ cfg \in [retries : Retries, initial : Initials, factor : Factors, max : Maxes]
        /\ out = Clamp(cfg)
Next == UNCHANGED <<cfg, out>>
Spec == Init /\ [][Next]_<<cfg, out>>

InRange == /\ out.retries \in 0..10 /\ out.initial \in Ms..(30 * Sec)
           /\ out.factor \in 100..1000 /\ out.max \in out.initial..(300 * Sec)
Idempotent == Clamp(out) = out
KeepsValid ==
  (cfg.retries \in 0..10 /\ cfg.initial \in Ms..(30 * Sec) /\ cfg.factor \in 100..1000 /\ cfg.max \in cfg.initial..(300 * Sec))
     => out = cfg
=============================================================================
