------------------------------- MODULE Schema -------------------------------
(* Generated schemas describe what encoding/json really produces and accepts (property C18).

   Part 1 - the type grammar (the enumerator): a struct type with one or two fields, each field a KIND of Go type
   with a TAG class; the harness builds the type at run time (reflect.StructOf, or picks it from a small corpus of
   compile-time recursive types), generates its schema in the three styles and encodes a fully populated value.
   Part 2 - the semantics of the JSON-Schema subset the generators emit, as predicates over TAGGED TREES (the
   encoding of MsgGrammar.tla; "$ref" values arrive split into their JSON-pointer segments):
        Resolve(root, segs)          the sub-document a pointer designates
        RefsResolve(root)            every $ref in the document resolves inside the document
        Accepts(root, s, v, fuel)    instance v is valid against sub-schema s (type, properties, required,
                                     additionalProperties, items, anyOf, $ref with its siblings)
        Names(root, s, v, fuel)      wherever s describes an object by "properties", the instance's member names are
                                     exactly the property names (the instance is fully populated)                  *)
EXTENDS Integers, Sequences, FiniteSets, TLC

(* ------------------------------------------------------------------ part 1: types *)
FieldKinds == {"string", "int", "int64", "uint8", "float64", "bool", "bytes", "time", "iface", "rawmsg",
               "ptr-string", "ptr-struct", "slice-string", "slice-struct", "slice-ptr-struct", "array-int",
               "map-string", "map-struct", "map-int-key", "struct", "embedded", "embedded-ptr",
               "self-ptr", "self-slice", "self-map", "mutual", "shared-twice", "deep-shared", "array-byte",
               "emb-unexported", "emb-unexported-ptr", "self-rich", "anon-str", "anon-int",
               "ptr-int", "ptr-float64", "ptr-bool", "ptr-deep-shared",
               "ptr-bigint", "slice-ptr-bigint", "ptrrecv", "slice-ptrrecv", "emb-shadow"}
TagClasses == {"none", "renamed", "omitempty", "renamed-omitempty", "dash", "string-opt", "js-required", "js-description"}
Styles == {"inline", "defs", "nested"}

TypeDescr(k1, t1, k2, t2) == [k1 |-> k1, t1 |-> t1, k2 |-> k2, t2 |-> t2]
Types == {TypeDescr(k, t, "-", "-") : k \in FieldKinds, t \in TagClasses}
    \cup {TypeDescr(a, "none", b, "renamed") : a \in {"string", "struct", "embedded", "ptr-struct", "self-ptr", "slice-struct", "map-struct", "anon-str"}, b \in FieldKinds}

VARIABLES ty, style, checked
vars == <<ty, style, checked>>
Init == ty \in Types /\ style \in Styles /\ checked = FALSE
Check == ~checked /\ checked' = TRUE /\ UNCHANGED <<ty, style>>
Next == Check
Spec == Init /\ [][Next]_vars

(* ------------------------------------------------------------------ part 2: schema semantics *)
ToSet(q) == {q[j] : j \in 1..Len(q)}
IsObj(t) == t.k = "obj"
Has(t, key) == IsObj(t) /\ key \in ToSet(t.f)
Get(t, key) == t.v[key]
Keys(t) == ToSet(t.f)

RECURSIVE Resolve(_, _)
\* the node a pointer designates, or [k |-> "missing"]; a segment is [v |-> text, n |-> its value as an array index or -1]
Resolve(node, segs) ==
  IF segs = <<>> THEN node
  ELSE LET h == Head(segs) IN
       IF node.k = "obj" /\ h.v \in Keys(node) THEN Resolve(Get(node, h.v), Tail(segs))
       ELSE IF node.k = "arr" /\ h.n >= 0 /\ h.n + 1 \in 1..Len(node.v) THEN Resolve(node.v[h.n + 1], Tail(segs))
       ELSE [k |-> "missing"]

RECURSIVE Nodes(_)
Nodes(t) == {t} \cup (IF t.k = "obj" THEN UNION {Nodes(Get(t, key)) : key \in Keys(t)}
                      ELSE IF t.k = "arr" THEN UNION {Nodes(t.v[j]) : j \in 1..Len(t.v)} ELSE {})

RefOf(s) == Get(s, "$ref").v        \* the pre-split pointer: a sequence of segments
RefsResolve(root) == \A n \in Nodes(root) : (Has(n, "$ref") /\ Get(n, "$ref").k = "ptr") => Resolve(root, RefOf(n)).k # "missing"
NoForeignRefs(root) == \A n \in Nodes(root) : Has(n, "$ref") => Get(n, "$ref").k = "ptr"    \* "ptr" = starts with "#"

TypeOK(tyname, v) ==
  CASE tyname = "string" -> v.k = "str"
    [] tyname = "integer" -> v.k = "num" /\ v.int
    [] tyname = "number" -> v.k = "num"
    [] tyname = "boolean" -> v.k = "bool"
    [] tyname = "object" -> v.k = "obj"
    [] tyname = "array" -> v.k = "arr"
    [] tyname = "null" -> v.k = "null"
    [] OTHER -> FALSE

RECURSIVE Accepts(_, _, _, _)
Accepts(root, s, v, fuel) ==
  IF s.k = "bool" THEN s.v                         \* true / false schemas
  ELSE IF s.k # "obj" THEN FALSE
  ELSE
  /\ (Has(s, "$ref") =>
        /\ fuel > 0 /\ Get(s, "$ref").k = "ptr"
        /\ LET target == Resolve(root, RefOf(s)) IN target.k # "missing" /\ Accepts(root, target, v, fuel - 1))
  /\ (Has(s, "type") =>
        LET t == Get(s, "type") IN
          IF t.k = "str" THEN TypeOK(t.v, v)
          ELSE t.k = "arr" /\ \E j \in 1..Len(t.v) : TypeOK(t.v[j].v, v))
  /\ ((Has(s, "nullable") /\ v.k = "null") => TRUE)
  /\ ((Has(s, "properties") /\ v.k = "obj") =>
        \A key \in Keys(v) \cap Keys(Get(s, "properties")) : Accepts(root, Get(Get(s, "properties"), key), Get(v, key), fuel))
  /\ ((Has(s, "required") /\ v.k = "obj") => \A j \in 1..Len(Get(s, "required").v) : Get(s, "required").v[j].v \in Keys(v))
  /\ ((Has(s, "additionalProperties") /\ v.k = "obj") =>
        LET known == IF Has(s, "properties") THEN Keys(Get(s, "properties")) ELSE {} IN
          \A key \in Keys(v) \ known : Accepts(root, Get(s, "additionalProperties"), Get(v, key), fuel))
  /\ ((Has(s, "items") /\ v.k = "arr") => \A j \in 1..Len(v.v) : Accepts(root, Get(s, "items"), v.v[j], fuel))
  /\ (Has(s, "anyOf") => \E j \in 1..Len(Get(s, "anyOf").v) : Accepts(root, Get(s, "anyOf").v[j], v, fuel))

\* the sub-schema that finally describes an object: follow $ref and a first anyOf branch that is not "null"
RECURSIVE Describing(_, _, _)
Describing(root, s, fuel) ==
  IF fuel = 0 \/ s.k # "obj" THEN s
  ELSE IF Has(s, "$ref") /\ Get(s, "$ref").k = "ptr" /\ Resolve(root, RefOf(s)).k # "missing" THEN Describing(root, Resolve(root, RefOf(s)), fuel - 1)
  ELSE IF Has(s, "anyOf") /\ Len(Get(s, "anyOf").v) > 0 THEN Describing(root, Get(s, "anyOf").v[1], fuel - 1)
  ELSE s

RECURSIVE NamesIn(_, _, _, _, _)
\* top = TRUE: the instance is the fully populated top-level value, its member names EQUAL the property names;
\* below (recursion may have been cut) the member names are AMONG the property names
NamesIn(root, s0, v, fuel, top) ==
  LET s == Describing(root, s0, 8) IN
  IF fuel = 0 \/ s.k # "obj" THEN TRUE
  ELSE IF v.k = "obj" THEN
         /\ (Has(s, "properties") => IF top THEN Keys(v) = Keys(Get(s, "properties")) ELSE Keys(v) \subseteq Keys(Get(s, "properties")))
         /\ \A key \in Keys(v) :
              IF Has(s, "properties") /\ key \in Keys(Get(s, "properties")) THEN NamesIn(root, Get(Get(s, "properties"), key), Get(v, key), fuel - 1, FALSE)
              ELSE IF Has(s, "additionalProperties") /\ Get(s, "additionalProperties").k = "obj" THEN NamesIn(root, Get(s, "additionalProperties"), Get(v, key), fuel - 1, FALSE)
              ELSE TRUE
  ELSE IF v.k = "arr" /\ Has(s, "items") THEN \A j \in 1..Len(v.v) : NamesIn(root, Get(s, "items"), v.v[j], fuel - 1, FALSE)
  ELSE TRUE
Names(root, s, v, fuel) == NamesIn(root, s, v, fuel, TRUE)
=============================================================================
