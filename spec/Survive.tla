------------------------------- MODULE Survive -------------------------------
(* Servers survive arbitrary peer input (property C06).

   The peer feeds inputs of the classes below, in any order, interleaved with well-formed requests.
   A malformed input must be REFUSED - an HTTP error status or a JSON-RPC error object - or, when it
   cannot be told from a notification / a stray response, ignored; it must never crash the server,
   hang the exchange, reset the connection without an answer, or be answered with an empty or
   successful 2xx as if it had been served.  After any sequence of inputs a well-formed request on
   the same connection / session and on a fresh one is served, and the goroutines the library
   started for the exchanges are gone.

   Reactions observed by the reference peer:
     "refused"  HTTP 4xx/5xx or a JSON-RPC error frame          "served"   a success response
     "ignored"  nothing comes back (202 / silence)              "empty2xx" 2xx without any answer to a request
     "reset"    connection closed without a status               "hang"     no reaction within the bound   *)
EXTENDS Naturals, Sequences, FiniteSets, TLC

CONSTANTS MaxLen

\* input classes and what may happen to them
MustRefuse == {"syntax", "truncated", "utf8", "deep", "number-huge", "envelope-type", "params-type",
               "unknown-method", "wrong-path", "wrong-verb", "bad-content-length"}
MayIgnore == {"stray-response", "stray-error", "notification-unknown", "blank"}
Lenient == {"cursor", "meta-type", "header-garbage", "big-string", "version-less", "session-garbage", "dup-header", "id-null"}
Classes == MustRefuse \cup MayIgnore \cup Lenient \cup {"good"}

Allowed(c) ==
  CASE c = "good" -> {"served"}
    [] c \in MustRefuse -> {"refused"}
    [] c \in MayIgnore -> {"refused", "ignored"}
    [] OTHER -> {"refused", "ignored", "served"}

VARIABLES fed, alive, last
vars == <<fed, alive, last>>
Init == fed = <<>> /\ alive = TRUE /\ last = "none"

Feed(c, r) ==
  /\ Len(fed) < MaxLen /\ alive
  /\ r \in Allowed(c)
  /\ fed' = Append(fed, c) /\ last' = r /\ UNCHANGED alive

Reactions == {"refused", "served", "ignored"}
Next == \E c \in Classes, r \in Reactions : Feed(c, r)
Spec == Init /\ [][Next]_vars

StaysAlive == alive
GoodIsServed == (Len(fed) > 0 /\ fed[Len(fed)] = "good") => last = "served"
=============================================================================
