------------------------------- MODULE Retry -------------------------------
(* The client's retry loop (property C17).

   One request is attempted; each attempt ends with an outcome; a transient failure is followed by
   a back-off wait and another attempt, at most MaxRetries+1 attempts in all; the caller's context
   may be cancelled at any instant.  Outcomes:
     "success"   answer received        "rpcError"  JSON-RPC error answer (an answer, not a failure)
     "s408" "s409" "s429" "s5xx"         transient HTTP statuses
     "s4xx"      any other 4xx           "refused" "reset" "timeout" "eof"   transient network errors
     "other"     any other error
   Back-off (abstract units): Initial * Factor^(k-1) capped at MaxBackoff.                       *)
EXTENDS Naturals, Sequences, TLC

CONSTANTS MaxRetries, Initial, Factor, MaxBackoff, HasRetry

Transient == {"s408", "s409", "s429", "s5xx", "refused", "reset", "timeout", "eof"}
Final == {"success", "rpcError", "s4xx", "other"}
Outcomes == Transient \cup Final

VARIABLES phase,      \* "check" | "attempting" | "waiting" | "done"
          outcomes,   \* outcomes of the attempts made so far
          waits,      \* back-off waits started so far
          cancelled,  \* the caller's context is done
          result      \* "none" | an outcome | "ctxErr"

vars == <<phase, outcomes, waits, cancelled, result>>

Limit == IF HasRetry THEN MaxRetries ELSE 0
Min(a, b) == IF a < b THEN a ELSE b
RECURSIVE Pow(_, _)
Pow(b, e) == IF e = 0 THEN 1 ELSE b * Pow(b, e - 1)
Backoff(k) == Min(Initial * Pow(Factor, k - 1), MaxBackoff)

Init == phase = "check" /\ outcomes = <<>> /\ waits = <<>> /\ cancelled = FALSE /\ result = "none"

\* before each attempt the loop looks at the context (only when retrying is configured)
Check ==
  /\ phase = "check"
  /\ IF cancelled /\ Limit > 0
       THEN phase' = "done" /\ result' = "ctxErr"
       ELSE phase' = "attempting" /\ UNCHANGED result
  /\ UNCHANGED <<outcomes, waits, cancelled>>

Attempt(o) ==
  /\ phase = "attempting"
  /\ outcomes' = Append(outcomes, o)
  /\ IF o \in Transient /\ Len(outcomes) + 1 < Limit + 1
       THEN /\ phase' = "waiting"
            /\ waits' = Append(waits, Backoff(Len(outcomes) + 1))
            /\ UNCHANGED result
       ELSE /\ phase' = "done" /\ result' = o /\ UNCHANGED waits
  /\ UNCHANGED cancelled

WaitDone ==
  /\ phase = "waiting" /\ ~cancelled
  /\ phase' = "check"
  /\ UNCHANGED <<outcomes, waits, cancelled, result>>

\* the context ends while the loop is waiting: it stops at once with the context's error
CancelDuringWait ==
  /\ phase = "waiting" /\ cancelled
  /\ phase' = "done" /\ result' = "ctxErr"
  /\ UNCHANGED <<outcomes, waits, cancelled>>

Cancel ==
  /\ ~cancelled /\ phase # "done"
  /\ cancelled' = TRUE
  /\ UNCHANGED <<phase, outcomes, waits, result>>

Next == Check \/ (\E o \in Outcomes : Attempt(o)) \/ WaitDone \/ CancelDuringWait \/ Cancel
Spec == Init /\ [][Next]_vars /\ WF_vars(Check \/ WaitDone \/ CancelDuringWait) /\ WF_vars(\E o \in Outcomes : Attempt(o))

(* ------------------------------------------------------------ properties *)
Bounded == Len(outcomes) <= Limit + 1
OnlyAfterTransient == \A i \in 1..(Len(outcomes) - 1) : outcomes[i] \in Transient
NeverAfterFinal == \A i \in 1..Len(outcomes) : outcomes[i] \in Final => i = Len(outcomes)
WaitsOK == /\ Len(waits) <= Len(outcomes)
           /\ \A k \in 1..Len(waits) : waits[k] = Backoff(k)
           /\ Len(waits) >= Len(outcomes) - 1
NoRetryMeansOnce == ~HasRetry => Len(outcomes) <= 1
CancelStops == (result = "ctxErr") => cancelled
\* once the context is cancelled no NEW attempt starts (an attempt already running may finish)
NoAttemptAfterCancelSeen == [][(phase = "check" /\ cancelled /\ Limit > 0) => phase' = "done"]_vars
Termination == <>(phase = "done")
=============================================================================
