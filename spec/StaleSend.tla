----------------------------- MODULE StaleSend -----------------------------
(* C05, "reports as its count the number of sessions actually reached": a send to a session's listening stream is three steps
   in the code - Lookup (find the stream in the table), Acquire (take the stream's write lock; the design checks HERE whether the
   stream has ended and refuses), Write.  Two sends race with the end of the stream (the peer closes it, or a newer stream of the
   session supersedes it) and with the moment the server notices that end.

   Reached: a send that took the write lock after the server had noticed the end of the stream reports the session as not
   reached.  CheckUnderLock = FALSE is the variant that tests "has the stream ended" before waiting for the lock: TLC finds the
   send that queued behind another write, got the lock of an ended stream and reported success (self-test). *)
EXTENDS Naturals, FiniteSets
CONSTANT CheckUnderLock
Send == {"A", "B"}
VARIABLES open,      \* the peer still reads the stream
          ended,     \* the stream has ended (closed by the peer, or superseded by a newer stream of the session)
          noticed,   \* the server has noticed (the stream's context is cancelled)
          lock,      \* holder of the stream's write lock
          pc,        \* per send: idle looked writing done
          early,     \* per send: result of the "has it ended" test when it is made before the lock
          late,      \* per send: took the lock after the server had noticed
          res,       \* per send: none ok refused failed
          got        \* frames the peer has read
vars == <<open, ended, noticed, lock, pc, early, late, res, got>>

Init == /\ open = TRUE /\ ended = FALSE /\ noticed = FALSE /\ lock = "none"
        /\ pc = [s \in Send |-> "idle"] /\ early = [s \in Send |-> FALSE] /\ late = [s \in Send |-> FALSE]
        /\ res = [s \in Send |-> "none"] /\ got = {}

Lookup(s) ==
  /\ pc[s] = "idle"
  /\ IF ~CheckUnderLock /\ noticed
       THEN pc' = [pc EXCEPT ![s] = "done"] /\ res' = [res EXCEPT ![s] = "refused"] /\ UNCHANGED early
       ELSE pc' = [pc EXCEPT ![s] = "looked"] /\ early' = [early EXCEPT ![s] = TRUE] /\ UNCHANGED res
  /\ UNCHANGED <<open, ended, noticed, lock, late, got>>

Acquire(s) ==
  /\ pc[s] = "looked" /\ lock = "none"
  /\ late' = [late EXCEPT ![s] = noticed]
  /\ IF CheckUnderLock /\ noticed
       THEN pc' = [pc EXCEPT ![s] = "done"] /\ res' = [res EXCEPT ![s] = "refused"] /\ UNCHANGED lock
       ELSE pc' = [pc EXCEPT ![s] = "writing"] /\ lock' = s /\ UNCHANGED res
  /\ UNCHANGED <<open, ended, noticed, early, got>>

\* a write to a stream the peer no longer reads may fail or be swallowed by the connection's buffers
Write(s, ok) ==
  /\ pc[s] = "writing" /\ lock = s
  /\ (open => ok)
  /\ got' = IF open THEN got \cup {s} ELSE got
  /\ res' = [res EXCEPT ![s] = IF ok THEN "ok" ELSE "failed"]
  /\ pc' = [pc EXCEPT ![s] = "done"] /\ lock' = "none"
  /\ UNCHANGED <<open, ended, noticed, early, late>>

End(how) == /\ ~ended /\ ended' = TRUE /\ open' = (how = "newer")
            /\ UNCHANGED <<noticed, lock, pc, early, late, res, got>>
Notice == /\ ended /\ ~noticed /\ noticed' = TRUE
          /\ UNCHANGED <<open, ended, lock, pc, early, late, res, got>>

Next == \/ \E s \in Send : Lookup(s) \/ Acquire(s) \/ \E ok \in BOOLEAN : Write(s, ok)
        \/ \E how \in {"close", "newer"} : End(how)
        \/ Notice
Spec == Init /\ [][Next]_vars /\ WF_vars(Next)

TypeOK == /\ lock \in Send \cup {"none"} /\ pc \in [Send -> {"idle", "looked", "writing", "done"}]
          /\ res \in [Send -> {"none", "ok", "refused", "failed"}] /\ got \subseteq Send
\* the count a send reports: 1 iff res = "ok"
Reached == \A s \in Send : (res[s] = "ok" /\ late[s]) => FALSE
\* and what it reports as reached while the peer was reading has arrived
OkMeansGot == \A s \in Send : (res[s] = "ok" /\ ~ended) => s \in got
AllEnd == <>(\A s \in Send : pc[s] = "done")
=============================================================================
