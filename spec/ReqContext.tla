----------------------------- MODULE ReqContext -----------------------------
(* Request-scoped context (property C13).

   NReq requests of different clients are processed concurrently.  Request r carries a token
   (header); the HTTP context functions fold it into the request's context; then the request
   passes the stages  "cf" (context functions done) -> "mw" (middleware) -> "fh" (list filter or
   handler) -> done; the moment the rest of the request body arrives ("body", right after "cf" on
   Streamable HTTP, right before it on legacy SSE) is a fourth scheduling point at which nothing
   is observed.  Every other stage observes the context it is given.

   PerRequest = TRUE : the context travels with the request (intended)
              = FALSE: the enriched context is parked in one server-wide slot and read back by
                       later stages ("last writer wins" - the defect class this property excludes)

   The unconstrained interleavings of the stage steps are the schedules forced on the real server
   through gates inside the instrumented context function, middleware, filter and handler.      *)
EXTENDS Naturals, Sequences, FiniteSets

CONSTANTS NReq, PerRequest, BodyFirst

ReqSeq == <<"r1", "r2", "r3", "r4">>
Reqs == {ReqSeq[i] : i \in 1..NReq}
NSteps == 4

VARIABLES pc,       \* pc[r] = number of steps r has made (0..4)
          cfdone,   \* requests whose context functions have run
          ctx,      \* ctx[r] = token the request's own context carries ("none" before cf)
          slot,     \* the server-wide slot of the defective design
          sees      \* sees[r] = sequence of tokens the stages of r observed

vars == <<pc, cfdone, ctx, slot, sees>>
Token(r) == r     \* tokens are distinct per request: use the request name

Init == pc = [r \in Reqs |-> 0] /\ cfdone = {} /\ ctx = [r \in Reqs |-> "none"] /\ slot = "none" /\ sees = [r \in Reqs |-> <<>>]

\* which of the 4 steps is the context-function step and which the body step
CfStep == IF BodyFirst THEN 2 ELSE 1
BodyStep == IF BodyFirst THEN 1 ELSE 2

Step(r) ==
  /\ pc[r] < NSteps
  /\ pc' = [pc EXCEPT ![r] = @ + 1]
  /\ IF pc[r] + 1 = CfStep
       THEN /\ ctx' = [ctx EXCEPT ![r] = Token(r)]
            /\ slot' = Token(r)
            /\ cfdone' = cfdone \cup {r}
            /\ sees' = [sees EXCEPT ![r] = Append(@, Token(r))]
       ELSE IF pc[r] + 1 = BodyStep
       THEN UNCHANGED <<ctx, slot, cfdone, sees>>
       ELSE /\ sees' = [sees EXCEPT ![r] = Append(@, IF PerRequest THEN ctx[r] ELSE slot)]
            /\ UNCHANGED <<ctx, slot, cfdone>>

Next == \E r \in Reqs : Step(r)
Spec == Init /\ [][Next]_vars

\* every stage of r sees r's own token, whatever the other requests do
NoBleed == \A r \in Reqs : \A k \in 1..Len(sees[r]) : sees[r][k] = Token(r)
=============================================================================
