--------------------------- MODULE ClientSurvive ---------------------------
(* Clients survive arbitrary server output (property C07).

   A client has one call pending (call 1); the server emits a frame of class `bad` before, instead
   of, or after the well-formed answer; later the client issues call 2 which the server answers
   properly.  The client's reader consumes frames one at a time:
       a well-formed answer for a pending id resolves that call with its result,
       anything else is skipped - it may, at most, fail the call it arrives for.
   Whatever arrives, the reader keeps running (no crash, no busy loop), call 1 ends (with an error or
   with ITS OWN result) no later than its deadline, call 2 completes, Close succeeds.

   StickyDecoder = TRUE : after an undecodable frame the reader keeps failing on the same bytes
                          without consuming input (the stdio client as built)
   DoubleSignal  = TRUE : a repeated control frame is signalled on a one-shot channel again
                          (legacy SSE client as built: second `endpoint` event -> process dies)   *)
EXTENDS Naturals, Sequences, FiniteSets, TLC

CONSTANTS StickyDecoder, DoubleSignal

BadClasses == {"garbage", "nonjson", "wrongkind", "unknownid", "idtype", "giant", "blank", "comment",
               "noresult", "both", "badutf8", "control-repeat", "truncated", "fieldtype", "noevent", "otherevent", "streamend"}
Positions == {"before", "instead", "after"}

VARIABLES bad, pos,        \* the scenario
          wire,            \* frames not yet consumed: "bad" | "ans1" | "ans2"
          reader,          \* "running" | "crashed" | "spinning"
          c1, c2,          \* "idle" | "pending" | "ok" | "err" | "wrong"
          phase            \* 1: call 1 in flight, 2: call 2 in flight, 3: closed
vars == <<bad, pos, wire, reader, c1, c2, phase>>

Script(p) == CASE p = "before" -> <<"bad", "ans1">> [] p = "instead" -> <<"bad">> [] OTHER -> <<"ans1", "bad">>

Init == /\ bad \in BadClasses /\ pos \in Positions
        /\ wire = Script(pos) /\ reader = "running" /\ c1 = "pending" /\ c2 = "idle" /\ phase = 1

Undecodable(b) == b \in {"garbage", "nonjson", "badutf8", "truncated"}

Consume ==
  /\ reader = "running" /\ wire # <<>>
  /\ LET f == Head(wire) IN
     /\ wire' = Tail(wire)
     /\ IF f = "ans1" THEN c1' = (IF c1 = "pending" THEN "ok" ELSE c1) /\ UNCHANGED <<c2, reader>>
        ELSE IF f = "ans2" THEN c2' = (IF c2 = "pending" THEN "ok" ELSE c2) /\ UNCHANGED <<c1, reader>>
        ELSE /\ reader' = IF StickyDecoder /\ Undecodable(bad) THEN "spinning"
                          ELSE IF DoubleSignal /\ bad = "control-repeat" THEN "crashed" ELSE "running"
             \* may fail the call it arrives for, nothing else; an answer to that call with oddly typed fields
             \* ("fieldtype") may also be accepted leniently - it is the call's own answer
             /\ c1' \in {c1, IF c1 = "pending" THEN "err" ELSE c1} \cup (IF bad = "fieldtype" /\ c1 = "pending" THEN {"ok"} ELSE {})
             /\ UNCHANGED c2
  /\ UNCHANGED <<bad, pos, phase>>

\* the caller's deadline: a call that is still pending ends with an error
Deadline1 == phase = 1 /\ c1 = "pending" /\ c1' = "err" /\ UNCHANGED <<bad, pos, wire, reader, c2, phase>>
Deadline2 == phase = 2 /\ c2 = "pending" /\ reader # "running" /\ c2' = "err" /\ UNCHANGED <<bad, pos, wire, reader, c1, phase>>

IssueCall2 == /\ phase = 1 /\ c1 # "pending"
              /\ phase' = 2 /\ c2' = "pending" /\ wire' = Append(wire, "ans2")
              /\ UNCHANGED <<bad, pos, reader, c1>>
Close == phase = 2 /\ c2 # "pending" /\ phase' = 3 /\ UNCHANGED <<bad, pos, wire, reader, c1, c2>>

Next == Consume \/ Deadline1 \/ Deadline2 \/ IssueCall2 \/ Close
Spec == Init /\ [][Next]_vars /\ WF_vars(Consume) /\ WF_vars(Deadline1) /\ WF_vars(Deadline2) /\ WF_vars(IssueCall2) /\ WF_vars(Close)

ReaderSurvives == reader = "running"
NeverWrongAnswer == c1 # "wrong" /\ c2 # "wrong"
LaterCallCompletes == (phase = 3) => c2 = "ok"
Call1Ends == <>(c1 \in {"ok", "err"})
Finishes == <>(phase = 3)
=============================================================================
