------------------------------ MODULE TracePush ------------------------------
(* Trace validation for C05: one event per step of a walk on a real server,
     {"e":"new"|"open"|"close"|"delete","s":s}
     {"e":"notif","s":s,"ok":b,"reached":[..],"pending":n}
     {"e":"bcast","count":n,"reached":[..]}      {"e":"filtered","f":[..],"count":n,"reached":[..]}
     {"e":"sreq_start","s":s,"r":r,"id":"auto"|"x","reached":[..],"pending":n}   {"e":"answer","s":p,"r":r}
     {"e":"sreq_return","s":s,"r":r,"from":p,"pending":n}        {"e":"sreq_cancel","s":s,"r":r,"from":"error","pending":n}
     {"e":"cfg"} starts a new walk.
   Every event must be the Push action of the same name with the observed values as parameters.  *)
EXTENDS Push, Json

VARIABLES l
TraceLog == ndJsonDeserialize("trace.ndjson")
tvars == <<vars, l>>
Ev == TraceLog[l]
IsEvent(e) == l <= Len(TraceLog) /\ Ev.e = e /\ l' = l + 1
ToSet(q) == {q[j] : j \in 1..Len(q)}
\* an answered request's entry disappears as soon as its caller runs: between the two counts
PendingOK == /\ Ev.pending >= Cardinality({r \in Req : rstate'[r] = "pending"})
             /\ Ev.pending <= Cardinality({r \in Req : rstate'[r] \in {"pending", "answered"}})

TInit == Init /\ l = 1
TCfg == /\ IsEvent("cfg")
        /\ made' = 0 /\ live' = {} /\ open' = {}
        /\ rstate' = [r \in Req |-> "unused"] /\ rsess' = [r \in Req |-> None] /\ rfrom' = [r \in Req |-> None]
        /\ rid' = [r \in Req |-> "none"]
TNew == IsEvent("new") /\ NewSession(Ev.s)
TOpen == IsEvent("open") /\ OpenStream(Ev.s)
TClose == IsEvent("close") /\ CloseStream(Ev.s)
TDelete == IsEvent("delete") /\ DeleteSession(Ev.s)
TNotif == /\ IsEvent("notif") /\ SendNotification(Ev.s, Ev.ok)
          /\ ToSet(Ev.reached) = (IF Ev.ok THEN {Ev.s} ELSE {})       \* on the addressee's stream, on no other
TBcast == IsEvent("bcast") /\ Broadcast(ToSet(Ev.reached), Ev.count)
TFiltered == IsEvent("filtered") /\ SendFiltered(ToSet(Ev.f), ToSet(Ev.reached), Ev.count)
TSReqStart == /\ IsEvent("sreq_start") /\ SReqStart(Ev.s, Ev.r, Ev.id)
              /\ ToSet(Ev.reached) = {Ev.s} /\ PendingOK
TAnswer == IsEvent("answer") /\ \E q \in Req \cup {None} : ClientAnswer(Ev.s, Ev.r, q)
TSReqReturn == IsEvent("sreq_return") /\ Ev.from \in Sess /\ SReqReturn(Ev.s, Ev.r, Ev.from) /\ PendingOK
TSReqCancel == IsEvent("sreq_cancel") /\ Ev.from = "error" /\ SReqCancel(Ev.s, Ev.r) /\ PendingOK

TNext == TCfg \/ TNew \/ TOpen \/ TClose \/ TDelete \/ TNotif \/ TBcast \/ TFiltered
         \/ TSReqStart \/ TAnswer \/ TSReqReturn \/ TSReqCancel
TraceSpec == TInit /\ [][TNext]_tvars

Mark == TLCSet(1, IF l - 1 > TLCGet(1) THEN l - 1 ELSE TLCGet(1))
ASSUME TLCSet(1, 0)
TraceAccepted ==
  IF TLCGet(1) = Len(TraceLog) THEN TRUE
  ELSE Print(<<"TRACE-HWM", TLCGet(1), "of", Len(TraceLog)>>, FALSE)
=============================================================================
