--------------------------- MODULE TraceCallEnds ---------------------------
(* Recorded fault scenarios of the real clients (mcpdrive c08) against CallEnds.
   cfg     fault, at, n, shared     start of a scenario (Init with these values)
   inject                            the fault server / child injected the fault (not for "stall")
   ctx                               the callers' contexts ended
   ret     c, out, late              call c returned: out = ok (own complete result) | err ; anything
                                     else (partial, foreign, hung) and late = TRUE match no action
   after   out                       a later call on the same client (connection still up): must be answered
   close   nleft                     Close returned and the peer is gone; nleft resources still held *)
EXTENDS CallEnds, Json, Sequences, Naturals, TLC

Trace == ndJsonDeserialize("trace.ndjson")
VARIABLE l
tvars == <<vars, l>>

IsEvent(e) == l <= Len(Trace) /\ Trace[l].e = e /\ l' = l + 1

TCfg == /\ IsEvent("cfg")
        /\ fault' = Trace[l].fault /\ at' = Trace[l].at
        /\ st' = [c \in Calls |-> IF c <= Trace[l].n THEN "pending" ELSE "unused"]
        /\ delivered' = IF Trace[l].at = "done" THEN (IF Trace[l].shared THEN "first" ELSE "each") ELSE "none"
        /\ conn' = "up" /\ ctxdone' = FALSE /\ res' = {"reader", "conn", "child", "pending"} /\ closed' = FALSE

TInject == IsEvent("inject") /\ Inject
TCtx == IsEvent("ctx") /\ CtxEnds
TRet == /\ IsEvent("ret") /\ Trace[l].late = FALSE
        /\ LET c == Trace[l].c IN Return(c) /\ st'[c] = Trace[l].out
TAfter == IsEvent("after") /\ Trace[l].out = "ok" /\ conn = "up" /\ ~closed /\ UNCHANGED vars
TClose == IsEvent("close") /\ Close /\ Trace[l].nleft = 0

TNext == TCfg \/ TInject \/ TCtx \/ TRet \/ TAfter \/ TClose
TInit == Init /\ l = 1
TraceSpec == TInit /\ [][TNext]_tvars

Mark == TLCSet(1, IF l - 1 > TLCGet(1) THEN l - 1 ELSE TLCGet(1))
ASSUME TLCSet(1, 0)
TraceAccepted ==
  IF TLCGet(1) = Len(Trace) THEN TRUE
  ELSE Print(<<"TRACE-HWM", TLCGet(1), "of", Len(Trace)>>, FALSE)
=============================================================================
