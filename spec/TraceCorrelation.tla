-------------------------- MODULE TraceCorrelation --------------------------
(* Trace validation for C01.  Events (ordered by the harness mutex):
     {"e":"call","c":k}          call k issued (its nonce is k)
     {"e":"handler","c":k}       the server-side handler ran with call k's arguments
     {"e":"ret","c":k,"got":j}   call k returned the answer computed for call j (0: error / nothing)
     {"e":"connlost"}            the connection of the calls went away (fault injected by the peer)
     {"e":"fail","c":k}          call k returned an error (admitted only once the connection is lost)
     {"e":"end"}                 the run is over: nothing may be outstanding
     {"e":"reset"}
   call / handler are Correlation's Issue / HandlerRun; the transport steps between the handler and
   the return are not observable from outside, so a return is checked against the specification's
   state invariants (OwnAnswer, HandlerOnce) on the state it produces.                         *)
EXTENDS Correlation, Json

VARIABLES l
TraceLog == ndJsonDeserialize("trace.ndjson")
tvars == <<vars, l>>
Ev == TraceLog[l]
IsEvent(e) == l <= Len(TraceLog) /\ Ev.e = e /\ l' = l + 1

TInit == Init /\ l = 1
TCall == IsEvent("call") /\ Ev.c \in Calls /\ Issue(Ev.c)
THandler == IsEvent("handler") /\ Ev.c \in Calls /\ (HandlerRun(Ev.c) \/ HandlerLate(Ev.c))   \* exactly once: enabled only in state "sent" (or after the call failed, if it had not run)
TConnLost == IsEvent("connlost") /\ ConnLost
TFail == IsEvent("fail") /\ Ev.c \in Calls /\ Fail(Ev.c)
TRet ==
  /\ IsEvent("ret") /\ Ev.c \in Calls
  /\ st[Ev.c] = "handled"                          \* exactly one outcome, after the handler ran
  /\ st' = [st EXCEPT ![Ev.c] = "returned"]
  /\ got' = [got EXCEPT ![Ev.c] = Ev.got]
  /\ pending' = pending \ {Ev.c}
  /\ UNCHANGED <<up, runs, queue, wire>>
  /\ Ev.got = Ev.c                                  \* its own answer (OwnAnswer on the new state, and not "nothing")
  /\ runs[Ev.c] = 1                                 \* HandlerOnce
TEnd == IsEvent("end") /\ \A c \in Calls : st[c] \in {"idle", "returned", "failed"} /\ UNCHANGED vars
TReset == /\ IsEvent("reset")
          /\ st' = [c \in Calls |-> "idle"] /\ up' = TRUE /\ pending' = {} /\ runs' = [c \in Calls |-> 0]
          /\ queue' = <<>> /\ wire' = <<>> /\ got' = [c \in Calls |-> 0]

TNext == TCall \/ THandler \/ TRet \/ TEnd \/ TReset \/ TConnLost \/ TFail
TraceSpec == TInit /\ [][TNext]_tvars

Mark == TLCSet(1, IF l - 1 > TLCGet(1) THEN l - 1 ELSE TLCGet(1))
ASSUME TLCSet(1, 0)
TraceAccepted ==
  IF TLCGet(1) = Len(TraceLog) THEN TRUE
  ELSE Print(<<"TRACE-HWM", TLCGet(1), "of", Len(TraceLog)>>, FALSE)
=============================================================================
