--------------------------- MODULE TraceCustomise ---------------------------
(* Recorded histories of the real clients against a recording server (mcpdrive c19) validated against Customise.
   cfg  hdr before errAt handler path getsse latesid    the client's configuration; a new history starts
   op   op res reqs                          one operation: how it ended and the requests the server received,
                                             each as a record [kind, path, via, hdr, sid, nb, ctx]
   The operation must be enabled and must put exactly these records on the wire, with this result.       *)
EXTENDS Customise, Json

Trace == ndJsonDeserialize("trace.ndjson")
VARIABLE l
tvars == <<vars, l>>
Ev == Trace[l]
IsEvent(e) == l <= Len(Trace) /\ Ev.e = e /\ l' = l + 1

TCfg == /\ IsEvent("cfg")
        /\ hdr' = Ev.hdr /\ before' = Ev.before /\ errAt' = Ev.errAt /\ handler' = Ev.handler /\ path' = Ev.path /\ getsse' = Ev.getsse /\ latesid' = Ev.latesid
        /\ sess' = FALSE /\ inited' = FALSE /\ stream' = FALSE /\ nops' = 0 /\ over' = FALSE /\ wire' = {} /\ res' = "-"

Step(op) == CASE op = "initialize" -> Initialize
              [] op = "call" -> Call
              [] op = "notify" -> Notify
              [] op = "serverasks" -> ServerAsks
              [] op = "terminate" -> Terminate
              [] op = "serverasksother" -> ServerAsksOther
              [] op = "terminaterefused" -> TerminateRefused
              [] OTHER -> FALSE
TOp == /\ IsEvent("op") /\ Step(Ev.op)
       /\ wire' = {Ev.reqs[i] : i \in 1..Len(Ev.reqs)} /\ Len(Ev.reqs) = Cardinality(wire')
       /\ res' = Ev.res

TNext == TCfg \/ TOp
TInit == Init /\ l = 1
TraceSpec == TInit /\ [][TNext]_tvars

Mark == TLCSet(1, IF l - 1 > TLCGet(1) THEN l - 1 ELSE TLCGet(1))
ASSUME TLCSet(1, 0)
TraceAccepted ==
  IF TLCGet(1) = Len(Trace) THEN TRUE
  ELSE Print(<<"TRACE-HWM", TLCGet(1), "of", Len(Trace)>>, FALSE)
=============================================================================
