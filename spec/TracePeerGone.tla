--------------------------- MODULE TracePeerGone ---------------------------
(* Recorded peer-vanishes scenarios on the real servers (mcpdrive c08srv) against PeerGone.
   cfg state, n   |  vanish p  |  settled nleft, late   - the observation window closed: what is still held *)
EXTENDS PeerGone, Json, Sequences

Trace == ndJsonDeserialize("trace.ndjson")
VARIABLE l
tvars == <<vars, l>>
IsEvent(e) == l <= Len(Trace) /\ Trace[l].e = e /\ l' = l + 1

TCfg == /\ IsEvent("cfg") /\ Trace[l].state \in States
        /\ state' = Trace[l].state
        /\ held' = [p \in Peers |-> IF p <= Trace[l].n THEN HoldFor(Trace[l].state) ELSE {}]
        /\ gone' = {p \in Peers : p > Trace[l].n} /\ ctxEnded' = {}
TVanish == IsEvent("vanish") /\ Vanish(Trace[l].p)
TSettled == IsEvent("settled") /\ Trace[l].nleft = 0 /\ Trace[l].late = FALSE /\ Settled /\ UNCHANGED vars
Silent == (\E p \in Peers : EndCtx(p) \/ DropStream(p) \/ DropPending(p) \/ EndHandler(p)) /\ UNCHANGED l

TNext == TCfg \/ TVanish \/ TSettled \/ Silent
TInit == Init /\ l = 1
TraceSpec == TInit /\ [][TNext]_tvars

Mark == TLCSet(1, IF l - 1 > TLCGet(1) THEN l - 1 ELSE TLCGet(1))
ASSUME TLCSet(1, 0)
TraceAccepted ==
  IF TLCGet(1) = Len(Trace) THEN TRUE
  ELSE Print(<<"TRACE-HWM", TLCGet(1), "of", Len(Trace)>>, FALSE)
=============================================================================
