package main

// C09, the stdio CLIENT's frames: several goroutines issue calls while the (scripted) server process sends the client
// requests of its own - roots/list (answered with a result) and a method the client does not serve (answered with an
// error) - so that requests, result answers and error answers are written to the child's stdin concurrently.
// The child records every byte it reads; the harness returns that record for the reference reader.

import (
	"context"
	"encoding/json"
	"fmt"
	"os"
	"path/filepath"
	"sync"
	"time"

	mcp "trpc.group/trpc-go/trpc-mcp-go"
)

type c09ClientIn struct {
	ID      string `json:"id"`
	Workers int    `json:"workers"`
	Calls   int    `json:"calls"`
	Pad     int    `json:"pad"`
}

type c09ClientOut struct {
	ID       string `json:"id"`
	Stream   string `json:"stream"`
	Raw      string `json:"raw"`      // everything the child read from its stdin
	Expected int    `json:"expected"` // messages the client must have written
	Broken   string `json:"broken,omitempty"`
}

func c09Client(in c09ClientIn) (out c09ClientOut) {
	out.ID, out.Stream = in.ID, "stdio-client"
	dir, _ := os.MkdirTemp("", "c09c")
	defer os.RemoveAll(dir)
	rec := filepath.Join(dir, "stdin.rec")
	var emits []stdioEmit
	asked := 0
	total := in.Workers * in.Calls
	for line := 3; line < 3+total; line += 2 {
		// after every other call line the server asks twice: once something the client serves, once something it refuses
		emits = append(emits, stdioEmit{AtLine: line, When: "after", Raw: fmt.Sprintf(
			`{"jsonrpc":"2.0","id":"srv-%d-a","method":"sampling/createMessage","params":{"messages":[],"maxTokens":1}}`+"\n"+
				`{"jsonrpc":"2.0","id":"srv-%d-b","method":"roots/list"}`+"\n", line, line)})
		asked += 2
	}
	b, _ := json.Marshal(stdioPeerCfg{RecordFile: rec, Emit: emits})
	cfgPath := filepath.Join(dir, "cfg.json")
	os.WriteFile(cfgPath, b, 0644)
	exe, _ := os.Executable()
	c, err := mcp.NewStdioClient(mcp.StdioTransportConfig{ServerParams: mcp.StdioServerParameters{Command: exe, Args: []string{"stdiopeer", cfgPath}},
		Timeout: 10 * time.Second}, mcp.Implementation{Name: "v", Version: "0"}, mcp.WithStdioLogger(silentLogger{}))
	if err != nil {
		out.Broken = err.Error()
		return
	}
	c.SetRootsProvider(mcp.NewDefaultRootsProvider())
	ctx, cancel := context.WithTimeout(context.Background(), 20*time.Second)
	defer cancel()
	if _, err := c.Initialize(ctx, &mcp.InitializeRequest{}); err != nil {
		c.Close()
		out.Broken = "initialize: " + err.Error()
		return
	}
	var wg sync.WaitGroup
	for w := 0; w < in.Workers; w++ {
		wg.Add(1)
		go func(w int) {
			defer wg.Done()
			for k := 0; k < in.Calls; k++ {
				req := &mcp.CallToolRequest{}
				req.Params.Name = "echo"
				pad := ""
				if k%2 == 1 {
					pad = fmt.Sprintf("%0*d", in.Pad, 0)
				}
				req.Params.Arguments = map[string]interface{}{"nonce": fmt.Sprintf("w%d-%d", w, k), "pad": pad}
				cctx, ccancel := context.WithTimeout(ctx, 5*time.Second)
				c.CallTool(cctx, req)
				ccancel()
			}
		}(w)
	}
	wg.Wait()
	time.Sleep(200 * time.Millisecond) // the answers to the server's requests are out
	c.Close()
	raw, err := os.ReadFile(rec)
	if err != nil {
		out.Broken = "no record: " + err.Error()
		return
	}
	out.Raw = string(raw)
	out.Expected = 2 + total + asked // initialize, initialized, the calls, one answer per server request
	return
}

func init() {
	register("c09client", func(args []string) int {
		var in struct {
			Runs []c09ClientIn `json:"runs"`
		}
		readInput(&in)
		out := struct {
			Results []c09ClientOut `json:"results"`
		}{}
		for _, r := range in.Runs {
			out.Results = append(out.Results, c09Client(r))
		}
		writeOutput(out)
		return 0
	})
}
