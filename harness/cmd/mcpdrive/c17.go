package main

// C17: retry. (1) learn: how each outcome kind surfaces as an error of the real transports;
// (2) direct: TLC-generated scripts (outcome sequence x cancel instant) run through the real
// retry loop with a scripted operation; (3) e2e: the same kinds produced by a scripted server /
// dialer against the real Streamable and legacy SSE clients; (4) clamp: the boundary grid.

import (
	"context"
	"encoding/json"
	"errors"
	"fmt"
	"io"
	"math"
	"net"
	"net/http"
	"strings"
	"sync"
	"sync/atomic"
	"syscall"
	"time"

	mcp "trpc.group/trpc-go/trpc-mcp-go"
)

// ---------------------------------------------------------------- scripted server + dialer

type scriptedNet struct {
	ln       net.Listener
	addr     string
	mu       sync.Mutex
	script   []string // outcome per attempt of the scripted method; after the end: "success"
	attempts int32
	armed    atomic.Bool // false during the handshake
	legacy   bool
	sseMu    sync.Mutex
	sseW     http.ResponseWriter
	sseF     http.Flusher
	bodyVar  int
	closedLn net.Listener
	closed   string
	refuseFd int
}

func newScriptedNet(legacy bool) *scriptedNet {
	s := &scriptedNet{legacy: legacy}
	ln, _ := net.Listen("tcp", "127.0.0.1:0")
	s.ln = ln
	s.addr = ln.Addr().String()
	// an address that refuses connections: a socket that is bound but never listens keeps its port reserved (a port
	// taken from a listener that was closed again can be handed to another process's listener in the meantime)
	s.closed = "127.0.0.1:1"
	if fd, err := syscall.Socket(syscall.AF_INET, syscall.SOCK_STREAM, 0); err == nil {
		if err := syscall.Bind(fd, &syscall.SockaddrInet4{Port: 0, Addr: [4]byte{127, 0, 0, 1}}); err == nil {
			if sa, err := syscall.Getsockname(fd); err == nil {
				if in4, ok := sa.(*syscall.SockaddrInet4); ok {
					s.closed = fmt.Sprintf("127.0.0.1:%d", in4.Port)
					s.refuseFd = fd
				}
			}
		}
		if s.refuseFd == 0 {
			syscall.Close(fd)
		}
	}
	srv := &http.Server{Handler: http.HandlerFunc(s.serve)}
	go srv.Serve(ln)
	return s
}

func (s *scriptedNet) next() string {
	s.mu.Lock()
	defer s.mu.Unlock()
	n := int(atomic.AddInt32(&s.attempts, 1))
	if n <= len(s.script) {
		return s.script[n-1]
	}
	return "success"
}

func (s *scriptedNet) errBody(code int) string {
	if s.bodyVar == 1 {
		return fmt.Sprintf("quota exceeded, retry in 500 ms (limit 429 reached, see 503 page) [%d]", code)
	}
	return http.StatusText(code)
}

func (s *scriptedNet) serve(w http.ResponseWriter, r *http.Request) {
	if s.legacy && r.Method == http.MethodGet {
		f := w.(http.Flusher)
		w.Header().Set("Content-Type", "text/event-stream")
		w.WriteHeader(200)
		s.sseMu.Lock()
		s.sseW, s.sseF = w, f
		fmt.Fprintf(w, "event: endpoint\ndata: /message?sessionId=x\n\n")
		f.Flush()
		s.sseMu.Unlock()
		<-r.Context().Done()
		return
	}
	body, _ := io.ReadAll(r.Body)
	var m struct {
		ID     json.RawMessage `json:"id"`
		Method string          `json:"method"`
	}
	json.Unmarshal(body, &m)
	reply := func(payload string) {
		if s.legacy {
			w.WriteHeader(202)
			s.sseMu.Lock()
			fmt.Fprintf(s.sseW, "event: message\ndata: %s\n\n", payload)
			s.sseF.Flush()
			s.sseMu.Unlock()
			return
		}
		w.Header().Set("Content-Type", "application/json")
		w.WriteHeader(200)
		io.WriteString(w, payload)
	}
	if m.ID == nil {
		w.WriteHeader(202)
		return
	}
	if m.Method == "initialize" {
		reply(fmt.Sprintf(`{"jsonrpc":"2.0","id":%s,"result":{"protocolVersion":"2025-03-26","serverInfo":{"name":"scripted","version":"1"},"capabilities":{"tools":{}}}}`, m.ID))
		return
	}
	out := "success"
	if s.armed.Load() {
		out = r.Header.Get("X-Verif-Outcome") // set by the dialer-aware handler
		if out == "" {
			out = "success"
		}
	}
	switch {
	case out == "success":
		reply(fmt.Sprintf(`{"jsonrpc":"2.0","id":%s,"result":{"content":[{"type":"text","text":"ok"}]}}`, m.ID))
	case out == "rpcError":
		reply(fmt.Sprintf(`{"jsonrpc":"2.0","id":%s,"error":{"code":-32603,"message":"scripted failure"}}`, m.ID))
	case strings.HasPrefix(out, "http"):
		var code int
		fmt.Sscanf(out, "http%d", &code)
		http.Error(w, s.errBody(code), code)
	case out == "reset":
		if hj, ok := w.(http.Hijacker); ok {
			c, _, _ := hj.Hijack()
			if tc, ok := c.(*net.TCPConn); ok {
				tc.SetLinger(0)
			}
			c.Close()
		}
	case out == "eof":
		if hj, ok := w.(http.Hijacker); ok {
			c, _, _ := hj.Hijack()
			c.Close()
		}
	case out == "timeout":
		time.Sleep(300 * time.Millisecond)
	default:
		http.Error(w, "unknown scripted outcome "+out, 599)
	}
}

// scriptedHandler is the client-side HTTPReqHandler: one fresh connection per request, the
// outcome of the attempt is decided here (refused / timeout need a special dial).
type scriptedHandler struct {
	net *scriptedNet
}

type deadlineConn struct {
	net.Conn
}

func (h *scriptedHandler) Handle(ctx context.Context, _ *http.Client, req *http.Request) (*http.Response, error) {
	out := "success"
	if h.net.armed.Load() && req.Method == http.MethodPost {
		// peek: only the scripted method consumes script entries (bodies are small)
		b, _ := io.ReadAll(req.Body)
		req.Body = io.NopCloser(strings.NewReader(string(b)))
		if strings.Contains(string(b), `"tools/call"`) {
			out = h.net.next()
		}
	}
	req.Header.Set("X-Verif-Outcome", out)
	tr := &http.Transport{DisableKeepAlives: true}
	tr.DialContext = func(ctx context.Context, network, addr string) (net.Conn, error) {
		d := net.Dialer{}
		if out == "refused" {
			return d.DialContext(ctx, network, h.net.closed)
		}
		c, err := d.DialContext(ctx, network, addr)
		if err == nil && out == "timeout" {
			c.SetReadDeadline(time.Now().Add(30 * time.Millisecond))
		}
		return c, err
	}
	cl := &http.Client{Transport: tr}
	return cl.Do(req.WithContext(ctx))
}

func outcomeWire(kind string, variant int) string {
	switch kind {
	case "s408":
		return "http408"
	case "s409":
		return "http409"
	case "s429":
		return "http429"
	case "s5xx":
		return []string{"http500", "http502", "http503", "http504", "http501", "http507"}[variant%6]
	case "s4xx":
		return []string{"http404", "http400", "http403", "http401", "http405", "http422"}[variant%6]
	}
	return kind
}

func newRetryClient(sn *scriptedNet, legacy bool, cfg *mcp.RetryConfig) (*mcp.Client, error) {
	opts := []mcp.ClientOption{mcp.WithClientLogger(silentLogger{}), mcp.WithHTTPReqHandler(&scriptedHandler{net: sn}), mcp.WithClientGetSSEEnabled(false)}
	if cfg != nil {
		opts = append(opts, mcp.WithRetry(*cfg))
	}
	var c *mcp.Client
	var err error
	if legacy {
		c, err = mcp.NewSSEClient("http://"+sn.addr+"/sse", mcp.Implementation{Name: "verif", Version: "0"}, opts...)
	} else {
		c, err = mcp.NewClient("http://"+sn.addr+"/mcp", mcp.Implementation{Name: "verif", Version: "0"}, opts...)
	}
	if err != nil {
		return nil, err
	}
	ctx, cancel := context.WithTimeout(context.Background(), 5*time.Second)
	defer cancel()
	if _, err := c.Initialize(ctx, &mcp.InitializeRequest{}); err != nil {
		return nil, fmt.Errorf("initialize: %w", err)
	}
	return c, nil
}

type e2eScript struct {
	ID     string `json:"id"`
	Client string `json:"client"` // streamable | legacy
	Retry  *struct {
		Max       int     `json:"max"`
		InitialMs float64 `json:"initial_ms"`
		Factor    float64 `json:"factor"`
		MaxMs     float64 `json:"max_ms"`
	} `json:"retry"`
	Outcomes []string `json:"outcomes"` // abstract kinds
	Variant  int      `json:"variant"`
	BodyVar  int      `json:"body_var"`
	StartID  int64    `json:"start_id"` // when set: the scripted call is issued with this request id
	// DeadlineMs: the caller's context ends after this many ms (default 5000)
	DeadlineMs int `json:"deadline_ms"`
}

type e2eResult struct {
	ID       string   `json:"id"`
	Attempts int      `json:"attempts"`
	OK       bool     `json:"ok"`
	Err      string   `json:"err,omitempty"`
	Wire     []string `json:"wire"`
	Broken   string   `json:"broken,omitempty"`
	IsCtxErr bool     `json:"is_ctx_err"`
	Ms       float64  `json:"ms"`
}

func runE2E(s e2eScript) (res e2eResult) {
	res.ID = s.ID
	legacy := s.Client == "legacy"
	sn := newScriptedNet(legacy)
	defer sn.ln.Close()
	defer func() {
		if sn.refuseFd != 0 {
			syscall.Close(sn.refuseFd)
		}
	}()
	sn.bodyVar = s.BodyVar
	for i, o := range s.Outcomes {
		res.Wire = append(res.Wire, outcomeWire(o, s.Variant+i))
	}
	sn.script = res.Wire
	var cfg *mcp.RetryConfig
	if s.Retry != nil {
		cfg = &mcp.RetryConfig{MaxRetries: s.Retry.Max, InitialBackoff: time.Duration(s.Retry.InitialMs * float64(time.Millisecond)),
			BackoffFactor: s.Retry.Factor, MaxBackoff: time.Duration(s.Retry.MaxMs * float64(time.Millisecond))}
	}
	c, err := newRetryClient(sn, legacy, cfg)
	if err != nil {
		res.Broken = err.Error()
		return
	}
	defer c.Close()
	sn.armed.Store(true)
	if s.StartID > 0 {
		mcp.VerifSetNextRequestID(c, s.StartID)
	}
	dl := 5 * time.Second
	if s.DeadlineMs > 0 {
		dl = time.Duration(s.DeadlineMs) * time.Millisecond
	}
	ctx, cancel := context.WithTimeout(context.Background(), dl)
	defer cancel()
	req := &mcp.CallToolRequest{}
	req.Params.Name = "x"
	t0 := time.Now()
	_, err = c.CallTool(ctx, req)
	res.Ms = float64(time.Since(t0)) / float64(time.Millisecond)
	res.IsCtxErr = err != nil && (errors.Is(err, context.DeadlineExceeded) || errors.Is(err, context.Canceled) || strings.Contains(err.Error(), "context deadline exceeded"))
	res.Attempts = int(atomic.LoadInt32(&sn.attempts))
	res.OK = err == nil
	if err != nil {
		res.Err = err.Error()
	}
	return
}

// ---------------------------------------------------------------- direct

type directScript struct {
	ID    string `json:"id"`
	Retry *struct {
		Max       int     `json:"max"`
		InitialMs float64 `json:"initial_ms"`
		Factor    float64 `json:"factor"`
		MaxMs     float64 `json:"max_ms"`
	} `json:"retry"`
	Errors []string `json:"errors"` // error text per attempt; "" = success
	OpMs   float64  `json:"op_ms"`  // every attempt takes that long before it fails or succeeds
	Cancel struct {
		At string `json:"at"` // "", "before", "attempt", "wait"
		K  int    `json:"k"`  // 1-based attempt / wait index
	} `json:"cancel"`
}

type directResult struct {
	ID          string    `json:"id"`
	Attempts    int       `json:"attempts"`
	Err         string    `json:"err"`
	IsCtxErr    bool      `json:"is_ctx_err"`
	GapsMs      []float64 `json:"gaps_ms"`
	AfterCancel float64   `json:"after_cancel_ms"`
	Extra       bool      `json:"extra_attempts_requested"`
}

func runDirect(s directScript) (res directResult) {
	res.ID = s.ID
	ctx, cancel := context.WithCancel(context.Background())
	defer cancel()
	var cfg *mcp.VerifRetryConfig
	if s.Retry != nil {
		cfg = &mcp.VerifRetryConfig{MaxRetries: s.Retry.Max, InitialBackoff: time.Duration(s.Retry.InitialMs * float64(time.Millisecond)),
			BackoffFactor: s.Retry.Factor, MaxBackoff: time.Duration(s.Retry.MaxMs * float64(time.Millisecond))}
	}
	var ends, starts []time.Time
	var cancelAt time.Time
	n := 0
	op := func() error {
		starts = append(starts, time.Now())
		n++
		var err error
		if n <= len(s.Errors) {
			if s.Errors[n-1] != "" {
				err = errors.New(s.Errors[n-1])
			}
		} else {
			res.Extra = true // the loop asked for more attempts than the script has
		}
		if s.Cancel.At == "attempt" && s.Cancel.K == n {
			cancelAt = time.Now()
			cancel()
		}
		if s.OpMs > 0 {
			time.Sleep(time.Duration(s.OpMs * float64(time.Millisecond)))
		}
		ends = append(ends, time.Now())
		if s.Cancel.At == "wait" && s.Cancel.K == n {
			go func() {
				time.Sleep(3 * time.Millisecond)
				cancelAt = time.Now()
				cancel()
			}()
		}
		return err
	}
	if s.Cancel.At == "before" {
		cancelAt = time.Now()
		cancel()
	}
	err := mcp.VerifRetryExecute(ctx, op, cfg)
	done := time.Now()
	res.Attempts = n
	if err != nil {
		res.Err = err.Error()
		res.IsCtxErr = errors.Is(err, context.Canceled)
	}
	for i := 1; i < len(starts); i++ {
		res.GapsMs = append(res.GapsMs, float64(starts[i].Sub(ends[i-1]))/float64(time.Millisecond))
	}
	if !cancelAt.IsZero() {
		res.AfterCancel = float64(done.Sub(cancelAt)) / float64(time.Millisecond)
	}
	return
}

// ---------------------------------------------------------------- clamp

type clampIn struct {
	Retries int     `json:"retries"`
	Initial float64 `json:"initial_us"` // microseconds; NaN/Inf via Special
	Factor  float64 `json:"factor"`
	Max     float64 `json:"max_us"`
	Special string  `json:"special,omitempty"` // nan | +inf | -inf for the factor
}

type clampOut struct {
	Retries int     `json:"retries"`
	Initial float64 `json:"initial_us"`
	Factor  float64 `json:"factor"`
	FactorS string  `json:"factor_s"`
	Max     float64 `json:"max_us"`
	Twice   bool    `json:"idempotent"`
	ViaOpt  bool    `json:"via_option_equal"`
	// what the other entry points install: WithRetry on the legacy client, WithSimpleRetry(n) on both (-1: no configuration found)
	ViaOptLegacy  bool   `json:"via_option_equal_legacy"`
	SimpleRetries [2]int `json:"simple_retries"`
	SimpleValid   bool   `json:"simple_valid"` // the configuration WithSimpleRetry installs is a fixed point of Validate
}

func runClamp(c clampIn) clampOut {
	f := c.Factor
	switch c.Special {
	case "nan":
		f = math.NaN()
	case "+inf":
		f = math.Inf(1)
	case "-inf":
		f = math.Inf(-1)
	}
	in := mcp.VerifRetryConfig{MaxRetries: c.Retries, InitialBackoff: time.Duration(c.Initial * 1000), BackoffFactor: f, MaxBackoff: time.Duration(c.Max * 1000)}
	v := mcp.VerifRetryValidate(in)
	v2 := mcp.VerifRetryValidate(v)
	same := func(a, b mcp.VerifRetryConfig) bool {
		return a.MaxRetries == b.MaxRetries && a.InitialBackoff == b.InitialBackoff && a.MaxBackoff == b.MaxBackoff &&
			(a.BackoffFactor == b.BackoffFactor || (math.IsNaN(a.BackoffFactor) && math.IsNaN(b.BackoffFactor)))
	}
	out := clampOut{Retries: v.MaxRetries, Initial: float64(v.InitialBackoff) / 1000, Factor: v.BackoffFactor, Max: float64(v.MaxBackoff) / 1000, Twice: same(v, v2)}
	out.FactorS = fmt.Sprint(v.BackoffFactor)
	if math.IsNaN(out.Factor) || math.IsInf(out.Factor, 0) {
		out.Factor = -1
	}
	// the public option must install exactly the clamped configuration
	cl, err := mcp.NewClient("http://127.0.0.1:1/mcp", mcp.Implementation{Name: "v", Version: "0"},
		mcp.WithRetry(mcp.RetryConfig{MaxRetries: c.Retries, InitialBackoff: in.InitialBackoff, BackoffFactor: f, MaxBackoff: in.MaxBackoff}))
	if err == nil {
		if got := mcp.VerifClientRetryConfig(cl); got != nil {
			out.ViaOpt = same(*got, v)
		}
	}
	if lcl, err := mcp.NewSSEClient("http://127.0.0.1:1/sse", mcp.Implementation{Name: "v", Version: "0"},
		mcp.WithRetry(mcp.RetryConfig{MaxRetries: c.Retries, InitialBackoff: in.InitialBackoff, BackoffFactor: f, MaxBackoff: in.MaxBackoff})); err == nil {
		if got := mcp.VerifClientRetryConfig(lcl); got != nil {
			out.ViaOptLegacy = same(*got, v)
		}
	}
	out.SimpleRetries = [2]int{-1, -1}
	out.SimpleValid = true
	for i := 0; i < 2; i++ {
		var scl *mcp.Client
		var err error
		if i == 0 {
			scl, err = mcp.NewClient("http://127.0.0.1:1/mcp", mcp.Implementation{Name: "v", Version: "0"}, mcp.WithSimpleRetry(c.Retries))
		} else {
			scl, err = mcp.NewSSEClient("http://127.0.0.1:1/sse", mcp.Implementation{Name: "v", Version: "0"}, mcp.WithSimpleRetry(c.Retries))
		}
		if err != nil {
			continue
		}
		if got := mcp.VerifClientRetryConfig(scl); got != nil {
			out.SimpleRetries[i] = got.MaxRetries
			if !same(*got, mcp.VerifRetryValidate(*got)) {
				out.SimpleValid = false
			}
		}
	}
	return out
}

func init() {
	register("c17", func(args []string) int {
		var in struct {
			E2E    []e2eScript    `json:"e2e"`
			Direct []directScript `json:"direct"`
			Clamp  []clampIn      `json:"clamp"`
		}
		readInput(&in)
		out := struct {
			E2E    []e2eResult    `json:"e2e"`
			Direct []directResult `json:"direct"`
			Clamp  []clampOut     `json:"clamp"`
		}{}
		for _, s := range in.E2E {
			out.E2E = append(out.E2E, runE2E(s))
		}
		for _, s := range in.Direct {
			out.Direct = append(out.Direct, runDirect(s))
		}
		for _, c := range in.Clamp {
			out.Clamp = append(out.Clamp, runClamp(c))
		}
		writeOutput(out)
		return 0
	})
}
