package main

// C19: every outbound HTTP request of the Streamable and legacy SSE clients, observed by a recording
// reference server, a recording request handler and a recording before-request function.
// A scenario is a client configuration plus a call history (operations); reported per operation: how it
// ended and the requests that reached the server, each as the record the model (Customise.tla) speaks of.

import (
	"context"
	"encoding/json"
	"errors"
	"fmt"
	"io"
	"net/http"
	"net/http/httptest"
	"strings"
	"sync"
	"sync/atomic"
	"time"

	mcp "trpc.group/trpc-go/trpc-mcp-go"
)

type c19Cfg struct {
	Hdr     bool   `json:"hdr"`
	Before  string `json:"before"` // none ok err
	ErrAt   string `json:"errAt"`
	Handler bool   `json:"handler"`
	Path    bool   `json:"path"`
	GetSSE  bool   `json:"getsse"`
	LateSid bool   `json:"latesid"` // the server issues the session id with the answer to the first request AFTER the handshake
}

type c19Scenario struct {
	ID     string   `json:"id"`
	Client string   `json:"client"` // streamable legacy
	Cfg    c19Cfg   `json:"cfg"`
	Ops    []string `json:"ops"`
	Split  bool     `json:"split"` // the static headers are configured through two WithHTTPHeaders options
	Query  bool     `json:"query"` // the configured URL carries a query string
	Retry  bool     `json:"retry"` // the client is configured with retries and the first attempt of every call is answered 503
}

type c19Rec struct {
	Kind string `json:"kind"`
	Path bool   `json:"path"`
	Via  bool   `json:"via"`
	Hdr  bool   `json:"hdr"`
	Sid  bool   `json:"sid"`
	Nb   int    `json:"nb"`
	Ctx  string `json:"ctx"`
	Raw  string `json:"raw,omitempty"` // method path and the interesting headers, for the report
}

type c19Op struct {
	Op   string   `json:"op"`
	Res  string   `json:"res"`
	Err  string   `json:"err,omitempty"`
	Reqs []c19Rec `json:"reqs"`
}

type c19Result struct {
	ID     string  `json:"id"`
	Ops    []c19Op `json:"ops"`
	Broken string  `json:"broken,omitempty"`
	// BeforeCalls: how often the before-request function was invoked during the scenario
	BeforeCalls int64 `json:"before_calls"`
}

type c19CtxKey struct{}

var errC19Before = errors.New("verif: before-request function refuses this request")

type c19Srv struct {
	mu        sync.Mutex
	legacy    bool
	wantPath  string
	wantQuery string
	recs      []c19Rec
	curOp     string
	handshake string
	streamW   http.ResponseWriter
	streamUp  chan struct{}
	answered  chan struct{}
	refuseDel bool
	lateSid   bool
	failFirst bool // answer the first attempt of a tools/call with 503
	failed    map[string]bool
	done      chan struct{}
}

func kindOf(r *http.Request, body []byte, legacy bool) string {
	switch r.Method {
	case http.MethodGet:
		if legacy {
			return "connect"
		}
		return "stream"
	case http.MethodDelete:
		return "delete"
	}
	var m struct {
		ID     json.RawMessage `json:"id"`
		Method string          `json:"method"`
	}
	json.Unmarshal(body, &m)
	switch {
	case m.Method != "" && m.ID != nil:
		return "request"
	case m.Method != "":
		return "notification"
	default:
		return "answer"
	}
}

func (s *c19Srv) record(r *http.Request, body []byte) (kind string, method string, id json.RawMessage) {
	kind = kindOf(r, body, s.legacy)
	var m struct {
		ID     json.RawMessage `json:"id"`
		Method string          `json:"method"`
	}
	json.Unmarshal(body, &m)
	s.mu.Lock()
	defer s.mu.Unlock()
	rec := c19Rec{Kind: kind}
	want := s.wantPath
	if s.legacy && kind != "connect" {
		want = "/message"
	}
	rec.Path = r.URL.Path == want
	if s.wantQuery != "" && (!s.legacy || kind == "connect") {
		// the configured URL includes its query string (the legacy message endpoint is the server's, not the configuration's)
		rec.Path = rec.Path && r.URL.Query().Get("api_key") == s.wantQuery
	}
	rec.Via = r.Header.Get("X-Via-Handler") != ""
	rec.Hdr = r.Header.Get("X-Static-A") == "a1" && strings.Join(r.Header.Values("X-Static-B"), ",") == "b1,b2"
	if s.legacy {
		rec.Sid = r.URL.Query().Get("sessionId") == "L1"
	} else {
		rec.Sid = r.Header.Get("Mcp-Session-Id") == "sess-1"
	}
	rec.Nb = len(r.Header.Values("X-Before"))
	cv := r.Header.Get("X-Ctx")
	switch {
	case rec.Nb == 0 && cv == "":
		rec.Ctx = "none"
	case (kind == "stream" || kind == "answer" || kind == "connect") && cv == s.handshake:
		rec.Ctx = "handshake"
	case kind != "stream" && kind != "answer" && kind != "connect" && cv == "op:"+s.curOp:
		rec.Ctx = "op"
	default:
		rec.Ctx = "other:" + cv
	}
	rec.Raw = fmt.Sprintf("%s %s via=%q static=%q/%q sid=%q before=%v ctx=%q", r.Method, r.URL.RequestURI(), r.Header.Get("X-Via-Handler"), r.Header.Get("X-Static-A"),
		r.Header.Values("X-Static-B"), r.Header.Get("Mcp-Session-Id"), r.Header.Values("X-Before"), cv)
	s.recs = append(s.recs, rec)
	return kind, m.Method, m.ID
}

func (s *c19Srv) pushOnStream(data string) bool {
	select {
	case <-s.streamUp:
	case <-time.After(time.Second):
		return false
	}
	s.mu.Lock()
	defer s.mu.Unlock()
	if s.legacy {
		fmt.Fprintf(s.streamW, "event: message\ndata: %s\n\n", data)
	} else {
		fmt.Fprintf(s.streamW, "data: %s\n\n", data)
	}
	s.streamW.(http.Flusher).Flush()
	return true
}

func (s *c19Srv) serve(w http.ResponseWriter, r *http.Request) {
	body, _ := io.ReadAll(r.Body)
	kind, method, id := s.record(r, body)
	switch kind {
	case "stream", "connect":
		w.Header().Set("Content-Type", "text/event-stream")
		w.WriteHeader(200)
		if s.legacy {
			fmt.Fprintf(w, "event: endpoint\ndata: /message?sessionId=L1\n\n")
		}
		w.(http.Flusher).Flush()
		s.mu.Lock()
		first := s.streamW == nil
		s.streamW = w
		s.mu.Unlock()
		if first {
			close(s.streamUp)
		}
		select {
		case <-r.Context().Done():
		case <-s.done:
		}
	case "delete":
		s.mu.Lock()
		refuse := s.refuseDel
		s.mu.Unlock()
		if refuse {
			w.WriteHeader(405)
		} else {
			w.WriteHeader(200)
		}
	case "notification":
		w.WriteHeader(202)
	case "answer":
		w.WriteHeader(202)
		select {
		case s.answered <- struct{}{}:
		default:
		}
	case "request":
		if s.failFirst && method != "initialize" {
			s.mu.Lock()
			first := !s.failed[string(id)]
			if s.failed == nil {
				s.failed = map[string]bool{}
			}
			s.failed[string(id)] = true
			s.mu.Unlock()
			if first {
				w.WriteHeader(503)
				return
			}
		}
		var ans string
		if method == "initialize" {
			ans = fmt.Sprintf(`{"jsonrpc":"2.0","id":%s,"result":%s}`, id, initOK)
		} else {
			ans = fmt.Sprintf(`{"jsonrpc":"2.0","id":%s,"result":{"content":[{"type":"text","text":"ok"}]}}`, id)
		}
		if s.legacy {
			w.WriteHeader(202)
			go s.pushOnStream(ans)
			return
		}
		w.Header().Set("Content-Type", "application/json")
		if (method == "initialize") != s.lateSid {
			w.Header().Set("Mcp-Session-Id", "sess-1")
		}
		io.WriteString(w, ans)
	}
}

type c19Handler struct{}

func (c19Handler) Handle(ctx context.Context, client *http.Client, req *http.Request) (*http.Response, error) {
	req.Header.Set("X-Via-Handler", "1")
	return client.Do(req.WithContext(ctx))
}

func c19Run(sc c19Scenario) (res c19Result) {
	res.ID = sc.ID
	srv := &c19Srv{failFirst: sc.Retry, lateSid: sc.Cfg.LateSid, legacy: sc.Client == "legacy", streamUp: make(chan struct{}), answered: make(chan struct{}, 4), done: make(chan struct{}), handshake: "op:initialize"}
	ts := httptest.NewServer(http.HandlerFunc(srv.serve))
	defer func() { close(srv.done); closeClientConns(ts); closeTS(ts) }()
	info := mcp.Implementation{Name: "v", Version: "0"}
	opts := []mcp.ClientOption{mcp.WithClientLogger(silentLogger{})}
	if sc.Cfg.Hdr {
		if sc.Split {
			opts = append(opts, mcp.WithHTTPHeaders(http.Header{"X-Static-A": {"a1"}}), mcp.WithHTTPHeaders(http.Header{"X-Static-B": {"b1", "b2"}}))
		} else {
			opts = append(opts, mcp.WithHTTPHeaders(http.Header{"X-Static-A": {"a1"}, "X-Static-B": {"b1", "b2"}}))
		}
	}
	if sc.Cfg.Handler {
		opts = append(opts, mcp.WithHTTPReqHandler(c19Handler{}))
	}
	if sc.Retry {
		opts = append(opts, mcp.WithRetry(mcp.RetryConfig{MaxRetries: 2, InitialBackoff: time.Millisecond, BackoffFactor: 1, MaxBackoff: 2 * time.Millisecond}))
	}
	if sc.Cfg.Before != "none" {
		opts = append(opts, mcp.WithHTTPBeforeRequest(func(ctx context.Context, req *http.Request) error {
			var body []byte
			if req.Body != nil && req.GetBody != nil {
				if rc, err := req.GetBody(); err == nil {
					body, _ = io.ReadAll(rc)
				}
			}
			atomic.AddInt64(&res.BeforeCalls, 1)
			if sc.Cfg.Before == "err" && kindOf(req, body, sc.Client == "legacy") == sc.Cfg.ErrAt {
				return errC19Before
			}
			req.Header.Add("X-Before", "1")
			v, _ := ctx.Value(c19CtxKey{}).(string)
			req.Header.Set("X-Ctx", v)
			return nil
		}))
	}
	var cl *mcp.Client
	var err error
	q := ""
	if sc.Query {
		q, srv.wantQuery = "?api_key=k-1", "k-1"
	}
	if sc.Client == "legacy" {
		srv.wantPath = "/sse"
		cl, err = mcp.NewSSEClient(ts.URL+"/sse"+q, info, opts...)
	} else {
		srv.wantPath = "/mcp"
		if sc.Cfg.Path {
			srv.wantPath = "/custom/route"
			opts = append(opts, mcp.WithClientPath("/custom/route"))
		}
		opts = append(opts, mcp.WithClientGetSSEEnabled(sc.Cfg.GetSSE))
		cl, err = mcp.NewClient(ts.URL+"/mcp"+q, info, opts...)
	}
	if err != nil {
		res.Broken = "new client: " + err.Error()
		return
	}
	defer func() {
		done := make(chan struct{})
		go func() { cl.Close(); close(done) }()
		select {
		case <-done:
		case <-time.After(3 * time.Second):
		}
	}()
	cl.SetRootsProvider(mcp.NewDefaultRootsProvider())
	settle := func() []c19Rec {
		// requests of background activity arrive on their own: wait until nothing new has come for 80 ms
		last, lastN := time.Now(), -1
		for dl := time.Now().Add(1500 * time.Millisecond); time.Now().Before(dl); time.Sleep(5 * time.Millisecond) {
			srv.mu.Lock()
			n := len(srv.recs)
			srv.mu.Unlock()
			if n != lastN {
				lastN, last = n, time.Now()
			} else if time.Since(last) > 80*time.Millisecond {
				break
			}
		}
		srv.mu.Lock()
		defer srv.mu.Unlock()
		out := srv.recs
		srv.recs = nil
		if out == nil {
			out = []c19Rec{}
		}
		return out
	}
	for _, op := range sc.Ops {
		srv.mu.Lock()
		srv.curOp = op
		srv.mu.Unlock()
		ctx, cancel := context.WithTimeout(context.WithValue(context.Background(), c19CtxKey{}, "op:"+op), 3*time.Second)
		o := c19Op{Op: op, Res: "ok"}
		var err error
		switch op {
		case "initialize":
			_, err = cl.Initialize(ctx, &mcp.InitializeRequest{})
		case "call":
			req := &mcp.CallToolRequest{}
			req.Params.Name = "echo"
			_, err = cl.CallTool(ctx, req)
		case "notify":
			err = cl.SendRootsListChangedNotification(ctx)
		case "serverasks", "serverasksother":
			for len(srv.answered) > 0 {
				<-srv.answered
			}
			ask := `{"jsonrpc":"2.0","id":"srv-1","method":"roots/list"}`
			if op == "serverasksother" {
				ask = `{"jsonrpc":"2.0","id":"srv-2","method":"sampling/createMessage","params":{"messages":[],"maxTokens":1}}`
			}
			if !srv.pushOnStream(ask) {
				o.Res = "nostream"
				break
			}
			select {
			case <-srv.answered:
			case <-time.After(1200 * time.Millisecond):
				o.Res = "noanswer"
			}
		case "terminate", "terminaterefused":
			srv.mu.Lock()
			srv.refuseDel = op == "terminaterefused"
			srv.mu.Unlock()
			err = cl.TerminateSession(ctx)
			if op == "terminaterefused" && err != nil && !strings.Contains(err.Error(), errC19Before.Error()) {
				o.Res, err = "refused", nil
			}
		default:
			res.Broken = "unknown op " + op
		}
		cancel()
		if err != nil {
			o.Res = "err"
			o.Err = err.Error()
			if sc.Cfg.Before == "err" && !strings.Contains(o.Err, errC19Before.Error()) {
				o.Res = "err-other"
			}
		}
		o.Reqs = settle()
		res.Ops = append(res.Ops, o)
	}
	return
}

func init() {
	register("c19", func(args []string) int {
		var in struct {
			Scenarios []c19Scenario `json:"scenarios"`
		}
		readInput(&in)
		out := struct {
			Results []c19Result `json:"results"`
		}{}
		for _, s := range in.Scenarios {
			out.Results = append(out.Results, c19Run(s))
		}
		writeOutput(out)
		return 0
	})
}
