package main

// C05 "queued behind a write": send A is parked inside its write (it holds the stream's write lock); send B has looked the
// stream up and waits for that lock; the peer closes the stream and the server notices; A is released.  B then gets the lock of a
// stream the server knows to be closed: it must not report the session as reached.

import (
	"bytes"
	"context"
	"encoding/json"
	"fmt"
	"net/http"
	"net/http/httptest"
	"strings"
	"time"

	mcp "trpc.group/trpc-go/trpc-mcp-go"
	"verifharness/internal/gate"
	"verifharness/internal/peer"
)

type c05StaleIn struct {
	ID   string `json:"id"`
	How  string `json:"how"`  // notif broadcast filtered : how B is sent
	End  string `json:"end"`  // close newer : how the stream ends (peer closes it / a newer stream of the session replaces it)
	Park string `json:"park"` // sse.write.id sse.write.data : where A is parked
}

type c05StaleOut struct {
	ID       string `json:"id"`
	AOK      bool   `json:"a_ok"`
	BOK      bool   `json:"b_ok"`    // B reported the session as reached (nil error / count 1)
	BCount   int    `json:"b_count"` // broadcast / filtered
	BErr     string `json:"b_err,omitempty"`
	BOnOld   bool   `json:"b_on_old"` // B's frame was read from the stream that ended
	BOnNew   bool   `json:"b_on_new"`
	Unreal   string `json:"unrealised,omitempty"`
	Broken   string `json:"broken,omitempty"`
	BHung    bool   `json:"b_hung"`
	NoticeMs int    `json:"notice_ms"`
}

func c05Stale(in c05StaleIn) (out c05StaleOut) {
	out.ID = in.ID
	var ctl *gate.Controller
	ctl = gate.New(nil)
	ctl.ActorOf = func(point string, kv []interface{}) (string, string) {
		if point == "push.lookup" {
			return ctl.GoroutineName(), ""
		}
		if strings.HasPrefix(point, "sse.write.") && len(kv) > 1 {
			if b, ok := kv[1].([]byte); ok {
				if bytes.Contains(b, []byte("stale-A")) {
					return "A", ""
				}
				if bytes.Contains(b, []byte("stale-B")) {
					return "B", ""
				}
			}
		}
		if point == "get.woken" {
			return "", "woken"
		}
		return "", ""
	}
	mcp.VerifSetHook(ctl.Hook)
	defer mcp.VerifSetHook(nil)
	srv := mcp.NewServer("verif", "1.0", mcp.WithServerPath("/mcp"), mcp.WithServerLogger(silentLogger{}))
	ts := httptest.NewServer(srv.Handler())
	url := ts.URL + "/mcp"
	var streams []*peer.Stream
	defer func() {
		ctl.ReleaseAll()
		for _, s := range streams {
			s.Close()
		}
		closeClientConns(ts)
		closeTS(ts)
	}()
	ctx := context.Background()
	sid, err := peer.Handshake(ctx, url, nil)
	if err != nil || sid == "" {
		out.Broken = fmt.Sprintf("handshake: %v", err)
		return
	}
	open := func() *peer.Stream {
		st, err := peer.OpenSSE(ctx, http.MethodGet, url, map[string]string{"Accept": "text/event-stream", "Mcp-Session-Id": sid}, nil)
		if err != nil || st.Status != 200 {
			out.Broken = fmt.Sprintf("GET: %v", err)
			return nil
		}
		streams = append(streams, st)
		return st
	}
	old := open()
	if old == nil {
		return
	}
	for dl := time.Now().Add(time.Second); mcp.VerifGetStreamCount(srv) < 1 && time.Now().Before(dl); time.Sleep(2 * time.Millisecond) {
	}
	ctl.Gate("push.lookup", true)
	ctl.Gate(in.Park, true)
	aDone := make(chan error, 1)
	go func() {
		ctl.BindGoroutine("A")
		aDone <- srv.SendNotification(sid, "notifications/message", map[string]interface{}{"level": "info", "data": "stale-A"})
	}()
	if !ctl.WaitParked("A", "push.lookup", 2*time.Second) {
		out.Unreal = "A never reached push.lookup"
		return
	}
	ctl.Release("A", "push.lookup")
	if !ctl.WaitParked("A", in.Park, 2*time.Second) {
		out.Unreal = "A never parked inside its write"
		return
	}
	type bres struct {
		n   int
		err error
	}
	bDone := make(chan bres, 1)
	go func() {
		ctl.BindGoroutine("B")
		params := map[string]interface{}{"level": "info", "data": "stale-B"}
		switch in.How {
		case "broadcast":
			n, err := srv.BroadcastNotification("notifications/message", params)
			bDone <- bres{n, err}
		case "filtered":
			n, _, err := sendFiltered(srv, params, sid)
			bDone <- bres{n, err}
		default:
			err := srv.SendNotification(sid, "notifications/message", params)
			n := 0
			if err == nil {
				n = 1
			}
			bDone <- bres{n, err}
		}
	}()
	if !ctl.WaitParked("B", "push.lookup", 2*time.Second) {
		out.Unreal = "B never reached push.lookup"
		return
	}
	ctl.Release("B", "push.lookup")
	time.Sleep(60 * time.Millisecond) // B is now waiting for the write lock A holds (or, refused early, has returned)
	seq := ctl.Seq()
	t0 := time.Now()
	var newer *peer.Stream
	if in.End == "newer" {
		newer = open()
		if newer == nil {
			return
		}
	} else {
		old.Close()
	}
	if !ctl.WaitEvent("", "get.woken", seq, 3*time.Second) {
		out.Unreal = "the server did not notice the end of the stream within 3 s"
		return
	}
	out.NoticeMs = int(time.Since(t0) / time.Millisecond)
	time.Sleep(10 * time.Millisecond)
	ctl.Gate("push.lookup", false)
	ctl.Gate(in.Park, false)
	ctl.ReleaseAll()
	select {
	case e := <-aDone:
		out.AOK = e == nil
	case <-time.After(3 * time.Second):
		out.Broken = "A did not return"
		return
	}
	select {
	case b := <-bDone:
		out.BCount = b.n
		out.BOK = b.n > 0
		if b.err != nil {
			out.BErr = b.err.Error()
		}
	case <-time.After(3 * time.Second):
		out.BHung = true
	}
	time.Sleep(40 * time.Millisecond)
	has := func(st *peer.Stream) bool {
		for _, ev := range st.Events() {
			if strings.Contains(ev.Data, "stale-B") {
				return true
			}
		}
		return false
	}
	out.BOnOld = has(old)
	if newer != nil {
		out.BOnNew = has(newer)
	}
	return
}

// c05FastAnswer: the addressed session answers a server-issued roots/list at once - its POST is served while the goroutine that
// issued the request is still inside the Flush that delivered the frame (it has not begun to wait for the answer yet).  The
// answer is the one posted by the session the request was sent to: it is accepted.
type holdFlushRW struct {
	http.ResponseWriter
	saw     bool
	flushed chan struct{}
	hold    chan struct{}
}

func (w *holdFlushRW) Write(p []byte) (int, error) {
	if bytes.Contains(p, []byte(`"roots/list"`)) {
		w.saw = true
	}
	return w.ResponseWriter.Write(p)
}

func (w *holdFlushRW) Flush() {
	if f, ok := w.ResponseWriter.(http.Flusher); ok {
		f.Flush()
	}
	if w.saw {
		w.saw = false
		select {
		case w.flushed <- struct{}{}:
		default:
		}
		<-w.hold
	}
}

func c05FastAnswer(id string) (out c05StaleOut) {
	out.ID = id
	srv := mcp.NewServer("verif", "1.0", mcp.WithServerPath("/mcp"), mcp.WithServerLogger(silentLogger{}))
	h := srv.Handler()
	flushed, hold := make(chan struct{}, 1), make(chan struct{})
	ts := httptest.NewServer(http.HandlerFunc(func(w http.ResponseWriter, r *http.Request) {
		if r.Method == http.MethodGet {
			w = &holdFlushRW{ResponseWriter: w, flushed: flushed, hold: hold}
		}
		h.ServeHTTP(w, r)
	}))
	url := ts.URL + "/mcp"
	released := false
	var stream *peer.Stream
	defer func() {
		if !released {
			close(hold)
		}
		if stream != nil {
			stream.Close()
		}
		closeClientConns(ts)
		closeTS(ts)
	}()
	ctx := context.Background()
	sid, err := peer.Handshake(ctx, url, nil)
	if err != nil || sid == "" {
		out.Broken = fmt.Sprintf("handshake: %v", err)
		return
	}
	stream, err = peer.OpenSSE(ctx, http.MethodGet, url, map[string]string{"Accept": "text/event-stream", "Mcp-Session-Id": sid}, nil)
	if err != nil || stream.Status != 200 {
		out.Broken = fmt.Sprintf("GET: %v", err)
		return
	}
	for dl := time.Now().Add(time.Second); mcp.VerifGetStreamCount(srv) < 1 && time.Now().Before(dl); time.Sleep(2 * time.Millisecond) {
	}
	type lres struct {
		n   int
		err error
	}
	done := make(chan lres, 1)
	go func() {
		lctx, cancel := context.WithTimeout(context.Background(), 2500*time.Millisecond)
		defer cancel()
		r, err := srv.SendRequest(lctx, sid, &mcp.JSONRPCRequest{JSONRPC: "2.0", ID: "fast-1", Request: mcp.Request{Method: "roots/list"}})
		n := 0
		if r != nil && strings.Contains(string(*r), "file:///fast") {
			n = 1
		}
		done <- lres{n, err}
	}()
	select {
	case <-flushed:
	case <-time.After(2 * time.Second):
		out.Unreal = "the roots/list frame was not flushed"
		return
	}
	// the peer has the frame: it answers before the issuing goroutine moves on
	var reqID string
	stream.WaitFor(2*time.Second, func(raw []byte, eof bool) bool {
		evs, _ := peer.ParseSSE(raw)
		for _, e := range evs {
			var m struct {
				ID     json.RawMessage `json:"id"`
				Method string          `json:"method"`
			}
			if json.Unmarshal([]byte(e.Data), &m) == nil && m.Method == "roots/list" {
				reqID = string(m.ID)
				return true
			}
		}
		return false
	})
	if reqID == "" {
		out.Unreal = "the peer did not see the roots/list frame"
		return
	}
	body := []byte(fmt.Sprintf(`{"jsonrpc":"2.0","id":%s,"result":{"roots":[{"uri":"file:///fast","name":"fast"}]}}`, reqID))
	r := peer.PostJSON(ctx, url, map[string]string{"Mcp-Session-Id": sid}, body, false)
	out.NoticeMs = r.Status
	released = true
	close(hold)
	select {
	case l := <-done:
		out.BOK = l.err == nil && l.n == 1
		out.BCount = l.n
		if l.err != nil {
			out.BErr = l.err.Error()
		}
	case <-time.After(5 * time.Second):
		out.BHung = true
	}
	return
}

func sendFiltered(srv *mcp.Server, params map[string]interface{}, sid string) (int, int, error) {
	return srv.SendFilteredNotification("notifications/message", params, func(id string) bool { return id == sid })
}

func init() {
	register("c05stale", func(args []string) int {
		var in struct {
			Items []c05StaleIn `json:"items"`
		}
		readInput(&in)
		out := struct {
			Results []c05StaleOut `json:"results"`
		}{}
		for _, it := range in.Items {
			if it.How == "fastanswer" {
				out.Results = append(out.Results, c05FastAnswer(it.ID))
				continue
			}
			out.Results = append(out.Results, c05Stale(it))
		}
		writeOutput(out)
		return 0
	})
}
