package main

// C05 "queued behind a write": send A is parked inside its write (it holds the stream's write lock); send B has looked the
// stream up and waits for that lock; the peer closes the stream and the server notices; A is released.  B then gets the lock of a
// stream the server knows to be closed: it must not report the session as reached.

import (
	"bytes"
	"context"
	"fmt"
	"net/http"
	"net/http/httptest"
	"strings"
	"time"

	mcp "trpc.group/trpc-go/trpc-mcp-go"
	"verifharness/internal/gate"
	"verifharness/internal/peer"
)

type c05StaleIn struct {
	ID   string `json:"id"`
	How  string `json:"how"`  // notif broadcast filtered : how B is sent
	End  string `json:"end"`  // close newer : how the stream ends (peer closes it / a newer stream of the session replaces it)
	Park string `json:"park"` // sse.write.id sse.write.data : where A is parked
}

type c05StaleOut struct {
	ID       string `json:"id"`
	AOK      bool   `json:"a_ok"`
	BOK      bool   `json:"b_ok"`    // B reported the session as reached (nil error / count 1)
	BCount   int    `json:"b_count"` // broadcast / filtered
	BErr     string `json:"b_err,omitempty"`
	BOnOld   bool   `json:"b_on_old"` // B's frame was read from the stream that ended
	BOnNew   bool   `json:"b_on_new"`
	Unreal   string `json:"unrealised,omitempty"`
	Broken   string `json:"broken,omitempty"`
	BHung    bool   `json:"b_hung"`
	NoticeMs int    `json:"notice_ms"`
}

func c05Stale(in c05StaleIn) (out c05StaleOut) {
	out.ID = in.ID
	var ctl *gate.Controller
	ctl = gate.New(nil)
	ctl.ActorOf = func(point string, kv []interface{}) (string, string) {
		if point == "push.lookup" {
			return ctl.GoroutineName(), ""
		}
		if strings.HasPrefix(point, "sse.write.") && len(kv) > 1 {
			if b, ok := kv[1].([]byte); ok {
				if bytes.Contains(b, []byte("stale-A")) {
					return "A", ""
				}
				if bytes.Contains(b, []byte("stale-B")) {
					return "B", ""
				}
			}
		}
		if point == "get.woken" {
			return "", "woken"
		}
		return "", ""
	}
	mcp.VerifSetHook(ctl.Hook)
	defer mcp.VerifSetHook(nil)
	srv := mcp.NewServer("verif", "1.0", mcp.WithServerPath("/mcp"), mcp.WithServerLogger(silentLogger{}))
	ts := httptest.NewServer(srv.Handler())
	url := ts.URL + "/mcp"
	var streams []*peer.Stream
	defer func() {
		ctl.ReleaseAll()
		for _, s := range streams {
			s.Close()
		}
		closeClientConns(ts)
		closeTS(ts)
	}()
	ctx := context.Background()
	sid, err := peer.Handshake(ctx, url, nil)
	if err != nil || sid == "" {
		out.Broken = fmt.Sprintf("handshake: %v", err)
		return
	}
	open := func() *peer.Stream {
		st, err := peer.OpenSSE(ctx, http.MethodGet, url, map[string]string{"Accept": "text/event-stream", "Mcp-Session-Id": sid}, nil)
		if err != nil || st.Status != 200 {
			out.Broken = fmt.Sprintf("GET: %v", err)
			return nil
		}
		streams = append(streams, st)
		return st
	}
	old := open()
	if old == nil {
		return
	}
	for dl := time.Now().Add(time.Second); mcp.VerifGetStreamCount(srv) < 1 && time.Now().Before(dl); time.Sleep(2 * time.Millisecond) {
	}
	ctl.Gate("push.lookup", true)
	ctl.Gate(in.Park, true)
	aDone := make(chan error, 1)
	go func() {
		ctl.BindGoroutine("A")
		aDone <- srv.SendNotification(sid, "notifications/message", map[string]interface{}{"level": "info", "data": "stale-A"})
	}()
	if !ctl.WaitParked("A", "push.lookup", 2*time.Second) {
		out.Unreal = "A never reached push.lookup"
		return
	}
	ctl.Release("A", "push.lookup")
	if !ctl.WaitParked("A", in.Park, 2*time.Second) {
		out.Unreal = "A never parked inside its write"
		return
	}
	type bres struct {
		n   int
		err error
	}
	bDone := make(chan bres, 1)
	go func() {
		ctl.BindGoroutine("B")
		params := map[string]interface{}{"level": "info", "data": "stale-B"}
		switch in.How {
		case "broadcast":
			n, err := srv.BroadcastNotification("notifications/message", params)
			bDone <- bres{n, err}
		case "filtered":
			n, _, err := sendFiltered(srv, params, sid)
			bDone <- bres{n, err}
		default:
			err := srv.SendNotification(sid, "notifications/message", params)
			n := 0
			if err == nil {
				n = 1
			}
			bDone <- bres{n, err}
		}
	}()
	if !ctl.WaitParked("B", "push.lookup", 2*time.Second) {
		out.Unreal = "B never reached push.lookup"
		return
	}
	ctl.Release("B", "push.lookup")
	time.Sleep(60 * time.Millisecond) // B is now waiting for the write lock A holds (or, refused early, has returned)
	seq := ctl.Seq()
	t0 := time.Now()
	var newer *peer.Stream
	if in.End == "newer" {
		newer = open()
		if newer == nil {
			return
		}
	} else {
		old.Close()
	}
	if !ctl.WaitEvent("", "get.woken", seq, 3*time.Second) {
		out.Unreal = "the server did not notice the end of the stream within 3 s"
		return
	}
	out.NoticeMs = int(time.Since(t0) / time.Millisecond)
	time.Sleep(10 * time.Millisecond)
	ctl.Gate("push.lookup", false)
	ctl.Gate(in.Park, false)
	ctl.ReleaseAll()
	select {
	case e := <-aDone:
		out.AOK = e == nil
	case <-time.After(3 * time.Second):
		out.Broken = "A did not return"
		return
	}
	select {
	case b := <-bDone:
		out.BCount = b.n
		out.BOK = b.n > 0
		if b.err != nil {
			out.BErr = b.err.Error()
		}
	case <-time.After(3 * time.Second):
		out.BHung = true
	}
	time.Sleep(40 * time.Millisecond)
	has := func(st *peer.Stream) bool {
		for _, ev := range st.Events() {
			if strings.Contains(ev.Data, "stale-B") {
				return true
			}
		}
		return false
	}
	out.BOnOld = has(old)
	if newer != nil {
		out.BOnNew = has(newer)
	}
	return
}

func sendFiltered(srv *mcp.Server, params map[string]interface{}, sid string) (int, int, error) {
	return srv.SendFilteredNotification("notifications/message", params, func(id string) bool { return id == sid })
}

func init() {
	register("c05stale", func(args []string) int {
		var in struct {
			Items []c05StaleIn `json:"items"`
		}
		readInput(&in)
		out := struct {
			Results []c05StaleOut `json:"results"`
		}{}
		for _, it := range in.Items {
			out.Results = append(out.Results, c05Stale(it))
		}
		writeOutput(out)
		return 0
	})
}
