package main

import (
	"fmt"
	"os"

	mcp "trpc.group/trpc-go/trpc-mcp-go"
)

func main() {
	s := mcp.NewServer("x", "1")
	fmt.Println(mcp.VerifGetStreamCount(s), os.Args)
}
