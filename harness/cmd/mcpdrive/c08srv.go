package main

// C08, server side: a raw TCP peer sets up a session on a real server, brings it into a state
// (idle listening stream / a tool handler running / a handler waiting for the peer's answer to
// roots/list) and then vanishes - all its connections are closed or reset.  Reported: how long the
// server needed to release the streams, pending-request entries, handler invocations and library
// goroutines it had created for that peer.

import (
	"bufio"
	"context"
	"encoding/json"
	"fmt"
	"io"
	"net"
	"net/http"
	"net/http/httptest"
	"strings"
	"sync/atomic"
	"time"

	mcp "trpc.group/trpc-go/trpc-mcp-go"
	"verifharness/internal/gate"
)

type c08SrvScenario struct {
	ID     string `json:"id"`
	Server string `json:"server"` // streamable streamable-sse legacy
	State  string `json:"state"`  // idle-stream in-handler in-listroots in-listroots-late (request registered, not yet written)
	How    string `json:"how"`    // close reset
	NPeers int    `json:"npeers"`
}

type c08SrvResult struct {
	ID        string  `json:"id"`
	Reached   bool    `json:"reached"` // the state was reached before the peer vanished
	ReleaseMs float64 `json:"release_ms"`
	Streams   int     `json:"streams"`
	Pending   int     `json:"pending"`
	Handlers  int     `json:"handlers"` // started - ended
	LibG      int     `json:"lib_goroutines"`
	Sample    string  `json:"sample,omitempty"`
	Broken    string  `json:"broken,omitempty"`
}

type rawConn struct {
	c  net.Conn
	br *bufio.Reader
}

func dialRaw(addr string) (*rawConn, error) {
	c, err := net.DialTimeout("tcp", addr, 2*time.Second)
	if err != nil {
		return nil, err
	}
	return &rawConn{c: c, br: bufio.NewReader(c)}, nil
}

func (r *rawConn) send(method, path string, hdr map[string]string, body []byte) error {
	var b strings.Builder
	fmt.Fprintf(&b, "%s %s HTTP/1.1\r\nHost: verif\r\n", method, path)
	for k, v := range hdr {
		fmt.Fprintf(&b, "%s: %s\r\n", k, v)
	}
	if body != nil {
		fmt.Fprintf(&b, "Content-Type: application/json\r\nContent-Length: %d\r\n", len(body))
	}
	b.WriteString("\r\n")
	r.c.SetWriteDeadline(time.Now().Add(3 * time.Second))
	if _, err := io.WriteString(r.c, b.String()); err != nil {
		return err
	}
	_, err := r.c.Write(body)
	return err
}

// head reads the response head; full=true also reads a length-delimited body.
func (r *rawConn) head(full bool) (*http.Response, []byte, error) {
	r.c.SetReadDeadline(time.Now().Add(3 * time.Second))
	resp, err := http.ReadResponse(r.br, nil)
	if err != nil {
		return nil, nil, err
	}
	var body []byte
	if full {
		body, err = io.ReadAll(resp.Body)
	}
	return resp, body, err
}

func (r *rawConn) vanish(how string) {
	if how == "reset" {
		if tc, ok := r.c.(*net.TCPConn); ok {
			tc.SetLinger(0)
		}
	}
	r.c.Close()
}

type c08Peer struct {
	conns  []*rawConn
	sid    string
	msgURL string
}

func c08SrvRun(sc c08SrvScenario) (res c08SrvResult) {
	res.ID = sc.ID
	if sc.NPeers < 1 {
		sc.NPeers = 1
	}
	var started, ended int32
	var srv *mcp.Server
	var lsrv *mcp.SSEServer
	block := func(ctx context.Context, req *mcp.CallToolRequest) (*mcp.CallToolResult, error) {
		atomic.AddInt32(&started, 1)
		defer atomic.AddInt32(&ended, 1)
		select {
		case <-ctx.Done():
		case <-time.After(10 * time.Second):
		}
		return mcp.NewTextResult("late"), nil
	}
	askroots := func(ctx context.Context, req *mcp.CallToolRequest) (*mcp.CallToolResult, error) {
		atomic.AddInt32(&started, 1)
		defer atomic.AddInt32(&ended, 1)
		var err error
		if lsrv != nil {
			_, err = lsrv.ListRoots(ctx)
		} else {
			_, err = srv.ListRoots(ctx)
		}
		return mcp.NewTextResult(fmt.Sprint("roots:", err)), nil
	}
	var ts *httptest.Server
	if sc.Server == "legacy" {
		lsrv = mcp.NewSSEServer("verif", "1.0", mcp.WithSSEServerLogger(silentLogger{}), mcp.WithKeepAlive(false))
		lsrv.RegisterTool(mcp.NewTool("block"), block)
		lsrv.RegisterTool(mcp.NewTool("askroots"), askroots)
		ts = httptest.NewServer(lsrv)
	} else {
		srv = mcp.NewServer("verif", "1.0", mcp.WithServerPath("/mcp"), mcp.WithServerLogger(silentLogger{}), mcp.WithPostSSEEnabled(sc.Server == "streamable-sse"))
		srv.RegisterTool(mcp.NewTool("block"), block)
		srv.RegisterTool(mcp.NewTool("askroots"), askroots)
		ts = httptest.NewServer(srv.Handler())
	}
	defer func() { closeClientConns(ts); closeTS(ts) }()
	addr := ts.Listener.Addr().String()
	time.Sleep(10 * time.Millisecond)
	g0, _ := libGoroutines()
	pending := func() int {
		if lsrv != nil {
			return mcp.VerifPendingServerRequests(lsrv)
		}
		return mcp.VerifPendingServerRequests(srv)
	}
	streams := func() int {
		if srv != nil {
			return mcp.VerifGetStreamCount(srv)
		}
		return 0
	}
	initBody := []byte(`{"jsonrpc":"2.0","id":1,"method":"initialize","params":{"protocolVersion":"2025-03-26","clientInfo":{"name":"raw","version":"0"},"capabilities":{"roots":{"listChanged":true}}}}`)
	inited := []byte(`{"jsonrpc":"2.0","method":"notifications/initialized"}`)
	var peers []*c08Peer
	fail := func(f string, a ...interface{}) c08SrvResult {
		res.Broken = fmt.Sprintf(f, a...)
		for _, p := range peers {
			for _, c := range p.conns {
				c.c.Close()
			}
		}
		return res
	}
	for i := 0; i < sc.NPeers; i++ {
		p := &c08Peer{}
		peers = append(peers, p)
		dial := func() (*rawConn, error) {
			c, err := dialRaw(addr)
			if err == nil {
				p.conns = append(p.conns, c)
			}
			return c, err
		}
		if sc.Server == "legacy" {
			s, err := dial()
			if err != nil {
				return fail("dial: %v", err)
			}
			s.send("GET", "/sse", map[string]string{"Accept": "text/event-stream"}, nil)
			if _, _, err := s.head(false); err != nil {
				return fail("legacy stream: %v", err)
			}
			// the endpoint event (chunked body: scan lines for the data field)
			dl := time.Now().Add(2 * time.Second)
			for p.msgURL == "" && time.Now().Before(dl) {
				line, err := s.br.ReadString('\n')
				if err != nil {
					return fail("legacy endpoint: %v", err)
				}
				if strings.HasPrefix(line, "data: ") && strings.Contains(line, "sessionId=") {
					p.msgURL = strings.TrimSpace(line[6:])
				}
			}
			if i := strings.Index(p.msgURL, "://"); i >= 0 {
				rest := p.msgURL[i+3:]
				p.msgURL = rest[strings.Index(rest, "/"):]
			}
			c, _ := dial()
			for _, b := range [][]byte{initBody, inited} {
				c.send("POST", p.msgURL, nil, b)
				if resp, _, err := c.head(true); err != nil || resp.StatusCode != 202 {
					return fail("legacy handshake: %v %v", resp, err)
				}
			}
		} else {
			c, err := dial()
			if err != nil {
				return fail("dial: %v", err)
			}
			c.send("POST", "/mcp", map[string]string{"Accept": "application/json"}, initBody)
			resp, _, err := c.head(true)
			if err != nil || resp.StatusCode != 200 {
				return fail("initialize: %v %v", resp, err)
			}
			p.sid = resp.Header.Get("Mcp-Session-Id")
			c.send("POST", "/mcp", map[string]string{"Accept": "application/json", "Mcp-Session-Id": p.sid}, inited)
			if _, _, err := c.head(true); err != nil {
				return fail("initialized: %v", err)
			}
			// the listening stream
			g, _ := dial()
			g.send("GET", "/mcp", map[string]string{"Accept": "text/event-stream", "Mcp-Session-Id": p.sid}, nil)
			if resp, _, err := g.head(false); err != nil || resp.StatusCode != 200 {
				return fail("GET stream: %v %v", resp, err)
			}
		}
	}
	if srv != nil {
		for dl := time.Now().Add(time.Second); streams() < sc.NPeers && time.Now().Before(dl); time.Sleep(2 * time.Millisecond) {
		}
	}
	// bring every peer into the state
	var ctl *gate.Controller
	if sc.State == "in-listroots-late" {
		// the server-to-client request is parked between its registration and its write to the stream
		ctl = gate.New(func(point string, kv []interface{}) (string, string) {
			if point == "sreq.registered" {
				return "srv-" + fmt.Sprint(kv[0]), fmt.Sprint(kv...) // one actor per session
			}
			return "", ""
		})
		ctl.Gate("sreq.registered", true)
		mcp.VerifSetHook(ctl.Hook)
		defer func() { ctl.ReleaseAll(); mcp.VerifSetHook(nil) }()
	}
	tool := map[string]string{"in-handler": "block", "in-listroots": "askroots", "in-listroots-late": "askroots"}[sc.State]
	if tool != "" {
		for _, p := range peers {
			c, err := dialRaw(addr)
			if err != nil {
				return fail("dial: %v", err)
			}
			p.conns = append(p.conns, c)
			body, _ := json.Marshal(map[string]interface{}{"jsonrpc": "2.0", "id": 7, "method": "tools/call", "params": map[string]interface{}{"name": tool, "arguments": map[string]interface{}{}}})
			if sc.Server == "legacy" {
				c.send("POST", p.msgURL, nil, body)
			} else {
				c.send("POST", "/mcp", map[string]string{"Accept": "application/json, text/event-stream", "Mcp-Session-Id": p.sid}, body)
			}
		}
		want := int32(sc.NPeers)
		dl := time.Now().Add(2 * time.Second)
		for time.Now().Before(dl) {
			if atomic.LoadInt32(&started) >= want && (!strings.HasPrefix(sc.State, "in-listroots") || pending() >= sc.NPeers) {
				res.Reached = true
				break
			}
			time.Sleep(2 * time.Millisecond)
		}
		time.Sleep(30 * time.Millisecond)
	} else {
		res.Reached = srv == nil || streams() >= sc.NPeers
	}
	// the peer vanishes
	t0 := time.Now()
	for _, p := range peers {
		for _, c := range p.conns {
			c.vanish(sc.How)
		}
	}
	if ctl != nil {
		time.Sleep(100 * time.Millisecond) // the stream's handler has noticed that its peer is gone
		ctl.ReleaseAll()
	}
	dl := t0.Add(3 * time.Second)
	for {
		g1, sample := libGoroutines()
		res.Streams, res.Pending, res.Handlers, res.LibG, res.Sample = streams(), pending(), int(atomic.LoadInt32(&started)-atomic.LoadInt32(&ended)), g1-g0, sample
		if res.Streams == 0 && res.Pending == 0 && res.Handlers == 0 && res.LibG <= 0 {
			break
		}
		if time.Now().After(dl) {
			break
		}
		time.Sleep(10 * time.Millisecond)
	}
	res.ReleaseMs = float64(time.Since(t0)) / float64(time.Millisecond)
	if res.LibG <= 0 {
		res.Sample = ""
	}
	return
}

func init() {
	register("c08srv", func(args []string) int {
		var in struct {
			Scenarios []c08SrvScenario `json:"scenarios"`
		}
		readInput(&in)
		out := struct {
			Results []c08SrvResult `json:"results"`
		}{}
		for _, s := range in.Scenarios {
			out.Results = append(out.Results, c08SrvRun(s))
		}
		writeOutput(out)
		return 0
	})
}
