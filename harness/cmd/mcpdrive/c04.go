package main

// C04: paths through the SessionLifecycle state graph are executed against a real Streamable-HTTP
// server by the raw reference peer; every exchange's status, session header, the set of active
// sessions the server reports and stream termination are reported for comparison with the edge labels.

import (
	"context"
	"crypto/rand"
	"encoding/hex"
	"fmt"
	"net/http"
	"net/http/httptest"
	"sort"
	"strings"
	"sync"
	"time"

	mcp "trpc.group/trpc-go/trpc-mcp-go"
	"verifharness/internal/peer"
)

type c04Config struct {
	Mode    string `json:"mode"`
	Get     bool   `json:"get"`
	PostSSE bool   `json:"postsse"`
	MW      bool   `json:"mw"` // a pass-through middleware is configured
}

type c04Step struct {
	Op      string `json:"op"` // init req notif resp get sclose delete
	Cls     string `json:"cls"`
	S       string `json:"s"`
	SSE     bool   `json:"sse"`
	Variant int    `json:"variant"`
	Ends    string `json:"ends,omitempty"`
}

type c04Obs struct {
	Status  int      `json:"status"`
	Hdr     string   `json:"hdr"`    // model id, "none", "new:<id>" or "other:<id>"
	Active  []string `json:"active"` // model ids of the sessions the server reports
	ActErr  string   `json:"active_err,omitempty"`
	Ended   *bool    `json:"ended,omitempty"`
	Err     string   `json:"err,omitempty"`
	Body    string   `json:"body,omitempty"`
	SentHdr string   `json:"sent_hdr,omitempty"`
	// ServedIn: the session id a whoami call reported, when it is not the id the request bore
	ServedIn string `json:"served_in,omitempty"`
}

type c04PathResult struct {
	ID     string   `json:"id"`
	Obs    []c04Obs `json:"obs"`
	Issued []string `json:"issued"`
	Broken string   `json:"broken,omitempty"`
}

func c04NewServer(cfg c04Config) *mcp.Server {
	opts := []mcp.ServerOption{mcp.WithServerPath("/mcp"), mcp.WithServerLogger(silentLogger{}),
		mcp.WithGetSSEEnabled(cfg.Get), mcp.WithPostSSEEnabled(cfg.PostSSE)}
	switch cfg.Mode {
	case "stateless":
		opts = append(opts, mcp.WithStatelessMode(true))
	case "nosession":
		opts = append(opts, mcp.WithoutSession())
	}
	if cfg.MW {
		// a middleware that does nothing: the session a request is served in does not depend on it
		opts = append(opts, mcp.WithMiddleware(func(next mcp.HandlerFunc) mcp.HandlerFunc {
			return func(ctx context.Context, req *mcp.JSONRPCRequest) (mcp.JSONRPCMessage, error) { return next(ctx, req) }
		}))
	}
	srv := mcp.NewServer("verif", "1.0", opts...)
	// whoami: the id of the session the request is served in
	srv.RegisterTool(mcp.NewTool("whoami"), func(ctx context.Context, req *mcp.CallToolRequest) (*mcp.CallToolResult, error) {
		id := "none"
		if sess := mcp.ClientSessionFromContext(ctx); sess != nil {
			id = sess.GetID() // the session the dispatcher serves the request in
		} else if sess, ok := mcp.GetSessionFromContext(ctx); ok && sess != nil {
			id = sess.GetID()
		}
		return mcp.NewTextResult("served-in:" + id + ";"), nil
	})
	srv.RegisterTool(mcp.NewTool("echo", mcp.WithString("text")), func(ctx context.Context, req *mcp.CallToolRequest) (*mcp.CallToolResult, error) {
		return mcp.NewTextResult("x"), nil
	})
	// counter: how many times THIS session has called it (kept in the session's data)
	srv.RegisterTool(mcp.NewTool("counter"), func(ctx context.Context, req *mcp.CallToolRequest) (*mcp.CallToolResult, error) {
		n := 0
		sess, _ := mcp.GetSessionFromContext(ctx)
		if sess == nil {
			sess = mcp.ClientSessionFromContext(ctx)
		}
		if sess != nil {
			if v, ok := sess.GetData("verif-n"); ok {
				n, _ = v.(int)
			}
			n++
			sess.SetData("verif-n", n)
		} else {
			n = 1
		}
		return mcp.NewTextResult(fmt.Sprintf("n=%d", n)), nil
	})
	// notify-first: a notification goes out before the result (on an SSE answer it is the first frame)
	srv.RegisterTool(mcp.NewTool("notify-first"), func(ctx context.Context, req *mcp.CallToolRequest) (*mcp.CallToolResult, error) {
		if sender, ok := mcp.GetNotificationSender(ctx); ok {
			sender.SendLogMessage("info", "before the result")
		}
		return mcp.NewTextResult("after-notification"), nil
	})
	return srv
}

func randHex(n int) string {
	b := make([]byte, n)
	rand.Read(b)
	return hex.EncodeToString(b)
}

func c04RunPath(cfg c04Config, id string, steps []c04Step, foreign string, shared *mcp.Server, sharedURL string) (res c04PathResult) {
	res.ID = id
	srv := shared
	url := sharedURL
	var ts *httptest.Server
	if srv == nil {
		srv = c04NewServer(cfg)
		ts = httptest.NewServer(srv.Handler())
		url = ts.URL + "/mcp"
	}
	real := map[string]string{}  // model -> real
	model := map[string]string{} // real -> model
	streams := map[string][]*peer.Stream{}
	defer func() {
		for _, l := range streams {
			for _, st := range l {
				st.Close()
			}
		}
		if ts != nil {
			closeClientConns(ts)
			closeTS(ts)
		}
	}()
	ctx := context.Background()
	next := 1
	cfgOf := func(st c04Step) bool { return cfg.Mode == "stateful" && st.Cls == "live" }
	for _, st := range steps {
		hdr := map[string]string{}
		sent := ""
		switch st.Cls {
		case "live", "deleted":
			sent = real[st.S]
			if sent == "" {
				res.Broken = fmt.Sprintf("step uses unbound session %s", st.S)
				return
			}
		case "never":
			switch st.Variant % 5 {
			case 4:
				// a case variant of a live id (ids are opaque: it was never issued)
				sent = randHex(16)
				for _, live := range real {
					if live != "" && strings.ToUpper(live) != live {
						sent = strings.ToUpper(live)
						break
					}
				}
			case 0:
				sent = randHex(16)
			case 1:
				sent = "not-a-session-id"
			case 2:
				sent = foreign
			case 3:
				sent = strings.Repeat("f", 300)
			}
		}
		if sent != "" {
			hdr["Mcp-Session-Id"] = sent
		}
		var o c04Obs
		o.SentHdr = sent
		var r peer.Resp
		switch st.Op {
		case "init":
			ib := peer.InitRequest(1)
			if st.Cls == "live" && st.Variant%4 == 3 {
				// a re-initialize the server answers with an error (no protocolVersion): the session it bears lives on
				ib = []byte(`{"jsonrpc":"2.0","id":1,"method":"initialize","params":{"clientInfo":{"name":"raw","version":"0"},"capabilities":{}}}`)
			}
			r = peer.PostJSON(ctx, url, hdr, ib, st.SSE)
		case "req":
			body := `{"jsonrpc":"2.0","id":7,"method":"tools/list"}`
			switch st.Variant % 4 {
			case 1:
				body = `{"jsonrpc":"2.0","id":"p","method":"ping"}`
				if cfgOf(st) {
					body = `{"jsonrpc":"2.0","id":"w","method":"tools/call","params":{"name":"whoami","arguments":{}}}`
				}
			case 2:
				body = `{"jsonrpc":"2.0","id":8,"method":"tools/call","params":{"name":"counter","arguments":{}}}`
			case 3:
				body = `{"jsonrpc":"2.0","id":9,"method":"tools/call","params":{"name":"notify-first","arguments":{}}}`
			}
			r = peer.PostJSON(ctx, url, hdr, []byte(body), st.SSE)
			o.Body = string(r.Body)
			if i := strings.Index(o.Body, "served-in:"); i >= 0 && sent != "" {
				got := o.Body[i+10:]
				if j := strings.Index(got, ";"); j >= 0 {
					got = got[:j]
				}
				if got != sent {
					o.ServedIn = got
				}
			}
		case "notif":
			body := `{"jsonrpc":"2.0","method":"notifications/initialized"}`
			switch st.Variant % 4 {
			case 1:
				body = `{"jsonrpc":"2.0","method":"notifications/roots/list_changed"}`
			case 2:
				// a notification that merely bears the name of the handshake request: it is not an initialize request
				body = `{"jsonrpc":"2.0","method":"initialize","params":{"protocolVersion":"2025-03-26","clientInfo":{"name":"raw","version":"0"},"capabilities":{}}}`
			case 3:
				body = `{"jsonrpc":"2.0","id":null,"method":"initialize","params":{"protocolVersion":"2025-03-26","clientInfo":{"name":"raw","version":"0"},"capabilities":{}}}`
			}
			r = peer.PostJSON(ctx, url, hdr, []byte(body), st.SSE)
		case "resp":
			r = peer.PostJSON(ctx, url, hdr, []byte(`{"jsonrpc":"2.0","id":"never-sent","result":{"roots":[]}}`), st.SSE)
		case "get":
			hdr["Accept"] = "text/event-stream"
			gctx, cancel := context.WithTimeout(ctx, 5*time.Second)
			stream, err := peer.OpenSSE(ctx, http.MethodGet, url, hdr, nil)
			cancel()
			_ = gctx
			if err != nil {
				r = peer.Resp{Err: err}
			} else {
				r = peer.Resp{Status: stream.Status, Header: stream.Header}
				if stream.Status == 200 {
					streams[st.S] = append(streams[st.S], stream)
				} else {
					stream.Close()
				}
			}
		case "sclose":
			for _, s := range streams[st.S] {
				s.Close()
			}
			streams[st.S] = nil
			// wait until the server has noticed, so that the next step sees a settled state
			time.Sleep(5 * time.Millisecond)
			r = peer.Resp{Status: -1}
		case "delete":
			r = peer.Do(ctx, http.MethodDelete, url, hdr, nil)
			if st.Ends != "" && st.Ends != "-" {
				ended := true
				for _, s := range streams[st.Ends] {
					if !s.WaitEOF(2 * time.Second) {
						ended = false
					}
				}
				o.Ended = &ended
				streams[st.Ends] = nil
			}
		default:
			res.Broken = "unknown op " + st.Op
			return
		}
		o.Status = r.Status
		if r.Err != nil {
			o.Err = r.Err.Error()
		}
		if r.Header != nil {
			got := r.Header.Get("Mcp-Session-Id")
			if len(r.Header.Values("Mcp-Session-Id")) > 1 {
				o.Hdr = "other:duplicated-header"
			} else if got == "" {
				o.Hdr = "none"
			} else if m, ok := model[got]; ok {
				o.Hdr = m
			} else if got == sent {
				o.Hdr = "other:echo-of-unknown:" + got
			} else {
				o.Hdr = "new:" + got
				if st.Op == "init" && st.Cls == "none" && r.Status == 200 {
					m := fmt.Sprintf("s%d", next)
					next++
					real[m] = got
					model[got] = m
					res.Issued = append(res.Issued, got)
				}
			}
		} else {
			o.Hdr = "none"
		}
		act, err := srv.GetActiveSessions()
		if err != nil {
			o.ActErr = err.Error()
		}
		for _, a := range act {
			if m, ok := model[a]; ok {
				o.Active = append(o.Active, m)
			} else if shared == nil {
				o.Active = append(o.Active, "other:"+a)
			}
		}
		sort.Strings(o.Active)
		if o.Active == nil {
			o.Active = []string{}
		}
		res.Obs = append(res.Obs, o)
	}
	return
}

func init() {
	register("c04", func(args []string) int {
		var in struct {
			Config c04Config `json:"config"`
			Shared bool      `json:"shared"`
			Paths  []struct {
				ID    string    `json:"id"`
				Steps []c04Step `json:"steps"`
			} `json:"paths"`
			Harvest int `json:"harvest"` // only issue that many sessions on one stateful server and report their ids
		}
		readInput(&in)
		if in.Harvest > 0 {
			hs := httptest.NewServer(c04NewServer(c04Config{Mode: "stateful", Get: true, PostSSE: true}).Handler())
			ids := []string{}
			for i := 0; i < in.Harvest; i++ {
				r := peer.PostJSON(context.Background(), hs.URL+"/mcp", nil, peer.InitRequest(1), i%2 == 0)
				if id := r.Header.Get("Mcp-Session-Id"); id != "" {
					ids = append(ids, id)
				}
			}
			closeClientConns(hs)
			closeTS(hs)
			writeOutput(map[string]interface{}{"ids": ids})
			return 0
		}
		// an id made by ANOTHER server instance
		other := httptest.NewServer(c04NewServer(c04Config{Mode: "stateful", Get: true, PostSSE: true}).Handler())
		fr := peer.PostJSON(context.Background(), other.URL+"/mcp", nil, peer.InitRequest(1), false)
		foreign := fr.Header.Get("Mcp-Session-Id")
		closeTS(other)
		if foreign == "" {
			foreign = randHex(16)
		}
		out := struct {
			Results []c04PathResult `json:"results"`
		}{}
		if in.Shared {
			// all walks run concurrently, each on its own sessions, against ONE server
			srv := c04NewServer(in.Config)
			ts := httptest.NewServer(srv.Handler())
			results := make([]c04PathResult, len(in.Paths))
			var wg sync.WaitGroup
			for i, p := range in.Paths {
				wg.Add(1)
				go func(i int, id string, steps []c04Step) {
					defer wg.Done()
					results[i] = c04RunPath(in.Config, id, steps, foreign, srv, ts.URL+"/mcp")
				}(i, p.ID, p.Steps)
			}
			wg.Wait()
			closeClientConns(ts)
			closeTS(ts)
			out.Results = results
		} else {
			for _, p := range in.Paths {
				out.Results = append(out.Results, c04RunPath(in.Config, p.ID, p.Steps, foreign, nil, ""))
			}
		}
		writeOutput(out)
		return 0
	})
}
