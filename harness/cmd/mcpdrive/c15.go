package main

// C15: every chain enumerated by TLC from Middleware.tla is built from instrumented middlewares and
// exercised with overlapped requests on Streamable HTTP (JSON / SSE answers) and legacy SSE; the
// per-request event sequence and the answer the raw peer receives are reported.

import (
	"context"
	"encoding/json"
	"fmt"
	"net/http"
	"net/http/httptest"
	"strings"
	"sync"
	"time"

	mcp "trpc.group/trpc-go/trpc-mcp-go"
	"verifharness/internal/peer"
)

type c15Scenario struct {
	ID        string   `json:"id"`
	Chain     []string `json:"chain"`
	Transport string   `json:"transport"` // json | sse | legacy
	Form      string   `json:"form"`      // single | repeated
	Parallel  int      `json:"parallel"`
}

type c15Req struct {
	Nonce    string          `json:"nonce"`
	Events   []string        `json:"events"` // "b1" "a1" "H"
	CtxOK    bool            `json:"ctx_ok"` // every stage saw this request's own token and session
	CtxNote  string          `json:"ctx_note,omitempty"`
	Response json.RawMessage `json:"response"`
	Status   int             `json:"status"`
}

type c15Result struct {
	HandshakeErr string   `json:"handshake_err,omitempty"`
	ID           string   `json:"id"`
	Reqs         []c15Req `json:"reqs"`
	Other        []string `json:"other"` // methods of nonce-less messages the middlewares saw
	NotifMW      int      `json:"notif_mw"`
	Alias        string   `json:"alias"` // the answer to the request whose method a middleware rewrites to tools/call
	Broken       string   `json:"broken,omitempty"`
}

type c15Rec struct {
	mu     sync.Mutex
	events map[string][]string
	ctxBad map[string]string
	other  []string
}

type c15TokenKey struct{}

type c15TrailKey struct{}

func c15Nonce(req *mcp.JSONRPCRequest) string {
	if req.Method != "tools/call" {
		return ""
	}
	p, _ := req.Params.(map[string]interface{})
	a, _ := p["arguments"].(map[string]interface{})
	n, _ := a["nonce"].(string)
	return n
}

func (r *c15Rec) add(nonce, ev string, ctx context.Context, wantSession map[string]string) {
	r.mu.Lock()
	defer r.mu.Unlock()
	r.events[nonce] = append(r.events[nonce], ev)
	tok, _ := ctx.Value(c15TokenKey{}).(string)
	if tok != nonce {
		r.ctxBad[nonce] = fmt.Sprintf("%s saw token %q", ev, tok)
	}
	if want, ok := wantSession[nonce]; ok && want != "" {
		got := ""
		if s, ok := mcp.GetSessionFromContext(ctx); ok && s != nil {
			got = s.GetID()
		}
		if got != want {
			r.ctxBad[nonce] = fmt.Sprintf("%s saw session %q, want %q", ev, got, want)
		}
	}
}

func c15MW(i int, b string, rec *c15Rec, want map[string]string) mcp.Middleware {
	return func(next mcp.HandlerFunc) mcp.HandlerFunc {
		return func(ctx context.Context, req *mcp.JSONRPCRequest) (mcp.JSONRPCMessage, error) {
			nonce := c15Nonce(req)
			if nonce == "" {
				rec.mu.Lock()
				rec.other = append(rec.other, req.Method)
				rec.mu.Unlock()
				if req.Method == "verif/alias" {
					// a middleware that rewrites the method: what it hands to next is what gets dispatched
					nr := *req
					nr.Method = "tools/call"
					return next(ctx, &nr)
				}
				return next(ctx, req)
			}
			rec.add(nonce, fmt.Sprintf("b%d", i), ctx, want)
			switch b {
			case "short":
				return map[string]interface{}{"short": i, "nonce": nonce}, nil
			case "fail":
				if i%2 == 1 {
					// a failure of the middleware's own making that carries a context error (a backend call that timed out)
					return nil, fmt.Errorf("mw-fail-%d-%s: backend: %w", i, nonce, context.DeadlineExceeded)
				}
				return nil, fmt.Errorf("mw-fail-%d-%s", i, nonce)
			case "modReq":
				// the middleware hands a NEW request (a copy with its mark in the arguments) and a DERIVED context to next:
				// what the next layer and the handler see is what was passed to next, not the original
				p, _ := req.Params.(map[string]interface{})
				np := map[string]interface{}{}
				for k, v := range p {
					np[k] = v
				}
				a, _ := p["arguments"].(map[string]interface{})
				na := map[string]interface{}{}
				for k, v := range a {
					na[k] = v
				}
				t, _ := na["trail"].(string)
				na["trail"] = t + fmt.Sprintf("q%d", i)
				np["arguments"] = na
				nreq := *req
				nreq.Params = np
				req = &nreq
				ct, _ := ctx.Value(c15TrailKey{}).(string)
				ctx = context.WithValue(ctx, c15TrailKey{}, ct+fmt.Sprintf("q%d", i))
			}
			res, err := next(ctx, req)
			rec.add(nonce, fmt.Sprintf("a%d", i), ctx, want)
			if b == "modRes" && err == nil {
				res = map[string]interface{}{"wrapped_by": i, "inner": res}
			}
			return res, err
		}
	}
}

func c15Run(sc c15Scenario) (res c15Result) {
	res.ID = sc.ID
	rec := &c15Rec{events: map[string][]string{}, ctxBad: map[string]string{}}
	want := map[string]string{}
	var wmu sync.Mutex
	var mws []mcp.Middleware
	for i, b := range sc.Chain {
		mws = append(mws, c15MW(i+1, b, rec, want))
	}
	handler := func(ctx context.Context, req *mcp.CallToolRequest) (*mcp.CallToolResult, error) {
		n, _ := req.Params.Arguments["nonce"].(string)
		t, _ := req.Params.Arguments["trail"].(string)
		wmu.Lock()
		w := map[string]string{}
		for k, v := range want {
			w[k] = v
		}
		wmu.Unlock()
		rec.add(n, "H", ctx, w)
		if ct, _ := ctx.Value(c15TrailKey{}).(string); ct != t {
			rec.mu.Lock()
			rec.ctxBad[n] = fmt.Sprintf("the handler's context carries the middleware marks %q, its arguments %q", ct, t)
			rec.mu.Unlock()
		}
		if cs := mcp.ClientSessionFromContext(ctx); cs != nil && w[n] != "" && cs.GetID() != w[n] {
			rec.mu.Lock()
			rec.ctxBad[n] = fmt.Sprintf("handler was given client session %q, want %q", cs.GetID(), w[n])
			rec.mu.Unlock()
		}
		return mcp.NewTextResult("H:" + n + ":" + t), nil
	}
	tool := mcp.NewTool("echo", mcp.WithString("nonce"), mcp.WithString("trail"))
	ctxFunc := func(ctx context.Context, r *http.Request) context.Context {
		return context.WithValue(ctx, c15TokenKey{}, r.Header.Get("X-Verif-Token"))
	}
	ctx := context.Background()
	mkBody := func(nonce string, id int) []byte {
		b, _ := json.Marshal(map[string]interface{}{"jsonrpc": "2.0", "id": id, "method": "tools/call",
			"params": map[string]interface{}{"name": "echo", "arguments": map[string]interface{}{"nonce": nonce, "trail": ""}}})
		return b
	}
	res.Reqs = make([]c15Req, sc.Parallel)
	if sc.Transport == "legacy" {
		opts := []mcp.SSEOption{mcp.WithSSEServerLogger(silentLogger{}), mcp.WithKeepAlive(false), mcp.WithSSEContextFunc(ctxFunc)}
		if sc.Form == "repeated" {
			for _, m := range mws {
				opts = append(opts, mcp.WithSSEMiddleware(m))
			}
		} else if len(mws) > 0 {
			opts = append(opts, mcp.WithSSEMiddleware(mws...))
		}
		srv := mcp.NewSSEServer("verif", "1.0", opts...)
		srv.RegisterTool(tool, handler)
		ts := httptest.NewServer(srv)
		defer func() { closeClientConns(ts); closeTS(ts) }()
		st, err := peer.OpenSSE(ctx, http.MethodGet, ts.URL+"/sse", map[string]string{"Accept": "text/event-stream"}, nil)
		if err != nil || st.Status != 200 {
			res.Broken = fmt.Sprintf("GET /sse: %v", err)
			return
		}
		defer st.Close()
		var endpoint string
		st.WaitFor(3*time.Second, func(raw []byte, eof bool) bool {
			evs, _ := peer.ParseSSE(raw)
			for _, e := range evs {
				if e.Event == "endpoint" {
					endpoint = e.Data
					return true
				}
			}
			return false
		})
		if endpoint == "" {
			res.Broken = "no endpoint"
			return
		}
		sid := endpoint[strings.Index(endpoint, "sessionId=")+10:]
		msg := ts.URL + endpoint
		peer.PostJSON(ctx, msg, nil, peer.InitRequest("init"), false)
		st.WaitFor(3*time.Second, func(raw []byte, eof bool) bool { return strings.Contains(string(raw), `"serverInfo"`) })
		peer.PostJSON(ctx, msg, nil, peer.InitializedNotification(), false)
		var wg sync.WaitGroup
		for k := 0; k < sc.Parallel; k++ {
			nonce := fmt.Sprintf("n-%s-%d", sc.ID, k)
			wmu.Lock()
			want[nonce] = sid
			wmu.Unlock()
			res.Reqs[k].Nonce = nonce
			wg.Add(1)
			go func(k int, nonce string) {
				defer wg.Done()
				r := peer.PostJSON(ctx, msg, map[string]string{"X-Verif-Token": nonce}, mkBody(nonce, 100+k), false)
				res.Reqs[k].Status = r.Status
			}(k, nonce)
		}
		wg.Wait()
		for k := 0; k < sc.Parallel; k++ {
			idTag := fmt.Sprintf(`"id":%d`, 100+k)
			st.WaitFor(3*time.Second, func(raw []byte, eof bool) bool { return strings.Contains(string(raw), idTag) })
			for _, e := range st.Events() {
				if strings.Contains(e.Data, idTag+",") || strings.Contains(e.Data, idTag+"}") {
					res.Reqs[k].Response = json.RawMessage(e.Data)
				}
			}
		}
		// requests of other methods travel through the chain as well
		peer.PostJSON(ctx, msg, nil, []byte(`{"jsonrpc":"2.0","id":"plain-ping","method":"ping"}`), false)
		peer.PostJSON(ctx, msg, nil, []byte(`{"jsonrpc":"2.0","id":"plain-list","method":"resources/list"}`), false)
		peer.PostJSON(ctx, msg, nil, []byte(`{"jsonrpc":"2.0","id":"plain-unknown","method":"verif/custom"}`), false)
		peer.PostJSON(ctx, msg, nil, []byte(`{"jsonrpc":"2.0","id":"plain-alias","method":"verif/alias","params":{"name":"echo","arguments":{"trail":""}}}`), false)
		st.WaitFor(time.Second, func(raw []byte, eof bool) bool {
			return strings.Contains(string(raw), `"plain-ping"`) && strings.Contains(string(raw), `"plain-list"`) && strings.Contains(string(raw), `"plain-unknown"`) &&
				strings.Contains(string(raw), `"plain-alias"`)
		})
		for _, e := range st.Events() {
			if strings.Contains(e.Data, `"plain-alias"`) {
				res.Alias = e.Data
			}
		}
		time.Sleep(5 * time.Millisecond)
	} else {
		opts := []mcp.ServerOption{mcp.WithServerPath("/mcp"), mcp.WithServerLogger(silentLogger{}), mcp.WithHTTPContextFunc(ctxFunc),
			mcp.WithPostSSEEnabled(sc.Transport == "sse")}
		if sc.Form == "repeated" {
			for _, m := range mws {
				opts = append(opts, mcp.WithMiddleware(m))
			}
		} else if len(mws) > 0 {
			opts = append(opts, mcp.WithMiddleware(mws...))
		}
		srv := mcp.NewServer("verif", "1.0", opts...)
		srv.RegisterTool(tool, handler)
		ts := httptest.NewServer(srv.Handler())
		defer func() { closeClientConns(ts); closeTS(ts) }()
		url := ts.URL + "/mcp"
		sid0, err := peer.Handshake(ctx, url, nil)
		if err != nil {
			res.Broken = "handshake: " + err.Error()
			return
		}
		sid1, err := peer.Handshake(ctx, url, nil)
		if err != nil {
			// the first session could shake hands, the second cannot: is that the chain's doing?
			plain := mcp.NewServer("verif", "1.0", mcp.WithServerPath("/mcp"), mcp.WithServerLogger(silentLogger{}))
			pts := httptest.NewServer(plain.Handler())
			_, e1 := peer.Handshake(ctx, pts.URL+"/mcp", nil)
			_, e2 := peer.Handshake(ctx, pts.URL+"/mcp", nil)
			closeTS(pts)
			if e1 == nil && e2 == nil && len(mws) > 0 {
				res.HandshakeErr = err.Error()
				return
			}
			res.Broken = "handshake: " + err.Error()
			return
		}
		// a first request of the OTHER session, so that per-server caches are warm with a foreign session
		peer.PostJSON(ctx, url, map[string]string{"Mcp-Session-Id": sid1}, []byte(`{"jsonrpc":"2.0","id":"warm","method":"tools/list"}`), false)
		var wg sync.WaitGroup
		for k := 0; k < sc.Parallel; k++ {
			nonce := fmt.Sprintf("n-%s-%d", sc.ID, k)
			sid := sid0
			if k%2 == 1 {
				sid = sid1
			}
			wmu.Lock()
			want[nonce] = sid
			wmu.Unlock()
			res.Reqs[k].Nonce = nonce
			wg.Add(1)
			go func(k int, nonce, sid string) {
				defer wg.Done()
				r := peer.PostJSON(ctx, url, map[string]string{"Mcp-Session-Id": sid, "X-Verif-Token": nonce}, mkBody(nonce, 100+k), sc.Transport == "sse")
				res.Reqs[k].Status = r.Status
				if strings.Contains(r.Header.Get("Content-Type"), "event-stream") {
					evs, _ := peer.ParseSSE(r.Body)
					for _, e := range evs {
						if strings.Contains(e.Data, `"id"`) {
							res.Reqs[k].Response = json.RawMessage(e.Data)
						}
					}
				} else if json.Valid(r.Body) {
					res.Reqs[k].Response = json.RawMessage(r.Body)
				}
			}(k, nonce, sid)
		}
		wg.Wait()
		// a notification must not travel through the chain
		peer.PostJSON(ctx, url, map[string]string{"Mcp-Session-Id": sid0}, []byte(`{"jsonrpc":"2.0","method":"notifications/roots/list_changed"}`), false)
		// requests of other methods travel through the chain as well
		peer.PostJSON(ctx, url, map[string]string{"Mcp-Session-Id": sid0}, []byte(`{"jsonrpc":"2.0","id":"plain-ping","method":"ping"}`), false)
		peer.PostJSON(ctx, url, map[string]string{"Mcp-Session-Id": sid0}, []byte(`{"jsonrpc":"2.0","id":"plain-list","method":"resources/list"}`), false)
		peer.PostJSON(ctx, url, map[string]string{"Mcp-Session-Id": sid0}, []byte(`{"jsonrpc":"2.0","id":"plain-unknown","method":"verif/custom"}`), false)
		ar := peer.PostJSON(ctx, url, map[string]string{"Mcp-Session-Id": sid0}, []byte(`{"jsonrpc":"2.0","id":"plain-alias","method":"verif/alias","params":{"name":"echo","arguments":{"trail":""}}}`), false)
		res.Alias = string(ar.Body)
	}
	rec.mu.Lock()
	defer rec.mu.Unlock()
	for k := range res.Reqs {
		n := res.Reqs[k].Nonce
		res.Reqs[k].Events = rec.events[n]
		if res.Reqs[k].Events == nil {
			res.Reqs[k].Events = []string{}
		}
		res.Reqs[k].CtxOK = rec.ctxBad[n] == ""
		res.Reqs[k].CtxNote = rec.ctxBad[n]
		if res.Reqs[k].Response == nil {
			res.Reqs[k].Response = json.RawMessage("null")
		}
	}
	res.Other = rec.other
	for _, m := range rec.other {
		if strings.HasPrefix(m, "notifications/") {
			res.NotifMW++
		}
	}
	return
}

func init() {
	register("c15", func(args []string) int {
		var in struct {
			Scenarios []c15Scenario `json:"scenarios"`
		}
		readInput(&in)
		out := struct {
			Results []c15Result `json:"results"`
		}{}
		for _, s := range in.Scenarios {
			out.Results = append(out.Results, c15Run(s))
		}
		writeOutput(out)
		return 0
	})
}
