package main

// C16: handshake. Server side: initialize with every version class against every server kind, with
// prompts / resources registered or not at that time. Client side: walks of the client state graph
// (Initialize with a scripted outcome, operations, Close) on the three library clients against a
// recording scripted server; per step: error class, GetState(), requests seen by the server.

import (
	"bytes"
	"context"
	"encoding/json"
	"fmt"
	"io"
	"net"
	"net/http"
	"net/http/httptest"
	"os"
	"path/filepath"
	"strings"
	"sync"
	"sync/atomic"
	"syscall"
	"time"

	mcp "trpc.group/trpc-go/trpc-mcp-go"
	"verifharness/internal/peer"
)

var c16Versions = map[string]string{"v2025": "2025-03-26", "v2024": "2024-11-05", "older": "2023-06-01", "future": "2099-12-31",
	"empty": "", "garbage": "not-a-version/\u2028\n", "long": strings.Repeat("9", 5000), "padded": " 2024-11-05\n", "between": "2024-12-01"}

type c16SStep struct {
	Op    string `json:"op"` // regprompt regresource init
	V     string `json:"v,omitempty"`
	Multi bool   `json:"multi,omitempty"` // regresource through RegisterResources (several contents)
}

type c16SObs struct {
	Version string   `json:"version"`
	Caps    []string `json:"caps"`
	Name    string   `json:"name"`
	SVer    string   `json:"sver"`
	Err     string   `json:"err,omitempty"`
}

func c16InitBody(v string, id int) []byte {
	b, _ := json.Marshal(map[string]interface{}{"jsonrpc": "2.0", "id": id, "method": "initialize",
		"params": map[string]interface{}{"protocolVersion": c16Versions[v], "clientInfo": map[string]interface{}{"name": "p", "version": "0"}, "capabilities": map[string]interface{}{}}})
	return b
}

func c16ParseInit(data []byte) (o c16SObs) {
	var m struct {
		Result struct {
			ProtocolVersion string                 `json:"protocolVersion"`
			Capabilities    map[string]interface{} `json:"capabilities"`
			ServerInfo      struct {
				Name    string `json:"name"`
				Version string `json:"version"`
			} `json:"serverInfo"`
		} `json:"result"`
		Error interface{} `json:"error"`
	}
	if err := json.Unmarshal(data, &m); err != nil {
		o.Err = "unparsable answer: " + string(data)
		return
	}
	if m.Error != nil {
		o.Err = fmt.Sprintf("error answer: %v", m.Error)
		return
	}
	o.Version = m.Result.ProtocolVersion
	for k, v := range m.Result.Capabilities {
		if v != nil {
			o.Caps = append(o.Caps, k)
		}
	}
	if o.Caps == nil {
		o.Caps = []string{}
	}
	o.Name, o.SVer = m.Result.ServerInfo.Name, m.Result.ServerInfo.Version
	return
}

func c16Server(kind string, steps []c16SStep) (obs []c16SObs, broken string) {
	promptH := func(ctx context.Context, req *mcp.GetPromptRequest) (*mcp.GetPromptResult, error) {
		return &mcp.GetPromptResult{}, nil
	}
	resH := func(ctx context.Context, req *mcp.ReadResourceRequest) (mcp.ResourceContents, error) {
		return mcp.TextResourceContents{URI: "r://x", Text: "x"}, nil
	}
	ctx := context.Background()
	var regPrompt, regResource, regResources func()
	resHs := func(ctx context.Context, req *mcp.ReadResourceRequest) ([]mcp.ResourceContents, error) {
		return []mcp.ResourceContents{mcp.TextResourceContents{URI: "r://x", Text: "x"}}, nil
	}
	var doInit func(v string, n int) c16SObs
	switch kind {
	case "streamable", "stateless", "nosession":
		opts := []mcp.ServerOption{mcp.WithServerPath("/mcp"), mcp.WithServerLogger(silentLogger{})}
		if kind == "stateless" {
			opts = append(opts, mcp.WithStatelessMode(true))
		}
		if kind == "nosession" {
			opts = append(opts, mcp.WithoutSession())
		}
		srv := mcp.NewServer("verif-name", "9.8.7", opts...)
		ts := httptest.NewServer(srv.Handler())
		defer closeTS(ts)
		regPrompt = func() { srv.RegisterPrompt(&mcp.Prompt{Name: "p1"}, promptH) }
		regResource = func() { srv.RegisterResource(&mcp.Resource{URI: "r://x", Name: "x"}, resH) }
		regResources = func() { srv.RegisterResources(&mcp.Resource{URI: "r://x", Name: "x"}, resHs) }
		// a session that has completed its handshake is asked again (two of three times): the answer to an initialize request
		// does not depend on what the session negotiated before
		sid := ""
		doInit = func(v string, n int) c16SObs {
			var hdr map[string]string
			if kind == "streamable" && sid != "" && n%3 != 2 {
				hdr = map[string]string{"Mcp-Session-Id": sid}
			}
			r := peer.PostJSON(ctx, ts.URL+"/mcp", hdr, c16InitBody(v, n), n%2 == 1)
			if kind == "streamable" && hdr == nil && r.Status == 200 {
				if id := r.Header.Get("Mcp-Session-Id"); id != "" {
					sid = id
					peer.PostJSON(ctx, ts.URL+"/mcp", map[string]string{"Mcp-Session-Id": sid}, peer.InitializedNotification(), false)
				}
			}
			body := r.Body
			if strings.Contains(r.Header.Get("Content-Type"), "event-stream") {
				evs, _ := peer.ParseSSE(r.Body)
				if len(evs) > 0 {
					body = []byte(evs[len(evs)-1].Data)
				}
			}
			if r.Err != nil {
				return c16SObs{Err: "no HTTP answer: " + r.Err.Error()}
			}
			if r.Status != 200 {
				return c16SObs{Err: fmt.Sprintf("status %d", r.Status)}
			}
			return c16ParseInit(body)
		}
	case "legacy":
		srv := mcp.NewSSEServer("verif-name", "9.8.7", mcp.WithSSEServerLogger(silentLogger{}), mcp.WithKeepAlive(false))
		ts := httptest.NewServer(srv)
		defer func() { closeClientConns(ts); closeTS(ts) }()
		regPrompt = func() { srv.RegisterPrompt(&mcp.Prompt{Name: "p1"}, promptH) }
		regResource = func() { srv.RegisterResource(&mcp.Resource{URI: "r://x", Name: "x"}, resH) }
		regResources = func() { srv.RegisterResources(&mcp.Resource{URI: "r://x", Name: "x"}, resHs) }
		doInit = func(v string, n int) c16SObs {
			st, err := peer.OpenSSE(ctx, http.MethodGet, ts.URL+"/sse", map[string]string{"Accept": "text/event-stream"}, nil)
			if err != nil || st.Status != 200 {
				return c16SObs{Err: "GET /sse failed"}
			}
			defer st.Close()
			var endpoint string
			st.WaitFor(3*time.Second, func(raw []byte, eof bool) bool {
				evs, _ := peer.ParseSSE(raw)
				for _, e := range evs {
					if e.Event == "endpoint" {
						endpoint = e.Data
						return true
					}
				}
				return false
			})
			peer.PostJSON(ctx, ts.URL+endpoint, nil, c16InitBody(v, n), false)
			var data string
			st.WaitFor(3*time.Second, func(raw []byte, eof bool) bool {
				evs, _ := peer.ParseSSE(raw)
				for _, e := range evs {
					if e.Event == "message" {
						data = e.Data
						return true
					}
				}
				return false
			})
			if data == "" {
				return c16SObs{Err: "no answer on the stream"}
			}
			return c16ParseInit([]byte(data))
		}
	case "stdio":
		srv := mcp.NewStdioServer("verif-name", "9.8.7", mcp.WithStdioServerLogger(silentLogger{}))
		regPrompt = func() { srv.RegisterPrompt(&mcp.Prompt{Name: "p1"}, promptH) }
		regResource = func() { srv.RegisterResource(&mcp.Resource{URI: "r://x", Name: "x"}, resH) }
		regResources = func() { srv.RegisterResources(&mcp.Resource{URI: "r://x", Name: "x"}, resHs) }
		pr, pw := io.Pipe()
		rec := &recorder{}
		sctx, cancel := context.WithCancel(ctx)
		defer func() { cancel(); pw.Close() }()
		go mcp.VerifServeStdio(sctx, srv, pr, rec)
		doInit = func(v string, n int) c16SObs {
			tag := fmt.Sprintf(`"id":%d`, n)
			fmt.Fprintf(pw, "%s\n", c16InitBody(v, n))
			dl := time.Now().Add(3 * time.Second)
			for time.Now().Before(dl) {
				_, all := rec.snapshot()
				for _, line := range strings.Split(all, "\n") {
					if strings.Contains(line, tag+",") || strings.Contains(line, tag+"}") {
						return c16ParseInit([]byte(line))
					}
				}
				time.Sleep(time.Millisecond)
			}
			return c16SObs{Err: "no answer line"}
		}
	default:
		return nil, "unknown kind " + kind
	}
	for n, st := range steps {
		switch st.Op {
		case "regprompt":
			regPrompt()
			obs = append(obs, c16SObs{})
		case "regresource":
			if st.Multi {
				regResources()
			} else {
				regResource()
			}
			obs = append(obs, c16SObs{})
		case "init":
			obs = append(obs, doInit(st.V, 1000+n))
		}
	}
	return
}

// ---------------------------------------------------------------- client side

type c16CStep struct {
	Op      string `json:"op"` // init op close
	Outcome string `json:"outcome,omitempty"`
	Name    string `json:"name,omitempty"`
	// KillFirst (stdio, op close): the server process is killed and gone before Close is called
	KillFirst bool `json:"kill_first,omitempty"`
}

type c16CObs struct {
	Err   string `json:"err"` // none notinit already fail
	Text  string `json:"text,omitempty"`
	State string `json:"state"`
	Wire  int    `json:"wire"`
}

type c16Rec struct {
	reqs    int32
	mu      sync.Mutex
	outcome []string // outcome of the k-th initialize
	inits   int
	legacy  bool
	sseW    http.ResponseWriter
	sseF    http.Flusher
	notify  bool // fail the next initialized notification
}

func (s *c16Rec) serve(w http.ResponseWriter, r *http.Request) {
	atomic.AddInt32(&s.reqs, 1)
	if s.legacy && r.Method == http.MethodGet {
		f := w.(http.Flusher)
		w.Header().Set("Content-Type", "text/event-stream")
		w.WriteHeader(200)
		s.mu.Lock()
		s.sseW, s.sseF = w, f
		fmt.Fprintf(w, "event: endpoint\ndata: /message?sessionId=x\n\n")
		f.Flush()
		s.mu.Unlock()
		<-r.Context().Done()
		return
	}
	if r.Method == http.MethodGet {
		http.Error(w, "no GET", 405)
		return
	}
	if r.Method == http.MethodDelete {
		w.WriteHeader(200)
		return
	}
	body, _ := io.ReadAll(r.Body)
	var m struct {
		ID     json.RawMessage `json:"id"`
		Method string          `json:"method"`
	}
	json.Unmarshal(body, &m)
	drop := func() {
		if hj, ok := w.(http.Hijacker); ok {
			c, _, _ := hj.Hijack()
			if tc, ok := c.(*net.TCPConn); ok {
				tc.SetLinger(0)
			}
			c.Close()
		}
	}
	reply := func(payload string) {
		if s.legacy {
			w.WriteHeader(202)
			s.mu.Lock()
			fmt.Fprintf(s.sseW, "event: message\ndata: %s\n\n", payload)
			s.sseF.Flush()
			s.mu.Unlock()
			return
		}
		w.Header().Set("Content-Type", "application/json")
		w.Header().Set("Mcp-Session-Id", "0123456789abcdef0123456789abcdef")
		w.WriteHeader(200)
		io.WriteString(w, payload)
	}
	if m.ID == nil {
		s.mu.Lock()
		fail := s.notify && m.Method == "notifications/initialized"
		if fail {
			s.notify = false
		}
		s.mu.Unlock()
		if fail {
			drop()
			return
		}
		w.WriteHeader(202)
		return
	}
	if m.Method == "initialize" {
		s.mu.Lock()
		out := "ok"
		if s.inits < len(s.outcome) {
			out = s.outcome[s.inits]
		}
		s.inits++
		if out == "notify" {
			s.notify = true
		}
		s.mu.Unlock()
		switch out {
		case "ok", "notify":
			reply(fmt.Sprintf(`{"jsonrpc":"2.0","id":%s,"result":%s}`, m.ID, initOK))
		case "rpc":
			reply(fmt.Sprintf(`{"jsonrpc":"2.0","id":%s,"error":{"code":-32603,"message":"scripted handshake failure"}}`, m.ID))
		case "badresult":
			reply(fmt.Sprintf(`{"jsonrpc":"2.0","id":%s,"result":{"protocolVersion":5,"capabilities":"x"}}`, m.ID))
		case "transport":
			drop()
		}
		return
	}
	if res, ok := genericAnswers[m.Method]; ok {
		reply(fmt.Sprintf(`{"jsonrpc":"2.0","id":%s,"result":%s}`, m.ID, res))
		return
	}
	reply(fmt.Sprintf(`{"jsonrpc":"2.0","id":%s,"error":{"code":-32601,"message":"method not found"}}`, m.ID))
}

type c16Client interface {
	Initialize(ctx context.Context, req *mcp.InitializeRequest) (*mcp.InitializeResult, error)
	Close() error
	GetState() mcp.State
	ListTools(ctx context.Context, req *mcp.ListToolsRequest) (*mcp.ListToolsResult, error)
	CallTool(ctx context.Context, req *mcp.CallToolRequest) (*mcp.CallToolResult, error)
	ListPrompts(ctx context.Context, req *mcp.ListPromptsRequest) (*mcp.ListPromptsResult, error)
	GetPrompt(ctx context.Context, req *mcp.GetPromptRequest) (*mcp.GetPromptResult, error)
	ListResources(ctx context.Context, req *mcp.ListResourcesRequest) (*mcp.ListResourcesResult, error)
	ReadResource(ctx context.Context, req *mcp.ReadResourceRequest) (*mcp.ReadResourceResult, error)
	SendRootsListChangedNotification(ctx context.Context) error
}

func errClass(err error) (string, string) {
	if err == nil {
		return "none", ""
	}
	t := err.Error()
	switch {
	case strings.Contains(t, "not initialized"):
		return "notinit", t
	case strings.Contains(t, "already initialized"):
		return "already", t
	}
	return "fail", t
}

func c16ClientWalk(kind string, steps []c16CStep) (obs []c16CObs, broken string) {
	var outcomes []string
	for _, s := range steps {
		if s.Op == "init" {
			outcomes = append(outcomes, s.Outcome)
		}
	}
	var cl c16Client
	var stdioCl *mcp.StdioClient
	var wire func() int
	var cleanup func()
	switch kind {
	case "streamable", "sse":
		rec := &c16Rec{outcome: outcomes, legacy: kind == "sse"}
		ts := httptest.NewServer(http.HandlerFunc(rec.serve))
		cleanup = func() { closeClientConns(ts); closeTS(ts) }
		wire = func() int { return int(atomic.LoadInt32(&rec.reqs)) }
		var err error
		if kind == "sse" {
			cl, err = mcp.NewSSEClient(ts.URL+"/sse", mcp.Implementation{Name: "v", Version: "0"}, mcp.WithClientLogger(silentLogger{}))
		} else {
			cl, err = mcp.NewClient(ts.URL+"/mcp", mcp.Implementation{Name: "v", Version: "0"}, mcp.WithClientLogger(silentLogger{}), mcp.WithClientGetSSEEnabled(false))
		}
		if err != nil {
			cleanup()
			return nil, err.Error()
		}
	case "stdio":
		dir, _ := os.MkdirTemp("", "c16")
		cfgPath := filepath.Join(dir, "cfg.json")
		countFile := filepath.Join(dir, "count")
		b, _ := json.Marshal(stdioPeerCfg{Init: outcomes, CountFile: countFile})
		os.WriteFile(cfgPath, b, 0644)
		exe, _ := os.Executable()
		c, err := mcp.NewStdioClient(mcp.StdioTransportConfig{ServerParams: mcp.StdioServerParameters{Command: exe, Args: []string{"stdiopeer", cfgPath}},
			Timeout: 400 * time.Millisecond}, mcp.Implementation{Name: "v", Version: "0"}, mcp.WithStdioLogger(silentLogger{}))
		if err != nil {
			os.RemoveAll(dir)
			return nil, err.Error()
		}
		cl = c
		stdioCl = c
		cleanup = func() { c.Close(); os.RemoveAll(dir) }
		wire = func() int {
			time.Sleep(15 * time.Millisecond) // the child writes the count after reading a line
			b, err := os.ReadFile(countFile)
			if err != nil {
				return 0
			}
			n := 0
			fmt.Sscan(string(bytes.TrimSpace(b)), &n)
			return n
		}
	default:
		return nil, "unknown client " + kind
	}
	defer cleanup()
	for _, st := range steps {
		before := wire()
		ctx, cancel := context.WithTimeout(context.Background(), 3*time.Second)
		var err error
		switch st.Op {
		case "init":
			_, err = cl.Initialize(ctx, &mcp.InitializeRequest{})
		case "close":
			if st.KillFirst && stdioCl != nil {
				if pid := stdioCl.GetProcessID(); pid > 0 {
					syscall.Kill(pid, syscall.SIGKILL)
					for dl := time.Now().Add(time.Second); time.Now().Before(dl) && syscall.Kill(pid, 0) == nil && !isZombie(pid); time.Sleep(2 * time.Millisecond) {
					}
					time.Sleep(20 * time.Millisecond) // the client's watcher has seen the exit
				}
			}
			err = cl.Close()
			if err != nil && kind == "stdio" {
				err = nil // closing pipes of an exited child may report errors; not part of the statement
			}
		case "op":
			switch st.Name {
			case "ListTools":
				_, err = cl.ListTools(ctx, &mcp.ListToolsRequest{})
			case "CallTool":
				r := &mcp.CallToolRequest{}
				r.Params.Name = "x"
				_, err = cl.CallTool(ctx, r)
			case "ListPrompts":
				_, err = cl.ListPrompts(ctx, &mcp.ListPromptsRequest{})
			case "GetPrompt":
				r := &mcp.GetPromptRequest{}
				r.Params.Name = "x"
				_, err = cl.GetPrompt(ctx, r)
			case "ListResources":
				_, err = cl.ListResources(ctx, &mcp.ListResourcesRequest{})
			case "ReadResource":
				r := &mcp.ReadResourceRequest{}
				r.Params.URI = "r://x"
				_, err = cl.ReadResource(ctx, r)
			case "RootsChanged":
				err = cl.SendRootsListChangedNotification(ctx)
			}
		}
		cancel()
		cls, text := errClass(err)
		obs = append(obs, c16CObs{Err: cls, Text: text, State: string(cl.GetState()), Wire: wire() - before})
	}
	return
}

func init() {
	register("c16", func(args []string) int {
		var in struct {
			Server []struct {
				ID    string     `json:"id"`
				Kind  string     `json:"kind"`
				Steps []c16SStep `json:"steps"`
			} `json:"server"`
			Client []struct {
				ID    string     `json:"id"`
				Kind  string     `json:"kind"`
				Steps []c16CStep `json:"steps"`
			} `json:"client"`
		}
		readInput(&in)
		type sres struct {
			ID     string    `json:"id"`
			Obs    []c16SObs `json:"obs"`
			Broken string    `json:"broken,omitempty"`
		}
		type cres struct {
			ID     string    `json:"id"`
			Obs    []c16CObs `json:"obs"`
			Broken string    `json:"broken,omitempty"`
		}
		out := struct {
			Server []sres `json:"server"`
			Client []cres `json:"client"`
		}{}
		for _, s := range in.Server {
			o, b := c16Server(s.Kind, s.Steps)
			out.Server = append(out.Server, sres{ID: s.ID, Obs: o, Broken: b})
		}
		for _, c := range in.Client {
			o, b := c16ClientWalk(c.Kind, c.Steps)
			out.Client = append(out.Client, cres{ID: c.ID, Obs: o, Broken: b})
		}
		writeOutput(out)
		return 0
	})
}
