package main

// C08: faults on the connection of pending client calls, and what is left after Close.
//
// The server side is a raw TCP listener speaking just enough HTTP/1.1 (or a scripted stdio child): the
// answer to tools/call is cut at a byte offset and the fault (close / reset / stall, exit / kill for
// stdio) is injected there.  Reported per call: outcome, own/partial, time relative to the fault and to
// the end of the caller's context.  After Close: library goroutines, net/http connection goroutines,
// open descriptors, the child process and the pending table, compared with the state before the client
// was created.

import (
	"bufio"
	"context"
	"encoding/json"
	"fmt"
	"io"
	"net"
	"net/http"
	"os"
	"path/filepath"
	"runtime"
	"strings"
	"sync"
	"syscall"
	"time"

	mcp "trpc.group/trpc-go/trpc-mcp-go"
	"verifharness/internal/gate"
)

type c08Scenario struct {
	ID     string `json:"id"`
	Client string `json:"client"` // json sse sse-nh legacy stdio
	Fault  string `json:"fault"`  // close reset stall exit kill
	At     string `json:"at"`     // b0 headers-mid headers-done mid between done req-mid post-b0 post-mid byte:N
	NCalls int    `json:"ncalls"`
	Ctx    string `json:"ctx"`   // deadline cancel none
	Retry  bool   `json:"retry"` // the client is configured with retries (3 s initial back-off)
}

type c08Call struct {
	OK       bool    `json:"ok"`
	Own      bool    `json:"own"`
	Err      string  `json:"err,omitempty"`
	EndMs    float64 `json:"end_ms"`     // when the call returned (since scenario start)
	CtxEndMs float64 `json:"ctx_end_ms"` // when its context ended (-1 = never)
	Hung     bool    `json:"hung"`
}

type c08Result struct {
	ID          string         `json:"id"`
	Calls       []c08Call      `json:"calls"`
	FaultMs     float64        `json:"fault_ms"`       // when the fault was injected (-1 = not reached)
	Seen        map[string]int `json:"seen,omitempty"` // how often the peer received the tools/call request of each call (by nonce)
	Delivered   bool           `json:"delivered"`
	DeliveredTo string         `json:"delivered_to"` // nonce of the call whose answer was cut ("*" = every call has its own)
	Offset      int            `json:"offset"`
	Total       int            `json:"total"`
	CloseMs     float64        `json:"close_ms"`
	CloseErr    string         `json:"close_err,omitempty"`
	LibG        int            `json:"lib_goroutines"`
	HTTPG       int            `json:"http_goroutines"`
	FDs         int            `json:"fds"`
	ChildLeft   bool           `json:"child_left"`
	Pending     int            `json:"pending"`
	After       string         `json:"after,omitempty"` // race-cancel: how a later call on the same client ended
	Sample      string         `json:"sample,omitempty"`
	Broken      string         `json:"broken,omitempty"`
}

func countFDs() int {
	ents, err := os.ReadDir("/proc/self/fd")
	if err != nil {
		return -1
	}
	return len(ents)
}

// httpConnGoroutines counts net/http client connection goroutines (persistConn read/write loops).
func httpConnGoroutines() int {
	buf := make([]byte, 4<<20)
	n := runtime.Stack(buf, true)
	c := 0
	for _, g := range strings.Split(string(buf[:n]), "\n\n") {
		if strings.Contains(g, "net/http.(*persistConn).readLoop") || strings.Contains(g, "net/http.(*persistConn).writeLoop") {
			c++
		}
	}
	return c
}

// ---- the fault server -------------------------------------------------------------------------

type c08Srv struct {
	sc      c08Scenario
	ln      net.Listener
	t0      time.Time
	mu      sync.Mutex
	conns   []net.Conn
	faultAt time.Time
	deliv   bool
	delivTo string
	gets    int // GET requests seen (connect-stall)
	offset  int
	total   int
	calls   int            // tools/call requests seen
	seen    map[string]int // tools/call requests seen, per nonce
	callsCh chan struct{}
	// legacy
	stream   net.Conn
	streamUp chan struct{}
}

func (s *c08Srv) track(c net.Conn) {
	s.mu.Lock()
	s.conns = append(s.conns, c)
	s.mu.Unlock()
}

func (s *c08Srv) closeAll() {
	s.ln.Close()
	s.mu.Lock()
	for _, c := range s.conns {
		c.Close()
	}
	s.mu.Unlock()
}

func (s *c08Srv) inject(c net.Conn) {
	s.mu.Lock()
	if s.faultAt.IsZero() && !clientSide(s.sc.Fault) {
		s.faultAt = time.Now()
	}
	s.mu.Unlock()
	switch s.sc.Fault {
	case "close":
		c.Close()
	case "reset":
		if tc, ok := c.(*net.TCPConn); ok {
			tc.SetLinger(0)
		}
		c.Close()
	case "stall":
		// keep the connection open and say nothing more
	}
}

// clientSide: the "fault" is an action of the client's owner (Close, cancel) while the server just goes silent
func clientSide(f string) bool { return f == "clientclose" || f == "race-cancel" || f == "race-close" }

func c08ChildFault(f string) string {
	if f == "race-cancel" || f == "race-close" {
		return "none"
	}
	if f == "clientclose" {
		return "stall"
	}
	return f
}

func httpHead(status int, ct string, extra string, length int) string {
	h := fmt.Sprintf("HTTP/1.1 %d %s\r\nContent-Type: %s\r\n%s", status, http.StatusText(status), ct, extra)
	if length >= 0 {
		h += fmt.Sprintf("Content-Length: %d\r\n", length)
	} else {
		h += "Connection: close\r\n"
	}
	return h + "\r\n"
}

func c08Text(id json.RawMessage, nonce string) string {
	return fmt.Sprintf(`{"jsonrpc":"2.0","id":%s,"result":{"content":[{"type":"text","text":"A:%s:%s"}]}}`, id, nonce, strings.Repeat("x", 200))
}

const c08Notif = `{"jsonrpc":"2.0","method":"notifications/message","params":{"level":"info","data":"working"}}`

// cut resolves the boundary name to a byte offset into head+parts.
func (s *c08Srv) cut(head string, parts []string) (all string, off int, delivered bool) {
	all = head + strings.Join(parts, "")
	last := len(all)
	switch at := s.sc.At; {
	case at == "b0" || at == "req-mid":
		off = 0
	case at == "headers-mid":
		off = len(head) / 2
	case at == "headers-done":
		off = len(head)
	case at == "mid":
		off = last - len(parts[len(parts)-1])/2
	case at == "between":
		off = last - len(parts[len(parts)-1])
	case at == "done" || at == "done-trail":
		off = last
	case strings.HasPrefix(at, "byte:"):
		fmt.Sscanf(at, "byte:%d", &off)
		if off > last {
			off = last
		}
	default:
		off = 0
	}
	return all, off, off >= last
}

func (s *c08Srv) serveConn(c net.Conn) {
	s.track(c)
	br := bufio.NewReaderSize(c, 64<<10)
	for {
		req, err := http.ReadRequest(br)
		if err != nil {
			return
		}
		if req.Method == http.MethodGet {
			if s.sc.Client != "legacy" {
				io.WriteString(c, httpHead(405, "text/plain", "", 0))
				continue
			}
			if s.sc.At == "endpoint-stall2" {
				// the response headers come, the endpoint event never does
				io.WriteString(c, httpHead(200, "text/event-stream", "Cache-Control: no-cache\r\n", -1))
			}
			if s.sc.At == "connect-stall" || s.sc.At == "connect-stall2" || s.sc.At == "endpoint-stall2" {
				// the stream's response headers never come: the client is still shaking hands
				s.mu.Lock()
				s.calls = s.sc.NCalls
				s.gets++
				first := s.gets == 1
				s.mu.Unlock()
				if first {
					close(s.callsCh)
				}
				return
			}
			io.WriteString(c, httpHead(200, "text/event-stream", "Cache-Control: no-cache\r\n", -1))
			io.WriteString(c, "event: endpoint\ndata: /message?sessionId=s1\n\n")
			s.mu.Lock()
			s.stream = c
			s.mu.Unlock()
			close(s.streamUp)
			return // the stream is written by the POST side from now on
		}
		if req.Method == http.MethodDelete {
			io.Copy(io.Discard, req.Body)
			if s.sc.Fault == "stall" && s.sc.At == "done" {
				// the peer has gone silent for good: it reads the DELETE and says nothing
				return
			}
			io.WriteString(c, httpHead(200, "text/plain", "", 0))
			continue
		}
		// POST: read the head of the body to learn the method; a padded request may be left half-read
		var body []byte
		if s.sc.At == "req-mid" && req.ContentLength > 1<<20 {
			body = make([]byte, 4096)
			n, _ := io.ReadFull(req.Body, body)
			body = body[:n]
		} else {
			body, _ = io.ReadAll(req.Body)
		}
		var m struct {
			ID     json.RawMessage `json:"id"`
			Method string          `json:"method"`
			Params struct {
				Arguments struct {
					Nonce string `json:"nonce"`
				} `json:"arguments"`
			} `json:"params"`
		}
		json.Unmarshal(body, &m)
		if m.Method == "" && req.ContentLength > 1<<20 {
			m.Method, m.ID = "tools/call", json.RawMessage("0") // half-read padded request
		}
		legacy := s.sc.Client == "legacy"
		switch {
		case m.Method == "initialize":
			ans := fmt.Sprintf(`{"jsonrpc":"2.0","id":%s,"result":%s}`, m.ID, initOK)
			if legacy {
				io.WriteString(c, httpHead(202, "text/plain", "", 0))
				<-s.streamUp
				io.WriteString(s.stream, "event: message\ndata: "+ans+"\n\n")
			} else {
				io.WriteString(c, httpHead(200, "application/json", "Mcp-Session-Id: s1\r\n", len(ans))+ans)
			}
		case m.ID == nil || m.Method == "":
			io.WriteString(c, httpHead(202, "text/plain", "", 0))
		case m.Method == "tools/call":
			s.mu.Lock()
			s.calls++
			n := s.calls
			if s.seen == nil {
				s.seen = map[string]int{}
			}
			s.seen[m.Params.Arguments.Nonce]++
			s.mu.Unlock()
			if n == s.sc.NCalls {
				close(s.callsCh)
			}
			if s.sc.Fault == "status" {
				// the call is answered with an HTTP error status and a body; the connection stays open
				select {
				case <-s.callsCh:
				case <-time.After(3 * time.Second):
				}
				s.mu.Lock()
				if s.faultAt.IsZero() {
					s.faultAt = time.Now()
				}
				s.mu.Unlock()
				body := `{"error":"upstream unavailable","detail":"` + strings.Repeat("e", 300) + `"}`
				code := 503
				if s.sc.At == "status-404" {
					code = 404
				}
				io.WriteString(c, httpHead(code, "application/json", "", len(body))+body)
				continue
			}
			if s.sc.At == "req-mid" {
				s.mu.Lock()
				s.total, s.offset = 0, 0
				s.mu.Unlock()
				s.inject(c)
				return
			}
			ans := c08Text(m.ID, m.Params.Arguments.Nonce)
			if legacy {
				if n == 1 {
					s.mu.Lock()
					s.delivTo = m.Params.Arguments.Nonce
					s.mu.Unlock()
				}
				s.serveLegacyCall(c, n, ans)
				if s.sc.At == "post-b0" || s.sc.At == "post-mid" {
					return
				}
				continue
			}
			var head string
			var parts []string
			if s.sc.Client == "json" {
				head = httpHead(200, "application/json", "Mcp-Session-Id: s1\r\n", len(ans))
				parts = []string{ans}
			} else {
				head = httpHead(200, "text/event-stream", "Mcp-Session-Id: s1\r\n", -1)
				parts = []string{"id: 1\ndata: " + c08Notif + "\n\n", "id: 2\ndata: " + ans + "\n\n"}
				if s.sc.At == "done-trail" {
					// the stream goes on behind the answer: keep-alive comments and further notifications, already readable when the call returns
					trail := ""
					for k := 0; k < 24; k++ {
						trail += ": keep-alive\n\n" + fmt.Sprintf("id: %d\ndata: %s\n\n", 3+k, c08Notif)
					}
					parts[1] += trail
				}
			}
			all, off, deliv := s.cut(head, parts)
			if s.sc.Client == "json" && s.sc.At == "between" {
				off, deliv = len(head), false
			}
			s.mu.Lock()
			s.total, s.offset = len(all), off
			s.deliv, s.delivTo = deliv, "*"
			s.mu.Unlock()
			// all pending calls are cut at the same moment
			select {
			case <-s.callsCh:
			case <-time.After(3 * time.Second):
			}
			io.WriteString(c, all[:off])
			time.Sleep(30 * time.Millisecond) // let the bytes arrive before the fault
			s.inject(c)
			return
		default:
			ans := fmt.Sprintf(`{"jsonrpc":"2.0","id":%s,"result":{}}`, m.ID)
			if legacy {
				io.WriteString(c, httpHead(202, "text/plain", "", 0))
				io.WriteString(s.stream, "event: message\ndata: "+ans+"\n\n")
			} else {
				io.WriteString(c, httpHead(200, "application/json", "", len(ans))+ans)
			}
		}
	}
}

// serveLegacyCall: the POST is accepted (or faulted), the answer goes to the stream and is cut there.
func (s *c08Srv) serveLegacyCall(c net.Conn, n int, ans string) {
	accept := httpHead(202, "text/plain", "", 0)
	if s.sc.At == "post-b0" || s.sc.At == "post-mid" {
		off := 0
		if s.sc.At == "post-mid" {
			off = len(accept) / 2
		}
		s.mu.Lock()
		s.total, s.offset = len(accept), off
		s.mu.Unlock()
		select {
		case <-s.callsCh:
		case <-time.After(3 * time.Second):
		}
		io.WriteString(c, accept[:off])
		time.Sleep(30 * time.Millisecond)
		s.inject(c)
		return
	}
	io.WriteString(c, accept)
	if n > s.sc.NCalls {
		io.WriteString(s.stream, "event: message\ndata: "+ans+"\n\n") // a later call, after the scenario's fault
		return
	}
	if n != 1 {
		return
	}
	go func() {
		select {
		case <-s.callsCh:
		case <-time.After(3 * time.Second):
		}
		time.Sleep(30 * time.Millisecond) // every POST has been accepted
		parts := []string{"event: message\ndata: " + c08Notif + "\n\n", "event: message\ndata: " + ans + "\n\n"}
		all, off, deliv := s.cut("", parts)
		s.mu.Lock()
		s.total, s.offset, s.deliv = len(all), off, deliv
		s.mu.Unlock()
		io.WriteString(s.stream, all[:off])
		time.Sleep(30 * time.Millisecond)
		s.inject(s.stream)
	}()
}

// ---- one scenario -----------------------------------------------------------------------------

func c08Run(sc c08Scenario) (res c08Result) {
	res.ID = sc.ID
	res.FaultMs = -1
	if sc.NCalls < 1 {
		sc.NCalls = 1
	}
	info := mcp.Implementation{Name: "v", Version: "0"}
	http.DefaultTransport.(*http.Transport).CloseIdleConnections()
	time.Sleep(20 * time.Millisecond)
	g0, _ := libGoroutines()
	h0 := httpConnGoroutines()
	fd0 := countFDs()
	var srv *c08Srv
	var cl c16Client
	var dir, countFile string
	var stdioCl *mcp.StdioClient
	t0 := time.Now()
	ms := func(t time.Time) float64 { return float64(t.Sub(t0)) / float64(time.Millisecond) }
	switch sc.Client {
	case "json", "sse", "sse-nh", "legacy":
		ln, err := net.Listen("tcp", "127.0.0.1:0")
		if err != nil {
			res.Broken = err.Error()
			return
		}
		srv = &c08Srv{sc: sc, ln: ln, t0: t0, callsCh: make(chan struct{}), streamUp: make(chan struct{})}
		go func() {
			for {
				c, err := ln.Accept()
				if err != nil {
					return
				}
				go srv.serveConn(c)
			}
		}()
	}
	switch sc.Client {
	case "json", "sse", "sse-nh":
		url := "http://" + srv.ln.Addr().String() + "/mcp"
		copts := []mcp.ClientOption{mcp.WithClientLogger(silentLogger{}), mcp.WithClientGetSSEEnabled(false)}
		if sc.Retry {
			copts = append(copts, mcp.WithRetry(mcp.RetryConfig{MaxRetries: 2, InitialBackoff: 3 * time.Second, BackoffFactor: 2, MaxBackoff: 10 * time.Second}))
		}
		c, err := mcp.NewClient(url, info, copts...)
		if err != nil {
			srv.closeAll()
			res.Broken = err.Error()
			return
		}
		if sc.Client == "sse-nh" {
			c.RegisterNotificationHandler("notifications/message", func(n *mcp.JSONRPCNotification) error { return nil })
		}
		cl = c
	case "legacy":
		copts := []mcp.ClientOption{mcp.WithClientLogger(silentLogger{})}
		if sc.Retry {
			copts = append(copts, mcp.WithRetry(mcp.RetryConfig{MaxRetries: 2, InitialBackoff: 3 * time.Second, BackoffFactor: 2, MaxBackoff: 10 * time.Second}))
		}
		c, err := mcp.NewSSEClient("http://"+srv.ln.Addr().String()+"/sse", info, copts...)
		if err != nil {
			srv.closeAll()
			res.Broken = err.Error()
			return
		}
		cl = c
	case "stdio":
		dir, _ = os.MkdirTemp("", "c08")
		cfgPath := filepath.Join(dir, "cfg.json")
		countFile = filepath.Join(dir, "fault")
		b, _ := json.Marshal(stdioPeerCfg{FaultAfterCalls: sc.NCalls, Fault: c08ChildFault(sc.Fault), FaultAt: sc.At, FaultFile: countFile})
		os.WriteFile(cfgPath, b, 0644)
		exe, _ := os.Executable()
		c, err := mcp.NewStdioClient(mcp.StdioTransportConfig{ServerParams: mcp.StdioServerParameters{Command: exe, Args: []string{"stdiopeer", cfgPath}},
			Timeout: 20 * time.Second}, info, mcp.WithStdioLogger(silentLogger{}))
		if err != nil {
			os.RemoveAll(dir)
			res.Broken = err.Error()
			return
		}
		cl, stdioCl = c, c
	default:
		res.Broken = "unknown client " + sc.Client
		return
	}
	if sc.At == "connect-stall2" || sc.At == "endpoint-stall2" {
		// a first handshake attempt gives up at its deadline; the second one is the one Close() interrupts
		fstart := time.Now()
		fctx, fcancel := context.WithTimeout(context.Background(), 300*time.Millisecond)
		fdone := make(chan struct{})
		go func() { cl.Initialize(fctx, &mcp.InitializeRequest{}); close(fdone) }()
		select {
		case <-fdone:
			fcancel()
		case <-time.After(4 * time.Second):
			// the handshake call ignores its context while the stream's response headers are outstanding
			fcancel()
			res.Calls = []c08Call{{Hung: true, CtxEndMs: ms(fstart.Add(300 * time.Millisecond)), EndMs: ms(time.Now())}}
			res.FaultMs = -1
			go cl.Close()
			srv.closeAll()
			return
		}
	}
	if sc.At == "connect-stall" || sc.At == "connect-stall2" || sc.At == "endpoint-stall2" {
		// Close() while the handshake is still waiting for the stream's response headers: the handshake ends, and what the
		// client holds towards the (still living, silent) server is released
		res.Calls = make([]c08Call, 1)
		call := &res.Calls[0]
		start := time.Now()
		ictx, icancel := context.WithTimeout(context.Background(), 1500*time.Millisecond)
		call.CtxEndMs = ms(start.Add(1500 * time.Millisecond))
		idone := make(chan error, 1)
		go func() { _, e := cl.Initialize(ictx, &mcp.InitializeRequest{}); idone <- e }()
		select {
		case <-srv.callsCh:
		case <-time.After(2 * time.Second):
		}
		time.Sleep(100 * time.Millisecond)
		res.FaultMs = ms(time.Now())
		tc := time.Now()
		cdone := make(chan struct{})
		go func() { cl.Close(); close(cdone) }()
		select {
		case <-cdone:
		case <-time.After(8 * time.Second):
			res.CloseErr = "Close did not return within 8 s"
		}
		res.CloseMs = float64(time.Since(tc)) / float64(time.Millisecond)
		select {
		case e := <-idone:
			if e != nil {
				call.Err = e.Error()
			} else {
				call.OK = true
			}
		case <-time.After(6 * time.Second):
			call.Hung = true
		}
		icancel()
		call.EndMs = ms(time.Now())
		// the server is still there and silent: measure BEFORE it goes away
		dl := time.Now().Add(1500 * time.Millisecond)
		for {
			http.DefaultTransport.(*http.Transport).CloseIdleConnections()
			g1, sample := libGoroutines()
			res.LibG, res.HTTPG, res.FDs, res.Sample = g1-g0, httpConnGoroutines()-h0, countFDs()-fd0-len(srv.conns)-1, sample
			if (res.LibG <= 0 && res.HTTPG <= 0) || time.Now().After(dl) {
				break
			}
			time.Sleep(25 * time.Millisecond)
		}
		res.FDs = 0 // descriptors: the served side of the stalled connection is ours and still open; goroutines decide here
		if res.LibG <= 0 {
			res.Sample = ""
		}
		srv.closeAll()
		return
	}
	ictx, icancel := context.WithTimeout(context.Background(), 5*time.Second)
	_, err := cl.Initialize(ictx, &mcp.InitializeRequest{})
	icancel()
	if err != nil {
		res.Broken = "initialize: " + err.Error()
		cl.Close()
		if srv != nil {
			srv.closeAll()
		}
		if dir != "" {
			os.RemoveAll(dir)
		}
		return
	}
	race := sc.Fault == "race-cancel" || sc.Fault == "race-close"
	var ctl *gate.Controller
	if race {
		ctl = gate.New(func(point string, kv []interface{}) (string, string) {
			if point == "client.resp.found" {
				return "reader", fmt.Sprint(kv...)
			}
			return "", ""
		})
		ctl.Gate("client.resp.found", true)
		mcp.VerifSetHook(ctl.Hook)
		defer func() { ctl.ReleaseAll(); mcp.VerifSetHook(nil) }()
	}
	var clientFaultAt time.Time
	var raceCancels []context.CancelFunc
	var raceMu sync.Mutex
	pid := 0
	if stdioCl != nil {
		pid = stdioCl.GetProcessID()
	}
	res.Calls = make([]c08Call, sc.NCalls)
	var wg sync.WaitGroup
	for i := 0; i < sc.NCalls; i++ {
		wg.Add(1)
		go func(i int) {
			defer wg.Done()
			if sc.Client == "stdio" {
				time.Sleep(time.Duration(i) * 15 * time.Millisecond) // ids 3, 4, 5 in order
			}
			var ctx context.Context
			cancel := func() {}
			call := &res.Calls[i]
			call.CtxEndMs = -1
			start := time.Now()
			switch sc.Ctx {
			case "deadline":
				ctx, cancel = context.WithTimeout(context.Background(), 700*time.Millisecond)
				call.CtxEndMs = ms(start.Add(700 * time.Millisecond))
			case "cancel":
				var c2 context.CancelFunc
				ctx, c2 = context.WithCancel(context.Background())
				cancel = c2
				call.CtxEndMs = ms(start.Add(500 * time.Millisecond))
				tm := time.AfterFunc(500*time.Millisecond, c2)
				defer tm.Stop()
			case "race":
				var c2 context.CancelFunc
				ctx, c2 = context.WithTimeout(context.Background(), 4*time.Second)
				cancel = c2
				raceMu.Lock()
				raceCancels = append(raceCancels, c2)
				raceMu.Unlock()
			default:
				ctx = context.Background()
			}
			req := &mcp.CallToolRequest{}
			req.Params.Name = "echo"
			nonce := fmt.Sprintf("c%d", i)
			req.Params.Arguments = map[string]interface{}{"nonce": nonce}
			if sc.At == "req-mid" {
				req.Params.Arguments["pad"] = strings.Repeat("p", 6<<20)
			}
			done := make(chan struct{})
			var r *mcp.CallToolResult
			var err error
			go func() {
				defer close(done)
				r, err = cl.CallTool(ctx, req)
			}()
			select {
			case <-done:
			case <-time.After(6 * time.Second):
				call.Hung = true
				call.EndMs = ms(time.Now())
				cancel()
				return
			}
			cancel()
			call.EndMs = ms(time.Now())
			if err != nil {
				call.Err = err.Error()
				if len(call.Err) > 200 {
					call.Err = call.Err[:200]
				}
				return
			}
			call.OK = true
			if r != nil && len(r.Content) == 1 {
				if tc, ok := r.Content[0].(mcp.TextContent); ok && tc.Text == "A:"+nonce+":"+strings.Repeat("x", 200) {
					call.Own = true
				}
			}
		}(i)
	}
	closeNow := func() {
		cdone := make(chan struct{})
		go func() { cl.Close(); close(cdone) }()
		select {
		case <-cdone:
		case <-time.After(8 * time.Second):
		}
	}
	switch {
	case race:
		if !ctl.WaitParked("reader", "client.resp.found", 3*time.Second) {
			res.Broken = "the reader never reached the hand-over point"
		} else if sc.Fault == "race-cancel" {
			clientFaultAt = time.Now()
			raceMu.Lock()
			for _, c := range raceCancels {
				c()
			}
			raceMu.Unlock()
			for i := range res.Calls {
				res.Calls[i].CtxEndMs = ms(clientFaultAt)
			}
			time.Sleep(40 * time.Millisecond)
		} else {
			clientFaultAt = time.Now()
			go closeNow()
			time.Sleep(40 * time.Millisecond)
		}
		ctl.ReleaseAll()
	case sc.Fault == "clientclose":
		// Close while the calls are pending (the server has gone silent)
		if srv != nil {
			select {
			case <-srv.callsCh:
			case <-time.After(3 * time.Second):
			}
		} else {
			for dl := time.Now().Add(3 * time.Second); time.Now().Before(dl); time.Sleep(5 * time.Millisecond) {
				if _, err := os.Stat(countFile); err == nil {
					break
				}
			}
		}
		time.Sleep(60 * time.Millisecond)
		clientFaultAt = time.Now()
		closeNow()
	}
	wg.Wait()
	if sc.Fault == "race-cancel" && res.Broken == "" {
		actx, acancel := context.WithTimeout(context.Background(), 1500*time.Millisecond)
		req := &mcp.CallToolRequest{}
		req.Params.Name = "echo"
		req.Params.Arguments = map[string]interface{}{"nonce": "after"}
		if _, err := cl.CallTool(actx, req); err != nil {
			res.After = "err: " + err.Error()
		} else {
			res.After = "ok"
		}
		acancel()
	}
	// the fault has been injected before Close is called
	for dl := time.Now().Add(500 * time.Millisecond); time.Now().Before(dl) && !clientSide(sc.Fault); time.Sleep(5 * time.Millisecond) {
		if srv != nil {
			srv.mu.Lock()
			z := srv.faultAt.IsZero()
			srv.mu.Unlock()
			if !z {
				break
			}
		} else if _, err := os.Stat(countFile); err == nil {
			break
		}
	}
	if srv != nil {
		srv.mu.Lock()
		if !srv.faultAt.IsZero() {
			res.FaultMs = ms(srv.faultAt)
		}
		res.Delivered, res.Offset, res.Total, res.DeliveredTo = srv.deliv, srv.offset, srv.total, srv.delivTo
		res.Seen = map[string]int{}
		for k, v := range srv.seen {
			res.Seen[k] = v
		}
		srv.mu.Unlock()
	} else if b, err := os.ReadFile(countFile); err == nil {
		var ns int64
		d := 0
		fmt.Sscan(string(b), &ns, &d, &res.Offset, &res.Total, &res.DeliveredTo)
		res.FaultMs = ms(time.Unix(0, ns))
		res.Delivered = d == 1
	}
	if !clientFaultAt.IsZero() {
		res.FaultMs = ms(clientFaultAt)
	}
	tc := time.Now()
	cdone := make(chan error, 1)
	go func() { cdone <- cl.Close() }()
	select {
	case err := <-cdone:
		if err != nil && sc.Client != "stdio" {
			res.CloseErr = err.Error()
		}
	case <-time.After(8 * time.Second):
		res.CloseErr = "Close did not return within 8 s"
	}
	res.CloseMs = float64(time.Since(tc)) / float64(time.Millisecond)
	res.Pending = mcp.VerifClientPending(cl)
	if res.Pending < 0 {
		res.Pending = 0
	}
	// an answered call (HTTP error status) leaves nothing behind while the peer is still there and its connections are open
	liveHTTPG := 0
	if sc.Fault == "status" && srv != nil {
		for dl := time.Now().Add(1200 * time.Millisecond); ; time.Sleep(25 * time.Millisecond) {
			http.DefaultTransport.(*http.Transport).CloseIdleConnections()
			liveHTTPG = httpConnGoroutines() - h0
			if liveHTTPG <= 0 || time.Now().After(dl) {
				break
			}
		}
	}
	// the peer goes away for good; what the client still holds now is a leak
	if srv != nil {
		srv.closeAll()
	}
	// hung calls keep their goroutines: nothing to measure then
	dl := time.Now().Add(1500 * time.Millisecond)
	for {
		http.DefaultTransport.(*http.Transport).CloseIdleConnections()
		g1, sample := libGoroutines()
		res.LibG, res.HTTPG, res.FDs, res.Sample = g1-g0, httpConnGoroutines()-h0, countFDs()-fd0, sample
		res.ChildLeft = pid > 0 && syscall.Kill(pid, 0) == nil && !isZombie(pid)
		if (res.LibG <= 0 && res.HTTPG <= 0 && res.FDs <= 0 && !res.ChildLeft) || time.Now().After(dl) {
			break
		}
		time.Sleep(25 * time.Millisecond)
	}
	if liveHTTPG > 0 {
		res.HTTPG = liveHTTPG
	}
	if res.LibG <= 0 {
		res.Sample = ""
	}
	if dir != "" {
		os.RemoveAll(dir)
	}
	return
}

func isZombie(pid int) bool {
	b, err := os.ReadFile(fmt.Sprintf("/proc/%d/stat", pid))
	if err != nil {
		return true
	}
	i := strings.LastIndex(string(b), ")")
	return i > 0 && i+2 < len(b) && b[i+2] == 'Z'
}

func init() {
	register("c08", func(args []string) int {
		var in struct {
			Scenarios []c08Scenario `json:"scenarios"`
		}
		readInput(&in)
		out := struct {
			Results []c08Result `json:"results"`
		}{}
		for _, s := range in.Scenarios {
			out.Results = append(out.Results, c08Run(s))
		}
		writeOutput(out)
		return 0
	})
}
