package main

// C02: wire fidelity.  Abstract values (enumerated by TLC from Wire.tla) are concretised into Go values, returned
// by real registered handlers and fetched by the real clients over every transport; what the handler returned
// and what the client obtained are both projected onto a tree of kinds, string digests, mime types and flags.
//   mcpdrive c02        (stdin: {"mode":..., "seed":n, "values":[...]})
//   mcpdrive c02server <specfile>   the same registrations on the library's stdio server (child process)

import (
	"context"
	"crypto/sha256"
	"encoding/base64"
	"encoding/hex"
	"encoding/json"
	"fmt"
	"net/http/httptest"
	"os"
	"path/filepath"
	"strconv"
	"strings"
	"time"

	mcp "trpc.group/trpc-go/trpc-mcp-go"
)

type c02Value struct {
	Fam   string `json:"fam"`
	K1    string `json:"k1"`
	S1    string `json:"s1"`
	K2    string `json:"k2"`
	S2    string `json:"s2"`
	Flag  bool   `json:"flag"`
	Extra string `json:"extra"`
}

type c02Spec struct {
	Mode   string     `json:"mode"` // json sse stateless legacy stdio
	Seed   int        `json:"seed"`
	Values []c02Value `json:"values"`
}

type c02Out struct {
	I    int         `json:"i"`
	Sent interface{} `json:"sent"`
	Got  interface{} `json:"got"`
}

func dig(s string) map[string]interface{} {
	h := sha256.Sum256([]byte(s))
	return map[string]interface{}{"d": hex.EncodeToString(h[:8]), "n": len(s)}
}

// c02String: a representative of a string class, varied by seed.
func c02String(class string, seed int) string {
	tag := fmt.Sprintf("<%d>", seed)
	switch class {
	case "empty":
		return ""
	case "ascii":
		return "plain ascii text " + tag
	case "newline":
		return []string{"line1\nline2\r\nline3\rend" + tag, "\nleading and trailing\n", "a\n\nb\n\n\nc" + tag, "data: fake\nevent: message\nid: 7\n\n" + tag}[seed%4]
	case "u2028":
		return []string{"sep\u2028arator\u2029para" + tag, "nel\u0085here\u2028", "\u2028"}[seed%3]
	case "quote":
		return []string{`"quoted" \back\slash </script> ` + tag, `{"jsonrpc":"2.0","id":1,"result":{}}`, `\u0041 \n literal escapes \\ "`, "data: looks like sse\\n",
			`literal \u003cb\u003e \u0026amp; next to real <b> & </b> ` + tag, `{"html":"\u003cdiv\u003e","s":"a\\u0026b"} <>&`}[seed%6]
	case "percent":
		return []string{"quota at 100% for tenant 7 " + tag, "%s %d %v %!x %%", "name%20with%2Fescapes%", "50%!(EXTRA string=x)"}[seed%4]
	case "control":
		return []string{"ctl\x01\x02\x1f\x7fend" + tag, "tab\there\x0bvt\x0cff", "\x1b[31mred\x1b[0m", "nul\x00inside"}[seed%4]
	case "astral":
		return []string{"emoji 😀👩‍👩‍👧‍👦 " + tag, "combining e\u0301 a\u030a \u202eRTL\u202c", "𝔘𝔫𝔦𝔠𝔬𝔡𝔢 \U0001F9E0 \ufeffbom", "中文 日本語 한국어 العربية"}[seed%4]
	case "big":
		unit := "0123456789abcdef-é😀\n"
		return tag + strings.Repeat(unit, (2<<20)/len(unit))
	}
	return "?" + class
}

func c02Item(kind, class string, seed int, uri string) mcp.Content {
	s := c02String(class, seed)
	b64 := base64.StdEncoding.EncodeToString([]byte(s))
	// every third representative carries annotations (audience, priority)
	var ann mcp.Annotated
	if seed%3 == 0 {
		ann.Annotations = &struct {
			Audience []mcp.Role `json:"audience,omitempty"`
			Priority float64    `json:"priority,omitempty"`
		}{Audience: []mcp.Role{mcp.RoleUser, mcp.RoleAssistant}, Priority: 0.5}
	}
	switch kind {
	case "text":
		c := mcp.NewTextContent(s)
		c.Annotated = ann
		return c
	case "image":
		c := mcp.NewImageContent(b64, "image/png")
		c.Annotated = ann
		return c
	case "audio":
		c := mcp.NewAudioContent(b64, "audio/wav")
		c.Annotated = ann
		return c
	case "embtext":
		c := mcp.NewEmbeddedResource(mcp.TextResourceContents{URI: uri, MIMEType: "text/plain", Text: s})
		c.Annotated = ann
		return c
	case "embblob":
		c := mcp.NewEmbeddedResource(mcp.BlobResourceContents{URI: uri, MIMEType: "application/octet-stream", Blob: b64})
		c.Annotated = ann
		return c
	}
	return nil
}

func c02Struct(class string, seed int) interface{} {
	switch class {
	case "flat":
		return map[string]interface{}{"a": "x", "n": 1, "b": true, "s": c02String("astral", seed)}
	case "nested":
		return map[string]interface{}{"o": map[string]interface{}{"p": []interface{}{1, map[string]interface{}{"q": nil}}, "e": map[string]interface{}{}}, "l": []interface{}{}}
	case "array":
		return []interface{}{1, "two", map[string]interface{}{"three": 3.5}}
	case "number":
		return 12.5
	case "string":
		return "just a string " + c02String("u2028", seed)
	}
	return nil
}

// c02Build: the Go value a handler returns for v (tool: *CallToolResult, prompt: *GetPromptResult,
// resource: []ResourceContents, *err: error).
func c02Build(v c02Value, i, seed int) interface{} {
	uri := func(n int) string { return fmt.Sprintf("r://v/%d/%d", i, n) }
	switch v.Fam {
	case "tool":
		r := &mcp.CallToolResult{Content: []mcp.Content{}, IsError: v.Flag}
		if v.K1 != "-" {
			r.Content = append(r.Content, c02Item(v.K1, v.S1, seed+i, uri(1)))
		}
		if v.K2 != "-" {
			r.Content = append(r.Content, c02Item(v.K2, v.S2, seed+i+1, uri(2)))
		}
		if v.Extra != "absent" {
			r.StructuredContent = c02Struct(v.Extra, seed+i)
		}
		return r
	case "prompt":
		r := &mcp.GetPromptResult{}
		if v.Extra != "absent" {
			r.Description = c02String(v.Extra, seed+i)
		}
		roles := []mcp.Role{mcp.RoleUser, mcp.RoleAssistant}
		if v.Flag {
			roles = []mcp.Role{mcp.RoleAssistant, mcp.RoleUser}
		}
		r.Messages = append(r.Messages, mcp.PromptMessage{Role: roles[0], Content: c02Item(v.K1, v.S1, seed+i, uri(1))})
		if v.K2 != "-" {
			r.Messages = append(r.Messages, mcp.PromptMessage{Role: roles[1], Content: c02Item(v.K2, v.S2, seed+i+1, uri(2))})
		}
		return r
	case "resource":
		mk := func(k, class string, n int) mcp.ResourceContents {
			s := c02String(class, seed+i+n)
			mime := ""
			if v.Flag {
				mime = "text/x-verif"
			}
			if k == "text" {
				return mcp.TextResourceContents{URI: c02ResURI(i), MIMEType: mime, Text: s}
			}
			return mcp.BlobResourceContents{URI: c02ResURI(i), MIMEType: mime, Blob: base64.StdEncoding.EncodeToString([]byte(s))}
		}
		out := []mcp.ResourceContents{mk(v.K1, v.S1, 0)}
		if v.K2 != "-" {
			out = append(out, mk(v.K2, v.S2, 1))
		}
		return out
	case "toolerr", "prompterr", "reserr":
		return fmt.Errorf("%s", "handler failed: "+c02String(v.S1, seed+i))
	}
	return nil
}

func c02ResURI(i int) string { return fmt.Sprintf("r://res/%d", i) }

// ---- projections ----

func projContent(c mcp.Content) interface{} {
	switch t := c.(type) {
	case mcp.TextContent:
		return map[string]interface{}{"k": "text", "type": t.Type, "text": dig(t.Text), "ann": normJSON(t.Annotations)}
	case *mcp.TextContent:
		return map[string]interface{}{"k": "text", "type": t.Type, "text": dig(t.Text), "ann": normJSON(t.Annotations)}
	case mcp.ImageContent:
		return map[string]interface{}{"k": "image", "type": t.Type, "data": dig(t.Data), "mime": t.MimeType, "ann": normJSON(t.Annotations)}
	case *mcp.ImageContent:
		return map[string]interface{}{"k": "image", "type": t.Type, "data": dig(t.Data), "mime": t.MimeType, "ann": normJSON(t.Annotations)}
	case mcp.AudioContent:
		return map[string]interface{}{"k": "audio", "type": t.Type, "data": dig(t.Data), "mime": t.MimeType, "ann": normJSON(t.Annotations)}
	case *mcp.AudioContent:
		return map[string]interface{}{"k": "audio", "type": t.Type, "data": dig(t.Data), "mime": t.MimeType, "ann": normJSON(t.Annotations)}
	case mcp.EmbeddedResource:
		return map[string]interface{}{"k": "embedded", "res": projRes(t.Resource), "ann": normJSON(t.Annotations)}
	case *mcp.EmbeddedResource:
		return map[string]interface{}{"k": "embedded", "res": projRes(t.Resource), "ann": normJSON(t.Annotations)}
	case nil:
		return map[string]interface{}{"k": "nil"}
	}
	return map[string]interface{}{"k": fmt.Sprintf("%T", c)}
}

func projRes(r mcp.ResourceContents) interface{} {
	switch t := r.(type) {
	case mcp.TextResourceContents:
		return map[string]interface{}{"k": "text", "uri": t.URI, "mime": t.MIMEType, "text": dig(t.Text)}
	case *mcp.TextResourceContents:
		return map[string]interface{}{"k": "text", "uri": t.URI, "mime": t.MIMEType, "text": dig(t.Text)}
	case mcp.BlobResourceContents:
		return map[string]interface{}{"k": "blob", "uri": t.URI, "mime": t.MIMEType, "blob": dig(t.Blob)}
	case *mcp.BlobResourceContents:
		return map[string]interface{}{"k": "blob", "uri": t.URI, "mime": t.MIMEType, "blob": dig(t.Blob)}
	case nil:
		return map[string]interface{}{"k": "nil"}
	}
	return map[string]interface{}{"k": fmt.Sprintf("%T", r)}
}

func normJSON(v interface{}) string {
	if v == nil {
		return "absent"
	}
	b, err := json.Marshal(v)
	if err != nil {
		return "unencodable:" + err.Error()
	}
	var x interface{}
	json.Unmarshal(b, &x)
	b, _ = json.Marshal(x)
	return string(b)
}

func projTool(r *mcp.CallToolResult) interface{} {
	if r == nil {
		return map[string]interface{}{"nil": true}
	}
	items := []interface{}{}
	for _, c := range r.Content {
		items = append(items, projContent(c))
	}
	return map[string]interface{}{"content": items, "iserr": r.IsError, "structured": dig(normJSON(r.StructuredContent))}
}

func projPrompt(r *mcp.GetPromptResult) interface{} {
	if r == nil {
		return map[string]interface{}{"nil": true}
	}
	msgs := []interface{}{}
	for _, m := range r.Messages {
		msgs = append(msgs, map[string]interface{}{"role": string(m.Role), "c": projContent(m.Content)})
	}
	return map[string]interface{}{"desc": dig(r.Description), "msgs": msgs}
}

func projResources(rs []mcp.ResourceContents) interface{} {
	out := []interface{}{}
	for _, r := range rs {
		out = append(out, projRes(r))
	}
	return map[string]interface{}{"contents": out}
}

func projErr(want string, err error) interface{} {
	if err == nil {
		return map[string]interface{}{"noerror": true}
	}
	if strings.Contains(err.Error(), want) {
		return map[string]interface{}{"err": dig(want)}
	}
	t := err.Error()
	if len(t) > 200 {
		t = t[:200]
	}
	return map[string]interface{}{"err": map[string]interface{}{"other": t}}
}

// ---- descriptors ----

func c02ToolDesc(v c02Value, i, seed int) *mcp.Tool {
	opts := []mcp.ToolOption{}
	if d := c02String(v.S1, seed+i); d != "" {
		opts = append(opts, mcp.WithDescription(d))
	}
	switch v.Extra {
	case "flat":
		opts = append(opts, mcp.WithString("s", mcp.Description("a string "+c02String("quote", seed))), mcp.WithNumber("n"), mcp.WithBoolean("b"))
	case "nested":
		opts = append(opts, mcp.WithObject("o", mcp.Description("obj")), mcp.WithArray("arr", mcp.Description("list")))
	case "enum":
		opts = append(opts, mcp.WithString("mode", mcp.Enum("fast", "slow", "é😀"), mcp.Default("fast")))
	case "required":
		opts = append(opts, mcp.WithString("must", mcp.Required()), mcp.WithInteger("count", mcp.Required(), mcp.Description("how many")))
	}
	if v.Flag {
		t, f := true, false
		opts = append(opts, mcp.WithToolAnnotations(&mcp.ToolAnnotations{Title: "T " + c02String("astral", seed), ReadOnlyHint: &t, DestructiveHint: &f, OpenWorldHint: &f}))
	}
	return mcp.NewTool(fmt.Sprintf("d%d", i), opts...)
}

func c02PromptDesc(v c02Value, i, seed int) *mcp.Prompt {
	p := &mcp.Prompt{Name: fmt.Sprintf("pd%d", i), Description: c02String(v.S1, seed+i)}
	if v.Flag {
		p.Arguments = []mcp.PromptArgument{{Name: "a", Description: c02String("quote", seed), Required: true}, {Name: "b"}}
	}
	return p
}

func c02ResDesc(v c02Value, i, seed int) *mcp.Resource {
	r := &mcp.Resource{Name: fmt.Sprintf("rd%d %s", i, c02String("astral", seed)), URI: fmt.Sprintf("r://desc/%d", i), Description: c02String(v.S1, seed+i)}
	if v.Flag {
		r.MimeType = "text/markdown"
		r.Size = 12345
	}
	return r
}

// c02Register applies the spec to a server through its registration functions.
func c02Register(spec *c02Spec,
	regTool func(*mcp.Tool, func(context.Context, *mcp.CallToolRequest) (*mcp.CallToolResult, error)),
	regPrompt func(*mcp.Prompt, func(context.Context, *mcp.GetPromptRequest) (*mcp.GetPromptResult, error)),
	regRes func(*mcp.Resource, func(context.Context, *mcp.ReadResourceRequest) ([]mcp.ResourceContents, error)),
	regRes1 func(*mcp.Resource, func(context.Context, *mcp.ReadResourceRequest) (mcp.ResourceContents, error))) {
	index := func(s interface{}) int {
		switch t := s.(type) {
		case string:
			n, _ := strconv.Atoi(t)
			return n
		case float64:
			return int(t)
		}
		return -1
	}
	regTool(mcp.NewTool("give", mcp.WithNumber("i")), func(ctx context.Context, req *mcp.CallToolRequest) (*mcp.CallToolResult, error) {
		i := index(req.Params.Arguments["i"])
		if i < 0 || i >= len(spec.Values) {
			return nil, fmt.Errorf("no such value")
		}
		switch b := c02Build(spec.Values[i], i, spec.Seed).(type) {
		case *mcp.CallToolResult:
			return b, nil
		case error:
			return nil, b
		}
		return nil, fmt.Errorf("value %d is not a tool value", i)
	})
	regPrompt(&mcp.Prompt{Name: "give", Arguments: []mcp.PromptArgument{{Name: "i", Required: true}}}, func(ctx context.Context, req *mcp.GetPromptRequest) (*mcp.GetPromptResult, error) {
		i := index(req.Params.Arguments["i"])
		if i < 0 || i >= len(spec.Values) {
			return nil, fmt.Errorf("no such value")
		}
		switch b := c02Build(spec.Values[i], i, spec.Seed).(type) {
		case *mcp.GetPromptResult:
			return b, nil
		case error:
			return nil, b
		}
		return nil, fmt.Errorf("value %d is not a prompt value", i)
	})
	for i, v := range spec.Values {
		i, v := i, v
		switch v.Fam {
		case "resource", "reserr":
			// the descriptor declares a MIME type of its own: what the handler returns (also an empty type) is what the caller gets
			desc := &mcp.Resource{Name: fmt.Sprintf("v%d", i), URI: c02ResURI(i), MimeType: "text/x-descriptor"}
			if v.K2 == "-" && i%2 == 0 {
				// a single-content handler (RegisterResource)
				regRes1(desc, func(ctx context.Context, req *mcp.ReadResourceRequest) (mcp.ResourceContents, error) {
					switch b := c02Build(v, i, spec.Seed).(type) {
					case []mcp.ResourceContents:
						return b[0], nil
					case error:
						return nil, b
					}
					return nil, fmt.Errorf("not a resource value")
				})
				continue
			}
			regRes(desc, func(ctx context.Context, req *mcp.ReadResourceRequest) ([]mcp.ResourceContents, error) {
				switch b := c02Build(v, i, spec.Seed).(type) {
				case []mcp.ResourceContents:
					return b, nil
				case error:
					return nil, b
				}
				return nil, fmt.Errorf("not a resource value")
			})
		case "tooldesc":
			regTool(c02ToolDesc(v, i, spec.Seed), func(ctx context.Context, req *mcp.CallToolRequest) (*mcp.CallToolResult, error) {
				return mcp.NewTextResult("d"), nil
			})
		case "promptdesc":
			regPrompt(c02PromptDesc(v, i, spec.Seed), func(ctx context.Context, req *mcp.GetPromptRequest) (*mcp.GetPromptResult, error) {
				return &mcp.GetPromptResult{}, nil
			})
		case "resdesc":
			regRes(c02ResDesc(v, i, spec.Seed), func(ctx context.Context, req *mcp.ReadResourceRequest) ([]mcp.ResourceContents, error) {
				return []mcp.ResourceContents{mcp.TextResourceContents{URI: fmt.Sprintf("r://desc/%d", i), Text: "d"}}, nil
			})
		}
	}
}

func c02ServerMain(args []string) int {
	var spec c02Spec
	b, err := os.ReadFile(args[0])
	if err != nil || json.Unmarshal(b, &spec) != nil {
		return 2
	}
	srv := mcp.NewStdioServer("verif-c02", "1.0", mcp.WithStdioServerLogger(silentLogger{}))
	c02Register(&spec, func(t *mcp.Tool, h func(context.Context, *mcp.CallToolRequest) (*mcp.CallToolResult, error)) {
		srv.RegisterTool(t, h)
	},
		func(p *mcp.Prompt, h func(context.Context, *mcp.GetPromptRequest) (*mcp.GetPromptResult, error)) {
			srv.RegisterPrompt(p, h)
		},
		func(r *mcp.Resource, h func(context.Context, *mcp.ReadResourceRequest) ([]mcp.ResourceContents, error)) {
			srv.RegisterResources(r, h)
		},
		func(r *mcp.Resource, h func(context.Context, *mcp.ReadResourceRequest) (mcp.ResourceContents, error)) {
			srv.RegisterResource(r, h)
		})
	if err := srv.Start(); err != nil {
		return 1
	}
	return 0
}

func c02Run(spec *c02Spec) (outs []c02Out, broken string) {
	info := mcp.Implementation{Name: "v", Version: "0"}
	var cl c16Client
	var cleanup func()
	switch spec.Mode {
	case "json", "sse", "stateless":
		opts := []mcp.ServerOption{mcp.WithServerPath("/mcp"), mcp.WithServerLogger(silentLogger{}), mcp.WithPostSSEEnabled(spec.Mode == "sse")}
		if spec.Mode == "stateless" {
			opts = append(opts, mcp.WithStatelessMode(true))
		}
		srv := mcp.NewServer("verif", "1.0", opts...)
		c02Register(spec, func(t *mcp.Tool, h func(context.Context, *mcp.CallToolRequest) (*mcp.CallToolResult, error)) {
			srv.RegisterTool(t, h)
		},
			func(p *mcp.Prompt, h func(context.Context, *mcp.GetPromptRequest) (*mcp.GetPromptResult, error)) {
				srv.RegisterPrompt(p, h)
			},
			func(r *mcp.Resource, h func(context.Context, *mcp.ReadResourceRequest) ([]mcp.ResourceContents, error)) {
				srv.RegisterResources(r, h)
			},
			func(r *mcp.Resource, h func(context.Context, *mcp.ReadResourceRequest) (mcp.ResourceContents, error)) {
				srv.RegisterResource(r, h)
			})
		ts := httptest.NewServer(srv.Handler())
		c, err := mcp.NewClient(ts.URL+"/mcp", info, mcp.WithClientLogger(silentLogger{}), mcp.WithClientGetSSEEnabled(false))
		if err != nil {
			closeTS(ts)
			return nil, err.Error()
		}
		cl = c
		cleanup = func() { c.Close(); closeClientConns(ts); closeTS(ts) }
	case "legacy":
		srv := mcp.NewSSEServer("verif", "1.0", mcp.WithSSEServerLogger(silentLogger{}), mcp.WithKeepAlive(false))
		c02Register(spec, func(t *mcp.Tool, h func(context.Context, *mcp.CallToolRequest) (*mcp.CallToolResult, error)) {
			srv.RegisterTool(t, h)
		},
			func(p *mcp.Prompt, h func(context.Context, *mcp.GetPromptRequest) (*mcp.GetPromptResult, error)) {
				srv.RegisterPrompt(p, h)
			},
			func(r *mcp.Resource, h func(context.Context, *mcp.ReadResourceRequest) ([]mcp.ResourceContents, error)) {
				srv.RegisterResources(r, h)
			},
			func(r *mcp.Resource, h func(context.Context, *mcp.ReadResourceRequest) (mcp.ResourceContents, error)) {
				srv.RegisterResource(r, h)
			})
		ts := httptest.NewServer(srv)
		c, err := mcp.NewSSEClient(ts.URL+"/sse", info, mcp.WithClientLogger(silentLogger{}))
		if err != nil {
			closeTS(ts)
			return nil, err.Error()
		}
		cl = c
		cleanup = func() { c.Close(); closeClientConns(ts); closeTS(ts) }
	case "stdio":
		dir, _ := os.MkdirTemp("", "c02")
		specPath := filepath.Join(dir, "spec.json")
		b, _ := json.Marshal(spec)
		os.WriteFile(specPath, b, 0644)
		exe, _ := os.Executable()
		c, err := mcp.NewStdioClient(mcp.StdioTransportConfig{ServerParams: mcp.StdioServerParameters{Command: exe, Args: []string{"c02server", specPath}},
			Timeout: 20 * time.Second}, info, mcp.WithStdioLogger(silentLogger{}))
		if err != nil {
			os.RemoveAll(dir)
			return nil, err.Error()
		}
		cl = c
		cleanup = func() { c.Close(); os.RemoveAll(dir) }
	default:
		return nil, "unknown mode " + spec.Mode
	}
	defer cleanup()
	ictx, icancel := context.WithTimeout(context.Background(), 10*time.Second)
	_, err := cl.Initialize(ictx, &mcp.InitializeRequest{})
	icancel()
	if err != nil {
		return nil, "initialize: " + err.Error()
	}
	lctx, lcancel := context.WithTimeout(context.Background(), 20*time.Second)
	defer lcancel()
	var tools map[string]mcp.Tool
	var prompts map[string]mcp.Prompt
	var ress map[string]mcp.Resource
	var lerr [3]error
	for i, v := range spec.Values {
		ctx, cancel := context.WithTimeout(context.Background(), 20*time.Second)
		o := c02Out{I: i}
		built := c02Build(v, i, spec.Seed)
		switch v.Fam {
		case "tool", "toolerr":
			req := &mcp.CallToolRequest{}
			req.Params.Name = "give"
			req.Params.Arguments = map[string]interface{}{"i": i}
			r, err := cl.CallTool(ctx, req)
			if v.Fam == "tool" {
				o.Sent = projTool(built.(*mcp.CallToolResult))
				if err != nil {
					o.Got = projErr("\x00never", err)
				} else {
					o.Got = projTool(r)
				}
			} else {
				o.Sent = map[string]interface{}{"err": dig(built.(error).Error())}
				if err == nil && r != nil && r.IsError && len(r.Content) == 1 {
					// a failing tool handler may also surface as an error RESULT carrying the message
					if tc, ok := r.Content[0].(mcp.TextContent); ok {
						err = fmt.Errorf("%s", tc.Text)
					}
				}
				o.Got = projErr(built.(error).Error(), err)
			}
		case "prompt", "prompterr":
			req := &mcp.GetPromptRequest{}
			req.Params.Name = "give"
			req.Params.Arguments = map[string]string{"i": strconv.Itoa(i)}
			r, err := cl.GetPrompt(ctx, req)
			if v.Fam == "prompt" {
				o.Sent = projPrompt(built.(*mcp.GetPromptResult))
				if err != nil {
					o.Got = projErr("\x00never", err)
				} else {
					o.Got = projPrompt(r)
				}
			} else {
				o.Sent = map[string]interface{}{"err": dig(built.(error).Error())}
				o.Got = projErr(built.(error).Error(), err)
			}
		case "resource", "reserr":
			req := &mcp.ReadResourceRequest{}
			req.Params.URI = c02ResURI(i)
			r, err := cl.ReadResource(ctx, req)
			if v.Fam == "resource" {
				o.Sent = projResources(built.([]mcp.ResourceContents))
				if err != nil {
					o.Got = projErr("\x00never", err)
				} else {
					o.Got = projResources(r.Contents)
				}
			} else {
				o.Sent = map[string]interface{}{"err": dig(built.(error).Error())}
				o.Got = projErr(built.(error).Error(), err)
			}
		case "tooldesc":
			if tools == nil && lerr[0] == nil {
				tools = map[string]mcp.Tool{}
				var r *mcp.ListToolsResult
				if r, lerr[0] = cl.ListTools(lctx, &mcp.ListToolsRequest{}); lerr[0] == nil {
					for _, t := range r.Tools {
						tools[t.Name] = t
					}
				}
			}
			reg := c02ToolDesc(v, i, spec.Seed)
			o.Sent = map[string]interface{}{"desc": dig(normJSON(reg))}
			if t, ok := tools[reg.Name]; ok {
				o.Got = map[string]interface{}{"desc": dig(normJSON(c02ListedTool(t)))}
				if normJSON(reg) != normJSON(c02ListedTool(t)) {
					o.Got.(map[string]interface{})["listed"] = trunc(normJSON(c02ListedTool(t)))
					o.Got.(map[string]interface{})["registered"] = trunc(normJSON(reg))
				}
			} else {
				o.Got = projErr("\x00never", fmt.Errorf("not listed (%v)", lerr[0]))
			}
		case "promptdesc":
			if prompts == nil && lerr[1] == nil {
				prompts = map[string]mcp.Prompt{}
				var r *mcp.ListPromptsResult
				if r, lerr[1] = cl.ListPrompts(lctx, &mcp.ListPromptsRequest{}); lerr[1] == nil {
					for _, p := range r.Prompts {
						prompts[p.Name] = p
					}
				}
			}
			reg := c02PromptDesc(v, i, spec.Seed)
			o.Sent = map[string]interface{}{"desc": dig(normJSON(reg))}
			if p, ok := prompts[reg.Name]; ok {
				o.Got = map[string]interface{}{"desc": dig(normJSON(p))}
			} else {
				o.Got = projErr("\x00never", fmt.Errorf("not listed (%v)", lerr[1]))
			}
		case "resdesc":
			if ress == nil && lerr[2] == nil {
				ress = map[string]mcp.Resource{}
				var r *mcp.ListResourcesResult
				if r, lerr[2] = cl.ListResources(lctx, &mcp.ListResourcesRequest{}); lerr[2] == nil {
					for _, x := range r.Resources {
						ress[x.URI] = x
					}
				}
			}
			reg := c02ResDesc(v, i, spec.Seed)
			o.Sent = map[string]interface{}{"desc": dig(normJSON(reg))}
			if x, ok := ress[reg.URI]; ok {
				o.Got = map[string]interface{}{"desc": dig(normJSON(x))}
			} else {
				o.Got = projErr("\x00never", fmt.Errorf("not listed (%v)", lerr[2]))
			}
		}
		cancel()
		outs = append(outs, o)
	}
	return outs, ""
}

// c02ListedTool: the descriptor as the client obtained it; the schema is what the client keeps as raw JSON when it has it.
func c02ListedTool(t mcp.Tool) interface{} {
	b, _ := json.Marshal(t)
	var m map[string]interface{}
	json.Unmarshal(b, &m)
	if len(t.RawInputSchema) > 0 {
		var s interface{}
		if json.Unmarshal(t.RawInputSchema, &s) == nil {
			m["inputSchema"] = s
		}
	}
	return m
}

func init() {
	register("c02server", c02ServerMain)
	register("c02", func(args []string) int {
		var spec c02Spec
		readInput(&spec)
		outs, broken := c02Run(&spec)
		writeOutput(map[string]interface{}{"outs": outs, "broken": broken})
		return 0
	})
}
