package main

// C12, the notification-handler registry: handlers are registered, replaced and removed while notifications are being
// dispatched - from other goroutines while a handler runs, and from INSIDE a handler (the one-shot pattern).
// Reported: how long each registry operation took and which handler version saw each notification.

import (
	"context"
	"fmt"
	"net/http/httptest"
	"sync/atomic"
	"time"

	mcp "trpc.group/trpc-go/trpc-mcp-go"
	"verifharness/internal/peer"
)

type c12NotifOut struct {
	ID       string   `json:"id"`
	Kind     string   `json:"kind"`
	Steps    []string `json:"steps"`      // what happened, in order
	MaxRegMs float64  `json:"max_reg_ms"` // slowest registry operation
	Hung     string   `json:"hung,omitempty"`
	SeenBy   []int    `json:"seen_by"` // handler version that saw notification k (0 = none)
	Broken   string   `json:"broken,omitempty"`
}

func c12Notif(kind string) (out c12NotifOut) {
	out.ID, out.Kind = "notif-"+kind, kind
	const method = "notifications/verif-event"
	var reg func(string, mcp.ServerNotificationHandler)
	var unreg func(string)
	var ts *httptest.Server
	var post func(body string) error
	ctx := context.Background()
	switch kind {
	case "streamable":
		srv := mcp.NewServer("verif", "1.0", mcp.WithServerPath("/mcp"), mcp.WithServerLogger(silentLogger{}))
		reg, unreg = srv.RegisterNotificationHandler, srv.UnregisterNotificationHandler
		ts = httptest.NewServer(srv.Handler())
		sid, err := peer.Handshake(ctx, ts.URL+"/mcp", nil)
		if err != nil {
			out.Broken = err.Error()
			return
		}
		post = func(body string) error {
			r := peer.PostJSON(ctx, ts.URL+"/mcp", map[string]string{"Mcp-Session-Id": sid}, []byte(body), false)
			if r.Err != nil {
				return r.Err
			}
			if r.Status/100 != 2 {
				return fmt.Errorf("status %d", r.Status)
			}
			return nil
		}
	default:
		out.Broken = "unknown kind " + kind
		return
	}
	defer func() { closeClientConns(ts); closeTS(ts) }()
	timed := func(what string, f func()) bool {
		t0 := time.Now()
		done := make(chan struct{})
		go func() { f(); close(done) }()
		select {
		case <-done:
			ms := float64(time.Since(t0)) / float64(time.Millisecond)
			if ms > out.MaxRegMs {
				out.MaxRegMs = ms
			}
			out.Steps = append(out.Steps, fmt.Sprintf("%s: %.1f ms", what, ms))
			return true
		case <-time.After(3 * time.Second):
			out.Hung = what
			out.Steps = append(out.Steps, what+": did not return within 3 s")
			return false
		}
	}
	var seen [8]int32
	var n int32 // notification counter
	handler := func(version int, inside func()) mcp.ServerNotificationHandler {
		return func(ctx context.Context, nt *mcp.JSONRPCNotification) error {
			k := atomic.LoadInt32(&n)
			if k >= 0 && int(k) < len(seen) {
				atomic.StoreInt32(&seen[k], int32(version))
			}
			if inside != nil {
				inside()
			}
			return nil
		}
	}
	send := func() bool {
		ok := true
		if !timed("notification", func() {
			if err := post(`{"jsonrpc":"2.0","method":"` + method + `","params":{}}`); err != nil {
				out.Steps = append(out.Steps, "post: "+err.Error())
			}
		}) {
			ok = false
		}
		time.Sleep(30 * time.Millisecond)
		atomic.AddInt32(&n, 1)
		return ok
	}
	// 1. a one-shot handler: it removes itself from inside the dispatch
	if !timed("register v1 (one-shot)", func() {
		reg(method, handler(1, func() { unreg(method) }))
	}) {
		return
	}
	if !send() { // notification 0 -> v1, which unregisters itself
		return
	}
	// 2. a replacement registered afterwards must go through and must see the next notification
	if !timed("register v2", func() { reg(method, handler(2, nil)) }) {
		return
	}
	if !send() { // notification 1 -> v2
		return
	}
	// 3. a slow handler is running while another goroutine replaces it: the registration must not wait for the handler
	release := make(chan struct{})
	if !timed("register v3 (slow)", func() { reg(method, handler(3, func() { <-release })) }) {
		close(release)
		return
	}
	go post(`{"jsonrpc":"2.0","method":"` + method + `","params":{}}`) // notification 2 -> v3, which blocks
	time.Sleep(80 * time.Millisecond)
	okReg := timed("register v4 while v3 runs", func() { reg(method, handler(4, nil)) })
	close(release)
	time.Sleep(50 * time.Millisecond)
	atomic.AddInt32(&n, 1)
	if !okReg {
		return
	}
	send() // notification 3 -> v4
	for k := 0; k < 4; k++ {
		out.SeenBy = append(out.SeenBy, int(atomic.LoadInt32(&seen[k])))
	}
	return
}
