package main

// C05: paths through the Push state graph executed on a real Streamable-HTTP or legacy SSE server.
// One raw reference peer per session holds the session's stream open and records its frames; the
// server-side APIs are called directly. Reported: return values, the set of streams each nonce-tagged
// frame showed up on, which answer a server-issued request accepted, pending-table size.

import (
	"context"
	"encoding/json"
	"fmt"
	"net/http"
	"net/http/httptest"
	"regexp"
	"sort"
	"strings"
	"sync"
	"time"

	mcp "trpc.group/trpc-go/trpc-mcp-go"
	"verifharness/internal/peer"
)

type c05Step struct {
	Op string   `json:"op"` // new open close delete notif bcast filtered sreq_start answer sreq_return sreq_cancel
	S  string   `json:"s,omitempty"`
	R  string   `json:"r,omitempty"`
	F  []string `json:"f,omitempty"`
	ID string   `json:"id,omitempty"` // sreq_start: "auto" (ListRoots inside a tool) | "x" (SendRequest with ONE caller-chosen id)
	// Reconnect (op open): the stream is opened, then opened AGAIN for the same session; the older one is ended by the
	// server and the session is left with one stream, the newer
	Reconnect bool `json:"reconnect,omitempty"`
}

type c05Obs struct {
	OK      bool     `json:"ok"`
	Count   int      `json:"count"`
	Reached []string `json:"reached"`
	From    string   `json:"from,omitempty"`
	Status  int      `json:"status,omitempty"`
	Pending int      `json:"pending"`
	Err     string   `json:"err,omitempty"`
}

type c05Result struct {
	ID      string              `json:"id"`
	Obs     []c05Obs            `json:"obs"`
	Frames  map[string][]string `json:"frames"` // per model session: tags of the frames seen, in order
	Broken  string              `json:"broken,omitempty"`
	Pending int                 `json:"pending_end"`
	// Aborted: the walk cannot go on because an earlier step did not do what the model says (e.g. a server request that
	// reached nobody has no id to answer); the observations so far are reported
	Aborted string `json:"aborted,omitempty"`
}

type c05Sess struct {
	id      string
	streams []*peer.Stream
	msgURL  string // legacy: message endpoint
	dead    bool
}

type c05World struct {
	kind    string
	srv     *mcp.Server
	lsrv    *mcp.SSEServer
	ts      *httptest.Server
	url     string
	sess    map[string]*c05Sess
	mu      sync.Mutex
	cancels map[string]context.CancelFunc
	calls   map[string]chan string // r -> text of the tools/call answer
	reqid   map[string]json.RawMessage
	seen    map[string]bool // request ids already attributed
	nonce   int
	pathID  string
}

var c05DataRe = regexp.MustCompile(`"(nonce-[A-Za-z0-9_.-]+)"`)

func (w *c05World) pending() int {
	if w.kind == "legacy" {
		return mcp.VerifPendingServerRequests(w.lsrv)
	}
	return mcp.VerifPendingServerRequests(w.srv)
}

func (w *c05World) askroots(ctx context.Context, req *mcp.CallToolRequest) (*mcp.CallToolResult, error) {
	nonce, _ := req.Params.Arguments["nonce"].(string)
	cctx, cancel := context.WithTimeout(ctx, 8*time.Second)
	w.mu.Lock()
	w.cancels[nonce] = cancel
	w.mu.Unlock()
	defer cancel()
	var res *mcp.ListRootsResult
	var err error
	if w.kind == "legacy" {
		res, err = w.lsrv.ListRoots(cctx)
	} else {
		res, err = w.srv.ListRoots(cctx)
	}
	if err != nil {
		return mcp.NewTextResult("ERR:" + err.Error()), nil
	}
	var names []string
	for _, r := range res.Roots {
		names = append(names, r.Name)
	}
	return mcp.NewTextResult("ROOTS:" + strings.Join(names, ",")), nil
}

func (w *c05World) post(ctx context.Context, s *c05Sess, body []byte) peer.Resp {
	if w.kind == "legacy" {
		return peer.PostJSON(ctx, s.msgURL, nil, body, false)
	}
	return peer.PostJSON(ctx, w.url, map[string]string{"Mcp-Session-Id": s.id}, body, false)
}

// where reports the model sessions whose streams contain tag.
func (w *c05World) where(tag string) []string {
	var out []string
	for name, s := range w.sess {
		for _, st := range s.streams {
			if st.Contains(tag) {
				out = append(out, name)
				break
			}
		}
	}
	sort.Strings(out)
	return out
}

func (w *c05World) settle(tag string, want int) []string {
	deadline := time.Now().Add(1500 * time.Millisecond)
	for {
		got := w.where(tag)
		if len(got) >= want || time.Now().After(deadline) {
			break
		}
		time.Sleep(time.Millisecond)
	}
	time.Sleep(8 * time.Millisecond) // extra copies on other streams would show up by now
	r := w.where(tag)
	if r == nil {
		r = []string{}
	}
	return r
}

func (w *c05World) newSession(ctx context.Context, name string) error {
	if w.kind == "legacy" {
		st, err := peer.OpenSSE(ctx, http.MethodGet, w.ts.URL+"/sse", map[string]string{"Accept": "text/event-stream"}, nil)
		if err != nil || st.Status != 200 {
			return fmt.Errorf("GET /sse: %v", err)
		}
		var endpoint string
		st.WaitFor(3*time.Second, func(raw []byte, eof bool) bool {
			evs, _ := peer.ParseSSE(raw)
			for _, e := range evs {
				if e.Event == "endpoint" {
					endpoint = e.Data
					return true
				}
			}
			return false
		})
		if endpoint == "" {
			return fmt.Errorf("no endpoint event")
		}
		sid := endpoint[strings.Index(endpoint, "sessionId=")+len("sessionId="):]
		s := &c05Sess{id: sid, msgURL: w.ts.URL + endpoint, streams: []*peer.Stream{st}}
		w.sess[name] = s
		if r := peer.PostJSON(ctx, s.msgURL, nil, peer.InitRequest("init-"+name), false); r.Status != 202 {
			return fmt.Errorf("initialize status %d", r.Status)
		}
		if !st.WaitFor(3*time.Second, func(raw []byte, eof bool) bool { return strings.Contains(string(raw), `"serverInfo"`) }) {
			return fmt.Errorf("no initialize answer")
		}
		if r := peer.PostJSON(ctx, s.msgURL, nil, peer.InitializedNotification(), false); r.Status != 202 {
			return fmt.Errorf("initialized status %d", r.Status)
		}
		time.Sleep(5 * time.Millisecond) // the notification is handled asynchronously
		return nil
	}
	sid, err := peer.Handshake(ctx, w.url, nil)
	if err != nil {
		return err
	}
	w.sess[name] = &c05Sess{id: sid}
	return nil
}

func c05Run(kind, id string, steps []c05Step) (res c05Result) {
	res.ID = id
	res.Frames = map[string][]string{}
	w := &c05World{kind: kind, sess: map[string]*c05Sess{}, cancels: map[string]context.CancelFunc{}, calls: map[string]chan string{},
		reqid: map[string]json.RawMessage{}, seen: map[string]bool{}, pathID: id}
	tool := mcp.NewTool("askroots", mcp.WithString("nonce"))
	if kind == "legacy" {
		w.lsrv = mcp.NewSSEServer("verif", "1.0", mcp.WithSSEServerLogger(silentLogger{}), mcp.WithKeepAlive(false))
		w.lsrv.RegisterTool(tool, w.askroots)
		w.ts = httptest.NewServer(w.lsrv)
	} else {
		w.srv = mcp.NewServer("verif", "1.0", mcp.WithServerPath("/mcp"), mcp.WithServerLogger(silentLogger{}), mcp.WithPostSSEEnabled(false))
		w.srv.RegisterTool(tool, w.askroots)
		w.ts = httptest.NewServer(w.srv.Handler())
		w.url = w.ts.URL + "/mcp"
	}
	defer func() {
		w.mu.Lock()
		for _, c := range w.cancels {
			c()
		}
		w.mu.Unlock()
		for _, s := range w.sess {
			for _, st := range s.streams {
				st.Close()
			}
		}
		closeClientConns(w.ts)
		closeTS(w.ts)
	}()
	ctx := context.Background()
	realID := func(name string) string {
		if s := w.sess[name]; s != nil {
			return s.id
		}
		return "0123456789abcdef0123456789abcdef" // a session that was never created
	}
	for i, st := range steps {
		var o c05Obs
		o.Reached = []string{}
		fail := func(f string, a ...interface{}) {
			res.Broken = fmt.Sprintf("step %d %s: ", i, st.Op) + fmt.Sprintf(f, a...)
		}
		w.nonce++
		nonce := fmt.Sprintf("nonce-%s-%d.", id, w.nonce)
		params := map[string]interface{}{"level": "info", "data": nonce}
		switch st.Op {
		case "new":
			if err := w.newSession(ctx, st.S); err != nil {
				fail("%v", err)
				return
			}
			o.OK = true
		case "open":
			s := w.sess[st.S]
			stream, err := peer.OpenSSE(ctx, http.MethodGet, w.url, map[string]string{"Accept": "text/event-stream", "Mcp-Session-Id": s.id}, nil)
			if err != nil || stream.Status != 200 {
				fail("GET failed: %v", err)
				return
			}
			s.streams = append(s.streams, stream)
			if st.Reconnect {
				second, err := peer.OpenSSE(ctx, http.MethodGet, w.url, map[string]string{"Accept": "text/event-stream", "Mcp-Session-Id": s.id}, nil)
				if err != nil || second.Status != 200 {
					fail("second GET failed: %v", err)
					return
				}
				if !stream.WaitEOF(2 * time.Second) {
					fail("the older stream was not ended when the session opened a newer one")
					return
				}
				time.Sleep(20 * time.Millisecond) // the older handler has finished its exit path
				s.streams[len(s.streams)-1] = second
			}
			o.OK = true
		case "close":
			s := w.sess[st.S]
			before := 0
			if kind != "legacy" {
				before = mcp.VerifGetStreamCount(w.srv)
			}
			s.streams[len(s.streams)-1].Close()
			dl := time.Now().Add(2 * time.Second)
			for time.Now().Before(dl) {
				if kind == "legacy" {
					if err := w.lsrv.SendNotification(s.id, "notifications/probe", nil); err != nil && strings.Contains(err.Error(), "not found") {
						break
					}
				} else if mcp.VerifGetStreamCount(w.srv) < before {
					break
				}
				time.Sleep(time.Millisecond)
			}
			if kind == "legacy" {
				s.dead = true
			}
			o.OK = true
		case "delete":
			s := w.sess[st.S]
			r := peer.Do(ctx, http.MethodDelete, w.url, map[string]string{"Mcp-Session-Id": s.id}, nil)
			o.Status = r.Status
			o.OK = r.Status == 200
			s.dead = true
		case "notif":
			var err error
			if kind == "legacy" {
				err = w.lsrv.SendNotification(realID(st.S), "notifications/message", params)
			} else {
				err = w.srv.SendNotification(realID(st.S), "notifications/message", params)
			}
			o.OK = err == nil
			if err != nil {
				o.Err = err.Error()
			}
			want := 0
			if o.OK {
				want = 1
			}
			o.Reached = w.settle(nonce, want)
		case "bcast":
			n, err := w.srv.BroadcastNotification("notifications/message", params)
			o.Count = n
			o.OK = err == nil
			if err != nil {
				o.Err = err.Error()
			}
			o.Reached = w.settle(nonce, n)
		case "filtered":
			sel := map[string]bool{}
			for _, f := range st.F {
				sel[realID(f)] = true
			}
			n, _, err := w.srv.SendFilteredNotification("notifications/message", params, func(sid string) bool { return sel[sid] })
			o.Count = n
			o.OK = err == nil
			if err != nil {
				o.Err = err.Error()
			}
			o.Reached = w.settle(nonce, n)
		case "sreq_start":
			s := w.sess[st.S]
			ch := make(chan string, 1)
			w.calls[st.R] = ch
			if st.ID == "x" {
				// the server-side API called directly with a caller-chosen id (ids are scoped to a session)
				cctx, cancel := context.WithTimeout(ctx, 8*time.Second)
				w.mu.Lock()
				w.cancels[st.R] = cancel
				w.mu.Unlock()
				go func(sid string) {
					var raw *json.RawMessage
					var err error
					if kind == "legacy" {
						raw, err = w.lsrv.SendRequest(cctx, sid, &mcp.JSONRPCRequest{JSONRPC: "2.0", ID: int64(424242), Request: mcp.Request{Method: "roots/list"}})
					} else {
						raw, err = w.srv.SendRequest(cctx, sid, &mcp.JSONRPCRequest{JSONRPC: "2.0", ID: "dup-x", Request: mcp.Request{Method: "roots/list"}})
					}
					if err != nil {
						ch <- "ERR:" + err.Error()
						return
					}
					var lr struct {
						Roots []struct {
							Name string `json:"name"`
						} `json:"roots"`
					}
					json.Unmarshal(*raw, &lr)
					names := ""
					for _, r := range lr.Roots {
						names += r.Name
					}
					ch <- "ROOTS:" + names
				}(s.id)
			}
			callID := "call-" + st.R
			body, _ := json.Marshal(map[string]interface{}{"jsonrpc": "2.0", "id": callID, "method": "tools/call",
				"params": map[string]interface{}{"name": "askroots", "arguments": map[string]interface{}{"nonce": st.R}}})
			if st.ID == "x" {
				// nothing to post
			} else if kind == "legacy" {
				if r := w.post(ctx, s, body); r.Status != 202 {
					fail("tools/call status %d", r.Status)
					return
				}
				go func(stream *peer.Stream) {
					var text string
					stream.WaitFor(10*time.Second, func(raw []byte, eof bool) bool {
						evs, _ := peer.ParseSSE(raw)
						for _, e := range evs {
							if strings.Contains(e.Data, `"id":"`+callID+`"`) {
								text = e.Data
								return true
							}
						}
						return eof
					})
					ch <- text
				}(s.streams[len(s.streams)-1])
			} else {
				go func() {
					r := w.post(ctx, s, body)
					ch <- string(r.Body)
				}()
			}
			// the request frame must show up on SOME stream; note which
			var found json.RawMessage
			var on []string
			dl := time.Now().Add(2 * time.Second)
			for found == nil && time.Now().Before(dl) {
				cnt := map[string]int{}
				for name, ss := range w.sess {
					for _, stream := range ss.streams {
						for _, e := range stream.Events() {
							var m struct {
								ID     json.RawMessage `json:"id"`
								Method string          `json:"method"`
							}
							if json.Unmarshal([]byte(e.Data), &m) == nil && m.Method == "roots/list" {
								cnt[name+string(m.ID)]++
								key := fmt.Sprintf("%s|%s|%d", name, m.ID, cnt[name+string(m.ID)])
								if !w.seen[key] {
									w.seen[key] = true
									found = m.ID
									on = append(on, name)
								}
							}
						}
					}
				}
				if found == nil {
					time.Sleep(time.Millisecond)
				}
			}
			if found == nil {
				o.Err = "the roots/list request frame never appeared on any stream"
			} else {
				w.reqid[st.R] = found
				o.OK = true
				time.Sleep(5 * time.Millisecond)
				sort.Strings(on)
				o.Reached = on
			}
		case "answer":
			p := w.sess[st.S]
			rid := w.reqid[st.R]
			if rid == nil {
				res.Aborted = fmt.Sprintf("step %d answer: request %s was never seen on a stream, it has no id", i, st.R)
				return
			}
			body := fmt.Sprintf(`{"jsonrpc":"2.0","id":%s,"result":{"roots":[{"uri":"file:///from-%s","name":"from-%s"}]}}`, rid, st.S, st.S)
			r := w.post(ctx, p, []byte(body))
			o.Status = r.Status
			o.OK = r.Status == 202
			time.Sleep(5 * time.Millisecond) // the legacy server handles the message asynchronously
		case "sreq_return", "sreq_cancel":
			if st.Op == "sreq_cancel" {
				w.mu.Lock()
				c := w.cancels[st.R]
				w.mu.Unlock()
				if c != nil {
					c()
				}
			}
			select {
			case text := <-w.calls[st.R]:
				switch {
				case strings.Contains(text, "ROOTS:"):
					o.OK = true
					if m := regexp.MustCompile(`ROOTS:from-(s[0-9]+)`).FindStringSubmatch(text); m != nil {
						o.From = m[1]
					} else {
						o.From = "?"
					}
				case strings.Contains(text, "ERR:"):
					o.From = "error"
					o.Err = text
				default:
					o.From = "lost"
					o.Err = text
				}
			case <-time.After(3 * time.Second):
				o.From = "hang"
			}
		default:
			fail("unknown op")
			return
		}
		o.Pending = w.pending()
		res.Obs = append(res.Obs, o)
	}
	time.Sleep(10 * time.Millisecond)
	for name, s := range w.sess {
		var tags []string
		for _, stream := range s.streams {
			for _, e := range stream.Events() {
				if m := c05DataRe.FindStringSubmatch(e.Data); m != nil {
					tags = append(tags, m[1])
				} else if strings.Contains(e.Data, `"roots/list"`) {
					tags = append(tags, "req")
				}
			}
		}
		if tags == nil {
			tags = []string{}
		}
		res.Frames[name] = tags
	}
	res.Pending = w.pending()
	return
}

func init() {
	register("c05", func(args []string) int {
		var in struct {
			Kind  string `json:"kind"`
			Paths []struct {
				ID    string    `json:"id"`
				Steps []c05Step `json:"steps"`
			} `json:"paths"`
		}
		readInput(&in)
		out := struct {
			Results []c05Result `json:"results"`
		}{}
		for _, p := range in.Paths {
			out.Results = append(out.Results, c05Run(in.Kind, p.ID, p.Steps))
		}
		writeOutput(out)
		return 0
	})
}
