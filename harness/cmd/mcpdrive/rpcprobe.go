package main

// rpcprobe: a raw reference peer sends arbitrary request bytes to a real server of any kind / mode and
// reports, per item, the HTTP status and every frame that came back; after the batch it checks that the
// server still serves (same session and a fresh one) and how many library goroutines remain.
// Shared by C03 (well-formedness), C06 (robustness) and C14 (transport parity).

import (
	"bufio"
	"bytes"
	"context"
	"encoding/base64"
	"encoding/json"
	"fmt"
	"io"
	"math"
	"net"
	"net/http"
	"net/http/httptest"
	"runtime"
	"strings"
	"time"

	mcp "trpc.group/trpc-go/trpc-mcp-go"
	"verifharness/internal/peer"
)

type probeItem struct {
	ID      string            `json:"id"`
	Body    string            `json:"body,omitempty"`
	BodyB64 string            `json:"body_b64,omitempty"`
	Method  string            `json:"http_method,omitempty"`   // default POST
	Path    string            `json:"path,omitempty"`          // default: the server's path
	Headers map[string]string `json:"headers,omitempty"`       // value "-" removes a default header
	Session string            `json:"session,omitempty"`       // "" own | "none" | "garbage"
	SSE     bool              `json:"sse,omitempty"`           // Accept: also text/event-stream
	RawHTTP string            `json:"raw_http,omitempty"`      // complete raw request bytes (overrides everything else)
	Expect  bool              `json:"expect_answer,omitempty"` // on stream transports: wait longer for the first frame
}

type probeObs struct {
	ID      string   `json:"id"`
	Status  int      `json:"status"`
	CType   string   `json:"ctype,omitempty"`
	Frames  []string `json:"frames"`
	RawBody string   `json:"raw_body,omitempty"`
	Err     string   `json:"err,omitempty"`
	Ms      float64  `json:"ms"`
}

type probeHealth struct {
	SameSessionPing  bool   `json:"same_session_ping"`
	FreshSessionPing bool   `json:"fresh_session_ping"`
	Note             string `json:"note,omitempty"`
	LibGoroutines0   int    `json:"lib_goroutines_before"`
	LibGoroutines1   int    `json:"lib_goroutines_after"`
	Leaked           string `json:"leaked_sample,omitempty"`
}

func libGoroutines() (int, string) {
	buf := make([]byte, 4<<20)
	n := runtime.Stack(buf, true)
	count := 0
	sample := ""
	for _, g := range strings.Split(string(buf[:n]), "\n\n") {
		if strings.Contains(g, "trpc-mcp-go.") && !strings.Contains(g, "cleanupExpiredSessions") && !strings.Contains(g, "verifharness") && !strings.Contains(g, "main.") {
			count++
			if sample == "" {
				sample = g
			}
		}
	}
	if len(sample) > 1500 {
		sample = sample[:1500]
	}
	return count, sample
}

func registerRich(regTool func(*mcp.Tool, func(context.Context, *mcp.CallToolRequest) (*mcp.CallToolResult, error)),
	regPrompt func(*mcp.Prompt, func(context.Context, *mcp.GetPromptRequest) (*mcp.GetPromptResult, error)),
	regRes func(*mcp.Resource, func(context.Context, *mcp.ReadResourceRequest) (mcp.ResourceContents, error)),
	regMulti func(*mcp.Resource, func(context.Context, *mcp.ReadResourceRequest) ([]mcp.ResourceContents, error)), set string) {
	if set == "empty" {
		return
	}
	// multi-contents handlers: two items, and a list one of whose items is nil
	regMulti(&mcp.Resource{URI: "r://multi", Name: "multi"}, func(ctx context.Context, req *mcp.ReadResourceRequest) ([]mcp.ResourceContents, error) {
		return []mcp.ResourceContents{mcp.TextResourceContents{URI: "r://multi", Text: "M1"}, mcp.BlobResourceContents{URI: "r://multi#2", Blob: "AAEC"}}, nil
	})
	regMulti(&mcp.Resource{URI: "r://multi-nil", Name: "multi-nil"}, func(ctx context.Context, req *mcp.ReadResourceRequest) ([]mcp.ResourceContents, error) {
		return []mcp.ResourceContents{mcp.TextResourceContents{URI: "r://multi-nil", Text: "M1"}, nil}, nil
	})
	nonce := func(req *mcp.CallToolRequest) string { n, _ := req.Params.Arguments["nonce"].(string); return n }
	regTool(mcp.NewTool("echo", mcp.WithDescription("echo tool"), mcp.WithString("nonce")), func(ctx context.Context, req *mcp.CallToolRequest) (*mcp.CallToolResult, error) {
		return mcp.NewTextResult("T:" + nonce(req)), nil
	})
	regTool(mcp.NewTool("t-err"), func(ctx context.Context, req *mcp.CallToolRequest) (*mcp.CallToolResult, error) {
		return nil, fmt.Errorf("boom-%s", nonce(req))
	})
	regTool(mcp.NewTool("t-ctxerr"), func(ctx context.Context, req *mcp.CallToolRequest) (*mcp.CallToolResult, error) {
		// the handler's own backend call timed out: an ordinary handler error that happens to wrap a context error
		return nil, fmt.Errorf("boom-%s: backend: %w", nonce(req), context.DeadlineExceeded)
	})
	regTool(mcp.NewTool("t-iserr"), func(ctx context.Context, req *mcp.CallToolRequest) (*mcp.CallToolResult, error) {
		return mcp.NewErrorResult("soft-" + nonce(req)), nil
	})
	regTool(mcp.NewTool("t-nil"), func(ctx context.Context, req *mcp.CallToolRequest) (*mcp.CallToolResult, error) { return nil, nil })
	regTool(mcp.NewTool("t-nocontent"), func(ctx context.Context, req *mcp.CallToolRequest) (*mcp.CallToolResult, error) {
		return &mcp.CallToolResult{}, nil
	})
	regTool(mcp.NewTool("t-nan"), func(ctx context.Context, req *mcp.CallToolRequest) (*mcp.CallToolResult, error) {
		r := mcp.NewTextResult("nan")
		r.StructuredContent = map[string]interface{}{"x": math.NaN()}
		return r, nil
	})
	// t-num: what a handler that works with a numeric argument sees (JSON numbers are float64 for every transport)
	regTool(mcp.NewTool("t-num", mcp.WithNumber("x")), func(ctx context.Context, req *mcp.CallToolRequest) (*mcp.CallToolResult, error) {
		x, ok := req.Params.Arguments["x"].(float64)
		if !ok {
			return nil, fmt.Errorf("x is a %T, not a number", req.Params.Arguments["x"])
		}
		return mcp.NewTextResult(fmt.Sprintf("N:%.3f", x)), nil
	})
	regTool(mcp.NewTool("t-mixed"), func(ctx context.Context, req *mcp.CallToolRequest) (*mcp.CallToolResult, error) {
		return &mcp.CallToolResult{Content: []mcp.Content{mcp.NewTextContent("a"), mcp.NewImageContent("aGk=", "image/png"),
			mcp.NewEmbeddedResource(mcp.TextResourceContents{URI: "r://e", Text: "emb"})}}, nil
	})
	if set == "dup" {
		// the same names registered twice with different descriptions and handlers: the registries must agree on which one counts
		regTool(mcp.NewTool("echo", mcp.WithDescription("second registration of echo"), mcp.WithString("nonce")), func(ctx context.Context, req *mcp.CallToolRequest) (*mcp.CallToolResult, error) {
			return mcp.NewTextResult("SECOND:" + nonce(req)), nil
		})
		regPrompt(&mcp.Prompt{Name: "p-dup", Description: "first"}, func(ctx context.Context, req *mcp.GetPromptRequest) (*mcp.GetPromptResult, error) {
			return &mcp.GetPromptResult{Description: "first"}, nil
		})
		regPrompt(&mcp.Prompt{Name: "p-dup", Description: "second"}, func(ctx context.Context, req *mcp.GetPromptRequest) (*mcp.GetPromptResult, error) {
			return &mcp.GetPromptResult{Description: "second"}, nil
		})
		regRes(&mcp.Resource{URI: "r://dup", Name: "first"}, func(ctx context.Context, req *mcp.ReadResourceRequest) (mcp.ResourceContents, error) {
			return mcp.TextResourceContents{URI: "r://dup", Text: "first"}, nil
		})
		regRes(&mcp.Resource{URI: "r://dup", Name: "second"}, func(ctx context.Context, req *mcp.ReadResourceRequest) (mcp.ResourceContents, error) {
			return mcp.TextResourceContents{URI: "r://dup", Text: "second"}, nil
		})
	}
	if set == "set2" {
		regTool(mcp.NewTool("extra", mcp.WithDescription("only in set2")), func(ctx context.Context, req *mcp.CallToolRequest) (*mcp.CallToolResult, error) {
			return mcp.NewTextResult("extra"), nil
		})
	}
	regPrompt(&mcp.Prompt{Name: "p-ok", Description: "prompt", Arguments: []mcp.PromptArgument{{Name: "a", Required: true}}}, func(ctx context.Context, req *mcp.GetPromptRequest) (*mcp.GetPromptResult, error) {
		return &mcp.GetPromptResult{Description: "d", Messages: []mcp.PromptMessage{{Role: "user", Content: mcp.NewTextContent("P:" + req.Params.Arguments["a"])}}}, nil
	})
	regPrompt(&mcp.Prompt{Name: "p-err"}, func(ctx context.Context, req *mcp.GetPromptRequest) (*mcp.GetPromptResult, error) {
		return nil, fmt.Errorf("boom-prompt")
	})
	regPrompt(&mcp.Prompt{Name: "p-nil"}, func(ctx context.Context, req *mcp.GetPromptRequest) (*mcp.GetPromptResult, error) { return nil, nil })
	regRes(&mcp.Resource{URI: "r://ok", Name: "ok", MimeType: "text/plain"}, func(ctx context.Context, req *mcp.ReadResourceRequest) (mcp.ResourceContents, error) {
		return mcp.TextResourceContents{URI: "r://ok", MIMEType: "text/plain", Text: "R"}, nil
	})
	regRes(&mcp.Resource{URI: "r://err", Name: "err"}, func(ctx context.Context, req *mcp.ReadResourceRequest) (mcp.ResourceContents, error) {
		return nil, fmt.Errorf("boom-resource")
	})
	regRes(&mcp.Resource{URI: "r://blob", Name: "blob"}, func(ctx context.Context, req *mcp.ReadResourceRequest) (mcp.ResourceContents, error) {
		return mcp.BlobResourceContents{URI: "r://blob", MIMEType: "application/octet-stream", Blob: "AAEC"}, nil
	})
	regRes(&mcp.Resource{URI: "r://nil", Name: "nil"}, func(ctx context.Context, req *mcp.ReadResourceRequest) (mcp.ResourceContents, error) {
		return nil, nil
	})
}

type probeWorld struct {
	kind   string
	ts     *httptest.Server
	url    string
	path   string
	sid    string
	stream *peer.Stream // legacy
	msgURL string
	pw     *io.PipeWriter // stdio
	rec    *recorder
	cancel context.CancelFunc
	settle time.Duration
}

func newProbeWorld(kind, set string, settleMs int) (*probeWorld, error) {
	w := &probeWorld{kind: kind, settle: time.Duration(settleMs) * time.Millisecond}
	ctx := context.Background()
	switch kind {
	case "json", "sse", "stateless", "nosession":
		opts := []mcp.ServerOption{mcp.WithServerPath("/mcp"), mcp.WithServerLogger(silentLogger{}), mcp.WithPostSSEEnabled(kind == "sse")}
		if kind == "stateless" {
			opts = append(opts, mcp.WithStatelessMode(true))
		}
		if kind == "nosession" {
			opts = append(opts, mcp.WithoutSession())
		}
		srv := mcp.NewServer("verif", "1.0", opts...)
		registerRich(func(t *mcp.Tool, h func(context.Context, *mcp.CallToolRequest) (*mcp.CallToolResult, error)) {
			srv.RegisterTool(t, h)
		},
			func(p *mcp.Prompt, h func(context.Context, *mcp.GetPromptRequest) (*mcp.GetPromptResult, error)) {
				srv.RegisterPrompt(p, h)
			},
			func(r *mcp.Resource, h func(context.Context, *mcp.ReadResourceRequest) (mcp.ResourceContents, error)) {
				srv.RegisterResource(r, h)
			},
			func(r *mcp.Resource, h func(context.Context, *mcp.ReadResourceRequest) ([]mcp.ResourceContents, error)) {
				srv.RegisterResources(r, h)
			}, set)
		if set != "empty" {
			srv.RegisterResourceTemplate(mcp.NewResourceTemplate("r://tpl/{id}", "tpl"), func(ctx context.Context, req *mcp.ReadResourceRequest) ([]mcp.ResourceContents, error) {
				return []mcp.ResourceContents{mcp.TextResourceContents{URI: req.Params.URI, Text: "T"}}, nil
			})
		}
		w.ts = httptest.NewServer(srv.Handler())
		w.path = "/mcp"
		w.url = w.ts.URL + "/mcp"
		if kind == "json" || kind == "sse" {
			sid, err := peer.Handshake(ctx, w.url, nil)
			if err != nil {
				return nil, err
			}
			w.sid = sid
		}
	case "legacy":
		srv := mcp.NewSSEServer("verif", "1.0", mcp.WithSSEServerLogger(silentLogger{}), mcp.WithKeepAlive(false))
		registerRich(func(t *mcp.Tool, h func(context.Context, *mcp.CallToolRequest) (*mcp.CallToolResult, error)) {
			srv.RegisterTool(t, h)
		},
			func(p *mcp.Prompt, h func(context.Context, *mcp.GetPromptRequest) (*mcp.GetPromptResult, error)) {
				srv.RegisterPrompt(p, h)
			},
			func(r *mcp.Resource, h func(context.Context, *mcp.ReadResourceRequest) (mcp.ResourceContents, error)) {
				srv.RegisterResource(r, h)
			},
			func(r *mcp.Resource, h func(context.Context, *mcp.ReadResourceRequest) ([]mcp.ResourceContents, error)) {
				srv.RegisterResources(r, h)
			}, set)
		if set != "empty" {
			srv.RegisterResourceTemplate(mcp.NewResourceTemplate("r://tpl/{id}", "tpl"), func(ctx context.Context, req *mcp.ReadResourceRequest) ([]mcp.ResourceContents, error) {
				return []mcp.ResourceContents{mcp.TextResourceContents{URI: req.Params.URI, Text: "T"}}, nil
			})
		}
		w.ts = httptest.NewServer(srv)
		if err := w.legacyConnect(); err != nil {
			return nil, err
		}
	case "stdio":
		srv := mcp.NewStdioServer("verif", "1.0", mcp.WithStdioServerLogger(silentLogger{}))
		registerRich(func(t *mcp.Tool, h func(context.Context, *mcp.CallToolRequest) (*mcp.CallToolResult, error)) {
			srv.RegisterTool(t, h)
		},
			func(p *mcp.Prompt, h func(context.Context, *mcp.GetPromptRequest) (*mcp.GetPromptResult, error)) {
				srv.RegisterPrompt(p, h)
			},
			func(r *mcp.Resource, h func(context.Context, *mcp.ReadResourceRequest) (mcp.ResourceContents, error)) {
				srv.RegisterResource(r, h)
			},
			func(r *mcp.Resource, h func(context.Context, *mcp.ReadResourceRequest) ([]mcp.ResourceContents, error)) {
				srv.RegisterResources(r, h)
			}, set)
		if set != "empty" {
			srv.RegisterResourceTemplate(mcp.NewResourceTemplate("r://tpl/{id}", "tpl"), func(ctx context.Context, req *mcp.ReadResourceRequest) ([]mcp.ResourceContents, error) {
				return []mcp.ResourceContents{mcp.TextResourceContents{URI: req.Params.URI, Text: "T"}}, nil
			})
		}
		pr, pw := io.Pipe()
		w.pw = pw
		w.rec = &recorder{}
		sctx, cancel := context.WithCancel(ctx)
		w.cancel = cancel
		go func() {
			err := mcp.VerifServeStdio(sctx, srv, pr, w.rec)
			// a server that has stopped serving no longer reads: writes to it fail instead of blocking for ever
			pr.CloseWithError(fmt.Errorf("the stdio server stopped serving: %v", err))
		}()
		fmt.Fprintf(pw, "%s\n", peer.InitRequest("init"))
		dl := time.Now().Add(3 * time.Second)
		for !w.rec.contains("serverInfo") {
			if time.Now().After(dl) {
				return nil, fmt.Errorf("stdio: no answer to initialize")
			}
			time.Sleep(time.Millisecond)
		}
		fmt.Fprintf(pw, "%s\n", peer.InitializedNotification())
	default:
		return nil, fmt.Errorf("unknown kind %s", kind)
	}
	return w, nil
}

func (w *probeWorld) legacyConnect() error {
	ctx := context.Background()
	st, err := peer.OpenSSE(ctx, http.MethodGet, w.ts.URL+"/sse", map[string]string{"Accept": "text/event-stream"}, nil)
	if err != nil || st.Status != 200 {
		return fmt.Errorf("GET /sse failed: %v", err)
	}
	var endpoint string
	st.WaitFor(3*time.Second, func(raw []byte, eof bool) bool {
		evs, _ := peer.ParseSSE(raw)
		for _, e := range evs {
			if e.Event == "endpoint" {
				endpoint = e.Data
				return true
			}
		}
		return false
	})
	if endpoint == "" {
		return fmt.Errorf("no endpoint event")
	}
	w.stream = st
	w.msgURL = w.ts.URL + endpoint
	w.path = endpoint
	peer.PostJSON(ctx, w.msgURL, nil, peer.InitRequest("init"), false)
	st.WaitFor(3*time.Second, func(raw []byte, eof bool) bool { return bytes.Contains(raw, []byte("serverInfo")) })
	peer.PostJSON(ctx, w.msgURL, nil, peer.InitializedNotification(), false)
	time.Sleep(5 * time.Millisecond)
	return nil
}

func (w *probeWorld) close() {
	if w.stream != nil {
		w.stream.Close()
	}
	if w.cancel != nil {
		w.cancel()
		w.pw.Close()
	}
	if w.ts != nil {
		closeClientConns(w.ts)
		closeTS(w.ts)
	}
}

func bodyOf(it probeItem) []byte {
	if it.BodyB64 != "" {
		b, _ := base64.StdEncoding.DecodeString(it.BodyB64)
		return b
	}
	return []byte(it.Body)
}

// stream-based transports: frames that appear after the send; wait until one appears (or settle) and a little longer
func (w *probeWorld) newFrames(count func() []string, before int, expect bool) []string {
	deadline := time.Now().Add(w.settle)
	if expect {
		deadline = time.Now().Add(3 * time.Second)
	}
	for time.Now().Before(deadline) {
		if len(count()) > before {
			break
		}
		time.Sleep(500 * time.Microsecond)
	}
	time.Sleep(3 * time.Millisecond)
	all := count()
	out := append([]string{}, all[before:]...)
	return out
}

func (w *probeWorld) send(it probeItem) (o probeObs) {
	o.ID = it.ID
	o.Frames = []string{}
	t0 := time.Now()
	defer func() { o.Ms = float64(time.Since(t0)) / float64(time.Millisecond) }()
	ctx, cancel := context.WithTimeout(context.Background(), 5*time.Second)
	defer cancel()
	body := bodyOf(it)
	switch w.kind {
	case "stdio":
		lines := func() []string {
			_, all := w.rec.snapshot()
			ls := strings.Split(all, "\n")
			return ls[:len(ls)-1]
		}
		before := len(lines())
		if _, err := w.pw.Write(append(append([]byte{}, body...), '\n')); err != nil {
			o.Err = err.Error()
			o.Status = -1
			return
		}
		o.Frames = w.newFrames(lines, before, it.Expect)
		o.Status = -1
		return
	case "legacy":
		msgs := func() []string {
			var out []string
			for _, e := range w.stream.Events() {
				if e.Event == "message" {
					out = append(out, e.Data)
				}
			}
			return out
		}
		before := len(msgs())
		url := w.msgURL
		if it.Path != "" {
			url = w.ts.URL + it.Path
		}
		if it.Session == "none" {
			url = w.ts.URL + "/message"
		} else if it.Session == "garbage" {
			url = w.ts.URL + "/message?sessionId=not-a-session"
		}
		r := w.do(ctx, it, url, body)
		o.Status, o.CType, o.Err = r.Status, r.Header.Get("Content-Type"), errText(r.Err)
		if len(bytes.TrimSpace(r.Body)) > 0 {
			if json.Valid(r.Body) {
				o.Frames = append(o.Frames, string(bytes.TrimSpace(r.Body)))
			} else {
				o.RawBody = trunc(string(r.Body))
			}
		}
		if r.Status == 202 {
			o.Frames = append(o.Frames, w.newFrames(msgs, before, it.Expect)...)
		}
		return
	}
	url := w.url
	if it.Path != "" {
		url = w.ts.URL + it.Path
	}
	r := w.do(ctx, it, url, body)
	o.Status, o.Err = r.Status, errText(r.Err)
	if r.Header != nil {
		o.CType = r.Header.Get("Content-Type")
	}
	if strings.Contains(o.CType, "event-stream") {
		evs, _ := peer.ParseSSE(r.Body)
		for _, e := range evs {
			o.Frames = append(o.Frames, e.Data)
		}
	} else if len(bytes.TrimSpace(r.Body)) > 0 {
		if json.Valid(r.Body) {
			o.Frames = append(o.Frames, string(bytes.TrimSpace(r.Body)))
		} else {
			o.RawBody = trunc(string(r.Body))
		}
	}
	return
}

func trunc(s string) string {
	if len(s) > 300 {
		return s[:300]
	}
	return s
}

func errText(err error) string {
	if err == nil {
		return ""
	}
	return err.Error()
}

func (w *probeWorld) do(ctx context.Context, it probeItem, url string, body []byte) peer.Resp {
	if it.RawHTTP != "" {
		return rawHTTP(w.ts.Listener.Addr().String(), strings.ReplaceAll(it.RawHTTP, "{SID}", w.sid))
	}
	h := map[string]string{"Content-Type": "application/json", "Accept": "application/json"}
	if it.SSE {
		h["Accept"] = "application/json, text/event-stream"
	}
	switch it.Session {
	case "":
		if w.sid != "" {
			h["Mcp-Session-Id"] = w.sid
		}
	case "garbage":
		h["Mcp-Session-Id"] = "not-a-session"
	}
	for k, v := range it.Headers {
		if v == "-" {
			delete(h, k)
		} else {
			h[k] = v
		}
	}
	m := it.Method
	if m == "" {
		m = http.MethodPost
	}
	return peer.Do(ctx, m, url, h, body)
}

// rawHTTP writes raw bytes on a fresh TCP connection and parses whatever answer comes back.
func rawHTTP(addr, raw string) peer.Resp {
	conn, err := net.DialTimeout("tcp", addr, 2*time.Second)
	if err != nil {
		return peer.Resp{Err: err}
	}
	defer conn.Close()
	conn.SetDeadline(time.Now().Add(2 * time.Second))
	conn.Write([]byte(raw))
	if tc, ok := conn.(*net.TCPConn); ok {
		tc.CloseWrite()
	}
	data, _ := io.ReadAll(conn)
	if len(data) == 0 {
		return peer.Resp{Status: 0, Err: fmt.Errorf("connection closed without an answer")}
	}
	resp, err := http.ReadResponse(bufioReader(data), nil)
	if err != nil {
		return peer.Resp{Status: 0, Err: fmt.Errorf("unparsable HTTP answer: %q", trunc(string(data)))}
	}
	defer resp.Body.Close()
	b, _ := io.ReadAll(resp.Body)
	return peer.Resp{Status: resp.StatusCode, Header: resp.Header, Body: b}
}

func (w *probeWorld) ping(fresh bool) (bool, string) {
	if fresh {
		w2 := &probeWorld{kind: w.kind, ts: w.ts, url: w.url, path: w.path, settle: 500 * time.Millisecond}
		switch w.kind {
		case "stdio":
			w2 = w
		case "legacy":
			if err := w2.legacyConnect(); err != nil {
				return false, "fresh connection: " + err.Error()
			}
			defer w2.stream.Close()
		case "json", "sse":
			sid, err := peer.Handshake(context.Background(), w.url, nil)
			if err != nil {
				return false, "fresh handshake: " + err.Error()
			}
			w2.sid = sid
		}
		return w2.ping(false)
	}
	save := w.settle
	w.settle = 1500 * time.Millisecond
	o := w.send(probeItem{ID: "ping", Body: `{"jsonrpc":"2.0","id":"health","method":"ping"}`, Expect: true})
	w.settle = save
	for _, f := range o.Frames {
		if strings.Contains(f, `"health"`) && strings.Contains(f, `"result"`) {
			return true, ""
		}
	}
	return false, fmt.Sprintf("ping answered status %d frames %v err %s", o.Status, o.Frames, o.Err)
}

func init() {
	register("rpcprobe", func(args []string) int {
		var in struct {
			Kind     string      `json:"kind"`
			Set      string      `json:"set"`
			SettleMs int         `json:"settle_ms"`
			Items    []probeItem `json:"items"`
		}
		readInput(&in)
		if in.SettleMs == 0 {
			in.SettleMs = 80
		}
		g0, _ := libGoroutines()
		w, err := newProbeWorld(in.Kind, in.Set, in.SettleMs)
		if err != nil {
			die("world: %v", err)
		}
		time.Sleep(20 * time.Millisecond)
		g0, _ = libGoroutines()
		out := struct {
			Obs    []probeObs  `json:"obs"`
			Health probeHealth `json:"health"`
		}{}
		hangs := 0
		for _, it := range in.Items {
			if hangs >= 3 {
				// the server has stopped answering: do not spend the whole bound on every remaining item
				out.Obs = append(out.Obs, probeObs{ID: it.ID, Frames: []string{}, Err: "skipped after repeated timeouts: context deadline exceeded"})
				continue
			}
			o := w.send(it)
			if strings.Contains(o.Err, "deadline exceeded") || strings.Contains(o.Err, "Timeout") {
				hangs++
			} else {
				hangs = 0
			}
			out.Obs = append(out.Obs, o)
		}
		ok1, n1 := w.ping(false)
		ok2, n2 := w.ping(true)
		out.Health.SameSessionPing, out.Health.FreshSessionPing = ok1, ok2
		out.Health.Note = strings.TrimSpace(n1 + " " + n2)
		// quiescence: idle connections closed, then count what the library still runs
		if w.ts != nil {
			peer.Client.CloseIdleConnections()
		}
		time.Sleep(150 * time.Millisecond)
		g1, sample := libGoroutines()
		out.Health.LibGoroutines0, out.Health.LibGoroutines1 = g0, g1
		if g1 > g0 {
			out.Health.Leaked = sample
		}
		w.close()
		writeOutput(out)
		return 0
	})
}

func bufioReader(data []byte) *bufio.Reader { return bufio.NewReader(bytes.NewReader(data)) }
