package main

// C12: randomized concurrent workloads on the registries of a real server, recorded as black-box
// invoke/return histories (ordered by the harness mutex at the moment each mark is taken) for the
// linearizability check in TLA+ (TraceRegistry). A data-race crash of the process is reported by the caller.

import (
	"context"
	"encoding/json"
	"fmt"
	"math/rand"
	"net/http/httptest"
	"os"
	"runtime"
	"sort"
	"strings"
	"sync"
	"sync/atomic"
	"time"

	mcp "trpc.group/trpc-go/trpc-mcp-go"
	"verifharness/internal/peer"
)

type c12Result struct {
	ID      string                   `json:"id"`
	Kind    string                   `json:"kind"`
	Trace   []map[string]interface{} `json:"trace"`
	NotifOK bool                     `json:"notif_ok"`
	Notes   string                   `json:"notes,omitempty"`
}

type c12Step struct {
	Op string `json:"op"` // reg unreg lstart lend call
	N  string `json:"n,omitempty"`
}

// c12Reuse: an entry is registered again with the SAME descriptor value (pointer) and a new handler: the new handler serves it.
func c12Reuse() []map[string]interface{} {
	srv := mcp.NewServer("verif", "1.0", mcp.WithServerPath("/mcp"), mcp.WithServerLogger(silentLogger{}), mcp.WithStatelessMode(true), mcp.WithPostSSEEnabled(false))
	ts := httptest.NewServer(srv.Handler())
	defer func() { closeClientConns(ts); closeTS(ts) }()
	url := ts.URL + "/mcp"
	ctx := context.Background()
	text := func(body string) string {
		r := peer.PostJSON(ctx, url, nil, []byte(body), false)
		return string(r.Body)
	}
	tool := mcp.NewTool("same", mcp.WithDescription("d"))
	prompt := &mcp.Prompt{Name: "same", Description: "d"}
	res := &mcp.Resource{URI: "r://same", Name: "same"}
	out := []map[string]interface{}{}
	for _, v := range []string{"first", "second", "third"} {
		v := v
		srv.RegisterTool(tool, func(ctx context.Context, req *mcp.CallToolRequest) (*mcp.CallToolResult, error) {
			return mcp.NewTextResult("H-" + v), nil
		})
		srv.RegisterPrompt(prompt, func(ctx context.Context, req *mcp.GetPromptRequest) (*mcp.GetPromptResult, error) {
			return &mcp.GetPromptResult{Description: "H-" + v, Messages: []mcp.PromptMessage{}}, nil
		})
		srv.RegisterResource(res, func(ctx context.Context, req *mcp.ReadResourceRequest) (mcp.ResourceContents, error) {
			return mcp.TextResourceContents{URI: "r://same", Text: "H-" + v}, nil
		})
		for kind, body := range map[string]string{
			"tools":     `{"jsonrpc":"2.0","id":2,"method":"tools/call","params":{"name":"same","arguments":{}}}`,
			"prompts":   `{"jsonrpc":"2.0","id":2,"method":"prompts/get","params":{"name":"same"}}`,
			"resources": `{"jsonrpc":"2.0","id":2,"method":"resources/read","params":{"uri":"r://same"}}`} {
			ans := text(body)
			out = append(out, map[string]interface{}{"kind": kind, "registered": v, "served_by_it": strings.Contains(ans, "H-"+v), "answer": fmt.Sprintf("%.200s", ans)})
		}
	}
	return out
}

// c12SameNew: several goroutines register the same, not yet registered entry at the same moment, again and again with fresh names:
// whatever the order, the entry is listed once.
func c12SameNew(rounds, workers int) []map[string]interface{} {
	srv := mcp.NewServer("verif", "1.0", mcp.WithServerPath("/mcp"), mcp.WithServerLogger(silentLogger{}), mcp.WithStatelessMode(true), mcp.WithPostSSEEnabled(false))
	ts := httptest.NewServer(srv.Handler())
	defer func() { closeClientConns(ts); closeTS(ts) }()
	for r := 0; r < rounds; r++ {
		name := fmt.Sprintf("same%d", r)
		start := make(chan struct{})
		var wg sync.WaitGroup
		for g := 0; g < workers; g++ {
			wg.Add(1)
			go func(g int) {
				defer wg.Done()
				<-start
				switch g % 3 {
				case 0:
					srv.RegisterResource(&mcp.Resource{URI: "r://" + name, Name: name}, func(ctx context.Context, req *mcp.ReadResourceRequest) (mcp.ResourceContents, error) {
						return mcp.TextResourceContents{URI: "r://" + name, Text: "x"}, nil
					})
				case 1:
					srv.RegisterTool(mcp.NewTool(name), func(ctx context.Context, req *mcp.CallToolRequest) (*mcp.CallToolResult, error) {
						return mcp.NewTextResult("x"), nil
					})
				default:
					srv.RegisterPrompt(&mcp.Prompt{Name: name}, func(ctx context.Context, req *mcp.GetPromptRequest) (*mcp.GetPromptResult, error) {
						return &mcp.GetPromptResult{Messages: []mcp.PromptMessage{}}, nil
					})
				}
			}(g)
		}
		close(start)
		waitOrDeadlock(wg.Wait, 30*time.Second, "simultaneous registrations of one entry")
	}
	out := []map[string]interface{}{}
	for kind, method := range map[string]string{"tools": "tools/list", "prompts": "prompts/list", "resources": "resources/list"} {
		r := peer.PostJSON(context.Background(), ts.URL+"/mcp", nil, []byte(fmt.Sprintf(`{"jsonrpc":"2.0","id":1,"method":"%s"}`, method)), false)
		var m struct {
			Result map[string][]struct {
				Name string `json:"name"`
				URI  string `json:"uri"`
			} `json:"result"`
		}
		json.Unmarshal(r.Body, &m)
		count := map[string]int{}
		total := 0
		for _, l := range m.Result {
			for _, e := range l {
				k := e.Name
				if e.URI != "" {
					k = e.URI
				}
				count[k]++
				total++
			}
		}
		dup := []string{}
		for k, c := range count {
			if c > 1 {
				dup = append(dup, fmt.Sprintf("%s x%d", k, c))
			}
		}
		sort.Strings(dup)
		if len(dup) > 5 {
			dup = dup[:5]
		}
		out = append(out, map[string]interface{}{"kind": kind, "listed": total, "distinct": len(count), "expected": rounds, "duplicates": dup})
	}
	return out
}

// waitOrDeadlock waits for a workload; when it does not finish and goroutines are blocked on a lock inside the library, the
// process dies the way a deadlocked program is reported (the registry operations of the statement always complete).
func waitOrDeadlock(wait func(), d time.Duration, what string) {
	done := make(chan struct{})
	go func() { wait(); close(done) }()
	select {
	case <-done:
		return
	case <-time.After(d):
	}
	buf := make([]byte, 8<<20)
	n := runtime.Stack(buf, true)
	var blocked []string
	for _, g := range strings.Split(string(buf[:n]), "\n\n") {
		if strings.Contains(g, "trpc-mcp-go.") && (strings.Contains(g, "sync.(*RWMutex)") || strings.Contains(g, "sync.(*Mutex)")) {
			blocked = append(blocked, g)
		}
	}
	if len(blocked) == 0 {
		fmt.Fprintf(os.Stderr, "watchdog: %s did not finish within %v, and no library goroutine is blocked on a lock\n", what, d)
		os.Exit(4)
	}
	if len(blocked) > 4 {
		blocked = blocked[:4]
	}
	fmt.Fprintf(os.Stderr, "fatal error: deadlock (verif watchdog): %s did not finish within %v; goroutines blocked on a lock inside the library:\n\n%s\n", what, d, strings.Join(blocked, "\n\n"))
	os.Exit(2)
}

func c12Run(id, kind string, seed int64, nworkers, nops, stormMs int) (res c12Result) {
	return c12RunSched(id, kind, seed, nworkers, nops, stormMs, nil)
}

func c12RunSched(id, kind string, seed int64, nworkers, nops, stormMs int, sched []c12Step) (res c12Result) {
	res.ID, res.Kind = id, kind
	rnd := rand.New(rand.NewSource(seed))
	srv := mcp.NewServer("verif", "1.0", mcp.WithServerPath("/mcp"), mcp.WithServerLogger(silentLogger{}), mcp.WithStatelessMode(true), mcp.WithPostSSEEnabled(false))
	ts := httptest.NewServer(srv.Handler())
	defer func() { closeClientConns(ts); closeTS(ts) }()
	url := ts.URL + "/mcp"
	ctx := context.Background()
	var mu sync.Mutex
	var trace []map[string]interface{}
	ev := func(m map[string]interface{}) { mu.Lock(); trace = append(trace, m); mu.Unlock() }
	var version int64
	names := []string{"n1", "n2", "n3"}
	register := func(n string, v int) {
		vs := fmt.Sprintf("v%d", v)
		switch kind {
		case "tools":
			srv.RegisterTool(mcp.NewTool(n, mcp.WithDescription(vs)), func(ctx context.Context, req *mcp.CallToolRequest) (*mcp.CallToolResult, error) {
				return mcp.NewTextResult(vs), nil
			})
		case "prompts":
			srv.RegisterPrompt(&mcp.Prompt{Name: n, Description: vs}, func(ctx context.Context, req *mcp.GetPromptRequest) (*mcp.GetPromptResult, error) {
				return &mcp.GetPromptResult{Description: vs, Messages: []mcp.PromptMessage{}}, nil
			})
		case "resources":
			// the display name changes with every registration; the URI is the entry's identity
			srv.RegisterResource(&mcp.Resource{URI: "r://" + n, Name: n + " (" + vs + ")", Description: vs}, func(ctx context.Context, req *mcp.ReadResourceRequest) (mcp.ResourceContents, error) {
				return mcp.TextResourceContents{URI: "r://" + n, Text: vs}, nil
			})
		}
	}
	post := func(body string) []byte {
		r := peer.PostJSON(ctx, url, nil, []byte(body), false)
		return r.Body
	}
	parseV := func(s string) int {
		v := 0
		if i := strings.Index(s, "v"); i >= 0 {
			fmt.Sscanf(s[i:], "v%d", &v)
		}
		return v
	}
	list := func() [][]interface{} {
		method := map[string]string{"tools": "tools/list", "prompts": "prompts/list", "resources": "resources/list"}[kind]
		b := post(fmt.Sprintf(`{"jsonrpc":"2.0","id":1,"method":"%s"}`, method))
		var m struct {
			Result map[string][]struct {
				Name        string `json:"name"`
				URI         string `json:"uri"`
				Description string `json:"description"`
			} `json:"result"`
		}
		json.Unmarshal(b, &m)
		out := [][]interface{}{}
		for _, l := range m.Result {
			for _, e := range l {
				if e.URI != "" {
					e.Name = strings.TrimPrefix(e.URI, "r://")
				}
				out = append(out, []interface{}{e.Name, parseV(e.Description)})
			}
		}
		return out
	}
	call := func(n string) int {
		var body string
		switch kind {
		case "tools":
			body = fmt.Sprintf(`{"jsonrpc":"2.0","id":2,"method":"tools/call","params":{"name":"%s","arguments":{}}}`, n)
		case "prompts":
			body = fmt.Sprintf(`{"jsonrpc":"2.0","id":2,"method":"prompts/get","params":{"name":"%s"}}`, n)
		case "resources":
			body = fmt.Sprintf(`{"jsonrpc":"2.0","id":2,"method":"resources/read","params":{"uri":"r://%s"}}`, n)
		}
		b := post(body)
		var m struct {
			Result json.RawMessage `json:"result"`
			Error  *struct {
				Code int `json:"code"`
			} `json:"error"`
		}
		json.Unmarshal(b, &m)
		if m.Error != nil || m.Result == nil {
			return 0
		}
		return parseV(string(m.Result))
	}
	if sched != nil {
		// forced schedule: the lister is parked inside its loop (hook gate) while the other operations are issued
		gateCh := make(chan struct{})
		var gateOn, parked int32
		mcp.VerifSetHook(func(point string, kv ...interface{}) {
			if point == "reg.list.item" && atomic.LoadInt32(&gateOn) == 1 && atomic.CompareAndSwapInt32(&parked, 0, 1) {
				<-gateCh
			}
		})
		defer mcp.VerifSetHook(nil)
		var swg sync.WaitGroup
		listerDone := make(chan struct{})
		nop := 0
		released := false
		for _, st := range sched {
			nop++
			opid := fmt.Sprintf("s%d", nop)
			switch st.Op {
			case "lstart":
				atomic.StoreInt32(&gateOn, 1)
				swg.Add(1)
				go func() {
					defer swg.Done()
					defer close(listerDone)
					ev(map[string]interface{}{"e": "inv", "op": opid, "k": "list", "n": "-", "v": 0})
					r := list()
					ev(map[string]interface{}{"e": "ret", "op": opid, "res": r})
				}()
				dl := time.Now().Add(300 * time.Millisecond)
				for atomic.LoadInt32(&parked) == 0 && time.Now().Before(dl) {
					select {
					case <-listerDone:
						dl = time.Now()
					default:
						time.Sleep(200 * time.Microsecond)
					}
				}
			case "lend":
				atomic.StoreInt32(&gateOn, 0)
				if !released {
					close(gateCh)
					released = true
				}
				select {
				case <-listerDone:
				case <-time.After(3 * time.Second):
				}
			case "reg", "unreg", "call":
				done := make(chan struct{})
				swg.Add(1)
				go func(st c12Step) {
					defer swg.Done()
					defer close(done)
					switch st.Op {
					case "reg":
						v := int(atomic.AddInt64(&version, 1))
						ev(map[string]interface{}{"e": "inv", "op": opid, "k": "reg", "n": st.N, "v": v})
						register(st.N, v)
						ev(map[string]interface{}{"e": "ret", "op": opid})
					case "unreg":
						ev(map[string]interface{}{"e": "inv", "op": opid, "k": "unreg", "n": st.N, "v": 0})
						srv.UnregisterTools(st.N)
						ev(map[string]interface{}{"e": "ret", "op": opid})
					case "call":
						ev(map[string]interface{}{"e": "inv", "op": opid, "k": "call", "n": st.N, "v": 0})
						r := call(st.N)
						ev(map[string]interface{}{"e": "ret", "op": opid, "res": r})
					}
				}(st)
				select {
				case <-done:
				case <-time.After(25 * time.Millisecond): // blocked by the lister's lock: fine, it completes later
				}
			}
		}
		atomic.StoreInt32(&gateOn, 0)
		if !released {
			close(gateCh)
		}
		waitOrDeadlock(swg.Wait, 30*time.Second, "the forced registry schedule")
		res.NotifOK = true
		res.Trace = trace
		return
	}
	// plan per worker
	type op struct {
		k, n string
	}
	plans := make([][]op, nworkers)
	for w := range plans {
		for i := 0; i < nops; i++ {
			n := names[rnd.Intn(len(names))]
			switch x := rnd.Intn(10); {
			case x < 3:
				plans[w] = append(plans[w], op{"reg", n})
			case x < 4 && kind == "tools":
				plans[w] = append(plans[w], op{"unreg", n})
			case x < 7:
				plans[w] = append(plans[w], op{"list", "-"})
			default:
				plans[w] = append(plans[w], op{"call", n})
			}
		}
	}
	var wg sync.WaitGroup
	for w := 0; w < nworkers; w++ {
		wg.Add(1)
		go func(w int) {
			defer wg.Done()
			for i, o := range plans[w] {
				opid := fmt.Sprintf("w%d-%d", w, i)
				switch o.k {
				case "reg":
					v := int(atomic.AddInt64(&version, 1))
					ev(map[string]interface{}{"e": "inv", "op": opid, "k": "reg", "n": o.n, "v": v})
					register(o.n, v)
					ev(map[string]interface{}{"e": "ret", "op": opid})
				case "unreg":
					ev(map[string]interface{}{"e": "inv", "op": opid, "k": "unreg", "n": o.n, "v": 0})
					srv.UnregisterTools(o.n)
					ev(map[string]interface{}{"e": "ret", "op": opid})
				case "list":
					ev(map[string]interface{}{"e": "inv", "op": opid, "k": "list", "n": "-", "v": 0})
					r := list()
					ev(map[string]interface{}{"e": "ret", "op": opid, "res": r})
				case "call":
					ev(map[string]interface{}{"e": "inv", "op": opid, "k": "call", "n": o.n, "v": 0})
					r := call(o.n)
					ev(map[string]interface{}{"e": "ret", "op": opid, "res": r})
				}
			}
		}(w)
	}
	// notification-handler registry under load (crash / lost-notification check only)
	var got int64
	srv.RegisterNotificationHandler("notifications/stable", func(ctx context.Context, n *mcp.JSONRPCNotification) error {
		atomic.AddInt64(&got, 1)
		return nil
	})
	const sent = 40
	wg.Add(2)
	go func() {
		defer wg.Done()
		for i := 0; i < sent; i++ {
			m := fmt.Sprintf("notifications/churn%d", i%3)
			srv.RegisterNotificationHandler(m, func(ctx context.Context, n *mcp.JSONRPCNotification) error { return nil })
			srv.UnregisterNotificationHandler(m)
		}
	}()
	go func() {
		defer wg.Done()
		for i := 0; i < sent; i++ {
			peer.PostJSON(ctx, url, nil, []byte(`{"jsonrpc":"2.0","method":"notifications/stable"}`), false)
			peer.PostJSON(ctx, url, nil, []byte(fmt.Sprintf(`{"jsonrpc":"2.0","method":"notifications/churn%d"}`, i%3)), false)
		}
	}()
	waitOrDeadlock(wg.Wait, 30*time.Second, "the registry workload")
	// crash storm: tight re-registration against tight readers (a missing lock on a read path kills the process)
	if stormMs > 0 {
		stop := make(chan struct{})
		var sw sync.WaitGroup
		for g := 0; g < 2; g++ {
			sw.Add(1)
			go func(g int) {
				defer sw.Done()
				for i := 0; ; i++ {
					select {
					case <-stop:
						return
					default:
					}
					register(fmt.Sprintf("storm%d-%d", g, i%64), int(atomic.AddInt64(&version, 1)))
					if kind == "tools" && i%3 == 0 {
						srv.UnregisterTools(fmt.Sprintf("storm%d-%d", g, (i+7)%64))
					}
				}
			}(g)
		}
		for g := 0; g < 6; g++ {
			sw.Add(1)
			go func(g int) {
				defer sw.Done()
				for i := 0; ; i++ {
					select {
					case <-stop:
						return
					default:
					}
					if i%2 == 0 {
						call(names[i%3])
					} else {
						list()
					}
				}
			}(g)
		}
		time.Sleep(time.Duration(stormMs) * time.Millisecond)
		close(stop)
		waitOrDeadlock(sw.Wait, 30*time.Second, "the re-registration storm")
	}
	res.NotifOK = atomic.LoadInt64(&got) == sent
	if !res.NotifOK {
		res.Notes = fmt.Sprintf("stable notification handler ran %d times for %d notifications", got, sent)
	}
	res.Trace = trace
	return
}

func init() {
	register("c12", func(args []string) int {
		var in struct {
			Seed    int64    `json:"seed"`
			Runs    int      `json:"runs"`
			Workers int      `json:"workers"`
			Ops     int      `json:"ops"`
			Kinds   []string `json:"kinds"`
			StormMs int      `json:"storm_ms"`
			Notif   bool     `json:"notif"`
			Scheds  []struct {
				Kind  string    `json:"kind"`
				Steps []c12Step `json:"steps"`
			} `json:"scheds"`
		}
		readInput(&in)
		out := struct {
			Results []c12Result              `json:"results"`
			Notif   []c12NotifOut            `json:"notif,omitempty"`
			Reuse   []map[string]interface{} `json:"reuse,omitempty"`
			SameNew []map[string]interface{} `json:"same_new,omitempty"`
		}{}
		if in.Notif {
			out.Notif = append(out.Notif, c12Notif("streamable"))
			out.Reuse = c12Reuse()
			out.SameNew = c12SameNew(1500, 9)
		}
		for i, sc := range in.Scheds {
			out.Results = append(out.Results, c12RunSched(fmt.Sprintf("g%s%d", sc.Kind[:1], i), sc.Kind, 1, 0, 0, 0, sc.Steps))
		}
		for i := 0; i < in.Runs; i++ {
			for _, k := range in.Kinds {
				out.Results = append(out.Results, c12Run(fmt.Sprintf("%s%d", k[:1], i), k, in.Seed*104729+int64(i), in.Workers, in.Ops, in.StormMs))
			}
		}
		writeOutput(out)
		return 0
	})
}
