package main

// C09 binding B: ungated stress with real concurrency on the three server-side streams.

import (
	"bytes"
	"context"
	"encoding/json"
	"fmt"
	"io"
	"math/rand"
	"net/http"
	"net/http/httptest"
	"strings"
	"sync"
	"time"

	mcp "trpc.group/trpc-go/trpc-mcp-go"
	"verifharness/internal/peer"
)

func payload(rnd *rand.Rand, nonce string) string {
	sizes := []int{0, 10, 500, 4090, 4096, 4100, 65530, 65536, 70000, 200000}
	n := sizes[rnd.Intn(len(sizes))]
	alphabet := []string{"a", "b", "\n", "\r", " ", " ", "\"", "\\", "é", "😀", " ", "%", "%d", "100% d", "%s"}
	var sb strings.Builder
	sb.WriteString(nonce)
	sb.WriteString("|")
	for sb.Len() < n {
		sb.WriteString(alphabet[rnd.Intn(len(alphabet))])
	}
	return sb.String()
}

func stressStdio(id string, seed int64, calls int) (res c09Result) {
	res.ID, res.Stream = id, "stdio"
	rnd := rand.New(rand.NewSource(seed))
	srv := mcp.NewStdioServer("verif", "1.0", mcp.WithStdioServerLogger(silentLogger{}))
	srv.RegisterTool(mcp.NewTool("echo", mcp.WithString("text")), func(ctx context.Context, req *mcp.CallToolRequest) (*mcp.CallToolResult, error) {
		n, _ := req.Params.Arguments["text"].(string)
		return mcp.NewTextResult(n), nil
	})
	pr, pw := io.Pipe()
	rec := &recorder{}
	ctx, cancel := context.WithCancel(context.Background())
	serveDone := make(chan struct{})
	go func() { defer close(serveDone); mcp.VerifServeStdio(ctx, srv, pr, rec) }()
	defer func() {
		cancel()
		pw.Close()
		select {
		case <-serveDone:
		case <-time.After(2 * time.Second):
		}
	}()
	fmt.Fprintf(pw, "%s\n", peer.InitRequest(1))
	dl := time.Now().Add(3 * time.Second)
	for !rec.contains(`"serverInfo"`) {
		if time.Now().After(dl) {
			res.Broken = "no answer to initialize"
			return
		}
		time.Sleep(time.Millisecond)
	}
	fmt.Fprintf(pw, "%s\n", peer.InitializedNotification())
	for i := 0; i < calls; i++ {
		nonce := fmt.Sprintf("nonce-%s-%d.", id, i)
		res.Expected = append(res.Expected, nonce)
		b, _ := json.Marshal(map[string]interface{}{"jsonrpc": "2.0", "id": 100 + i, "method": "tools/call",
			"params": map[string]interface{}{"name": "echo", "arguments": map[string]interface{}{"text": payload(rnd, nonce)}}})
		fmt.Fprintf(pw, "%s\n", b)
	}
	dl = time.Now().Add(10 * time.Second)
	for {
		_, all := rec.snapshot()
		ok := true
		for _, e := range res.Expected {
			if !strings.Contains(all, e) {
				ok = false
				break
			}
		}
		if ok || time.Now().After(dl) {
			break
		}
		time.Sleep(2 * time.Millisecond)
	}
	time.Sleep(10 * time.Millisecond)
	chunks, all := rec.snapshot()
	parts := strings.Split(all, "\n")
	if parts[len(parts)-1] == "" {
		parts = parts[:len(parts)-1]
	}
	res.Frames = parts[1:]
	res.Chunks = chunksAfter(chunks, `"serverInfo"`)
	return
}

func stressGet(id string, seed int64, sends int) (res c09Result) {
	res.ID, res.Stream = id, "get"
	rnd := rand.New(rand.NewSource(seed))
	srv := mcp.NewServer("verif", "1.0", mcp.WithServerPath("/mcp"), mcp.WithServerLogger(silentLogger{}))
	rec := &recorder{}
	h := srv.Handler()
	ts := httptest.NewServer(http.HandlerFunc(func(w http.ResponseWriter, r *http.Request) {
		if r.Method == http.MethodGet {
			h.ServeHTTP(&recordingRW{ResponseWriter: w, rec: rec}, r)
			return
		}
		h.ServeHTTP(w, r)
	}))
	url := ts.URL + "/mcp"
	var stream *peer.Stream
	defer func() {
		if stream != nil {
			stream.Close()
		}
		closeClientConns(ts)
		closeTS(ts)
	}()
	ctx := context.Background()
	sid, err := peer.Handshake(ctx, url, nil)
	if err != nil || sid == "" {
		res.Broken = fmt.Sprintf("handshake: %v", err)
		return
	}
	stream, err = peer.OpenSSE(ctx, http.MethodGet, url, map[string]string{"Accept": "text/event-stream", "Mcp-Session-Id": sid}, nil)
	if err != nil || stream.Status != 200 {
		res.Broken = fmt.Sprintf("GET: %v", err)
		return
	}
	time.Sleep(20 * time.Millisecond)
	payloads := make([]string, sends)
	for i := range payloads {
		nonce := fmt.Sprintf("nonce-%s-%d.", id, i)
		res.Expected = append(res.Expected, nonce)
		payloads[i] = payload(rnd, nonce)
	}
	var wg sync.WaitGroup
	for g := 0; g < 6; g++ {
		wg.Add(1)
		go func(g int) {
			defer wg.Done()
			for i := g; i < sends; i += 6 {
				if i%5 == 4 {
					sctx, cancel := context.WithTimeout(context.Background(), 30*time.Millisecond)
					srv.SendRequest(sctx, sid, &mcp.JSONRPCRequest{JSONRPC: "2.0", ID: fmt.Sprintf("nonce-%s-%d.", id, i), Request: mcp.Request{Method: "roots/list"}})
					cancel()
				} else {
					srv.SendNotification(sid, "notifications/message", map[string]interface{}{"level": "info", "data": payloads[i]})
				}
			}
		}(g)
	}
	wg.Wait()
	for _, e := range res.Expected {
		stream.WaitFor(3*time.Second, func(raw []byte, eof bool) bool { return bytes.Contains(raw, []byte(e)) })
	}
	time.Sleep(10 * time.Millisecond)
	for _, ev := range stream.Events() {
		res.Frames = append(res.Frames, ev.Data)
	}
	res.Chunks, _ = rec.snapshot()
	return
}

func stressLegacy(id string, seed int64, calls int) (res c09Result) {
	res.ID, res.Stream = id, "legacy"
	rnd := rand.New(rand.NewSource(seed))
	srv := mcp.NewSSEServer("verif", "1.0", mcp.WithSSEServerLogger(silentLogger{}), mcp.WithKeepAliveInterval(time.Millisecond))
	srv.RegisterTool(mcp.NewTool("echo", mcp.WithString("text")), func(ctx context.Context, req *mcp.CallToolRequest) (*mcp.CallToolResult, error) {
		n, _ := req.Params.Arguments["text"].(string)
		return mcp.NewTextResult(n), nil
	})
	rec := &recorder{}
	ts := httptest.NewServer(http.HandlerFunc(func(w http.ResponseWriter, r *http.Request) {
		if r.Method == http.MethodGet {
			srv.ServeHTTP(&recordingRW{ResponseWriter: w, rec: rec}, r)
			return
		}
		srv.ServeHTTP(w, r)
	}))
	var stream *peer.Stream
	defer func() {
		if stream != nil {
			stream.Close()
		}
		closeClientConns(ts)
		closeTS(ts)
	}()
	ctx := context.Background()
	stream, err := peer.OpenSSE(ctx, http.MethodGet, ts.URL+"/sse", map[string]string{"Accept": "text/event-stream"}, nil)
	if err != nil || stream.Status != 200 {
		res.Broken = fmt.Sprintf("GET /sse: %v", err)
		return
	}
	var endpoint string
	stream.WaitFor(3*time.Second, func(raw []byte, eof bool) bool {
		evs, _ := peer.ParseSSE(raw)
		for _, e := range evs {
			if e.Event == "endpoint" {
				endpoint = e.Data
				return true
			}
		}
		return false
	})
	if endpoint == "" {
		res.Broken = "no endpoint event"
		return
	}
	msgURL := ts.URL + endpoint
	r := peer.PostJSON(ctx, msgURL, nil, peer.InitRequest(1), false)
	if r.Status != 202 {
		res.Broken = fmt.Sprintf("initialize status %d", r.Status)
		return
	}
	peer.PostJSON(ctx, msgURL, nil, peer.InitializedNotification(), false)
	var wg sync.WaitGroup
	bodies := make([][]byte, calls)
	for i := 0; i < calls; i++ {
		nonce := fmt.Sprintf("nonce-%s-%d.", id, i)
		res.Expected = append(res.Expected, nonce)
		bodies[i], _ = json.Marshal(map[string]interface{}{"jsonrpc": "2.0", "id": 100 + i, "method": "tools/call",
			"params": map[string]interface{}{"name": "echo", "arguments": map[string]interface{}{"text": payload(rnd, nonce)}}})
	}
	for g := 0; g < 6; g++ {
		wg.Add(1)
		go func(g int) {
			defer wg.Done()
			for i := g; i < calls; i += 6 {
				peer.PostJSON(ctx, msgURL, nil, bodies[i], false)
			}
		}(g)
	}
	wg.Wait()
	for _, e := range res.Expected {
		stream.WaitFor(5*time.Second, func(raw []byte, eof bool) bool { return bytes.Contains(raw, []byte(e)) })
	}
	time.Sleep(10 * time.Millisecond)
	for _, ev := range stream.Events() {
		if ev.Event == "message" {
			res.Frames = append(res.Frames, ev.Data)
		}
	}
	res.Frames = res.Frames[1:] // initialize answer
	res.Chunks, _ = rec.snapshot()
	return
}

func init() {
	register("c09stress", func(args []string) int {
		var in struct {
			Seed int64 `json:"seed"`
			Runs int   `json:"runs"`
			Ops  int   `json:"ops"`
		}
		readInput(&in)
		out := struct {
			Results []c09Result `json:"results"`
		}{}
		for i := 0; i < in.Runs; i++ {
			sd := in.Seed*7919 + int64(i)
			out.Results = append(out.Results, stressStdio(fmt.Sprintf("st%d", i), sd, in.Ops))
			out.Results = append(out.Results, stressGet(fmt.Sprintf("gt%d", i), sd, in.Ops))
			out.Results = append(out.Results, stressLegacy(fmt.Sprintf("lg%d", i), sd, in.Ops))
		}
		writeOutput(out)
		return 0
	})
}
