package main

// C05 bursts: a raw peer opens a session's stream and then stops reading it; the server sends N large notifications
// to that session (some may be refused); the peer then reads everything.  Reported: which sends were accepted and the
// order in which their nonces appear on the stream.

import (
	"bufio"
	"fmt"
	"io"
	"net/http/httptest"
	"regexp"
	"strconv"
	"strings"
	"time"

	mcp "trpc.group/trpc-go/trpc-mcp-go"
)

type c05BurstIn struct {
	ID      string `json:"id"`
	Server  string `json:"server"` // streamable legacy
	N       int    `json:"n"`
	Payload int    `json:"payload"` // bytes of padding per notification
}

type c05BurstOut struct {
	ID       string `json:"id"`
	Accepted []int  `json:"accepted"`
	Received []int  `json:"received"`
	Broken   string `json:"broken,omitempty"`
}

var c05BurstRe = regexp.MustCompile(`"burst-([0-9]+)\.`)

func c05Burst(in c05BurstIn) (out c05BurstOut) {
	out.ID = in.ID
	out.Accepted, out.Received = []int{}, []int{}
	var srv *mcp.Server
	var lsrv *mcp.SSEServer
	var ts *httptest.Server
	if in.Server == "legacy" {
		lsrv = mcp.NewSSEServer("verif", "1.0", mcp.WithSSEServerLogger(silentLogger{}), mcp.WithKeepAlive(false))
		ts = httptest.NewServer(lsrv)
	} else {
		srv = mcp.NewServer("verif", "1.0", mcp.WithServerPath("/mcp"), mcp.WithServerLogger(silentLogger{}), mcp.WithPostSSEEnabled(false))
		ts = httptest.NewServer(srv.Handler())
	}
	defer func() { closeClientConns(ts); closeTS(ts) }()
	addr := ts.Listener.Addr().String()
	initBody := []byte(`{"jsonrpc":"2.0","id":1,"method":"initialize","params":{"protocolVersion":"2025-03-26","clientInfo":{"name":"raw","version":"0"},"capabilities":{}}}`)
	inited := []byte(`{"jsonrpc":"2.0","method":"notifications/initialized"}`)
	var stream *rawConn
	sid := ""
	if in.Server == "legacy" {
		s, err := dialRaw(addr)
		if err != nil {
			out.Broken = err.Error()
			return
		}
		stream = s
		s.send("GET", "/sse", map[string]string{"Accept": "text/event-stream"}, nil)
		if _, _, err := s.head(false); err != nil {
			out.Broken = "legacy stream: " + err.Error()
			return
		}
		msgURL := ""
		for dl := time.Now().Add(2 * time.Second); msgURL == "" && time.Now().Before(dl); {
			line, err := s.br.ReadString('\n')
			if err != nil {
				out.Broken = "legacy endpoint: " + err.Error()
				return
			}
			if strings.HasPrefix(line, "data: ") && strings.Contains(line, "sessionId=") {
				msgURL = strings.TrimSpace(line[6:])
			}
		}
		if i := strings.Index(msgURL, "://"); i >= 0 {
			rest := msgURL[i+3:]
			msgURL = rest[strings.Index(rest, "/"):]
		}
		sid = msgURL[strings.Index(msgURL, "sessionId=")+10:]
		c, _ := dialRaw(addr)
		defer c.c.Close()
		for _, b := range [][]byte{initBody, inited} {
			c.send("POST", msgURL, nil, b)
			if resp, _, err := c.head(true); err != nil || resp.StatusCode != 202 {
				out.Broken = fmt.Sprintf("legacy handshake: %v %v", resp, err)
				return
			}
		}
		time.Sleep(30 * time.Millisecond)
	} else {
		c, err := dialRaw(addr)
		if err != nil {
			out.Broken = err.Error()
			return
		}
		defer c.c.Close()
		c.send("POST", "/mcp", map[string]string{"Accept": "application/json"}, initBody)
		resp, _, err := c.head(true)
		if err != nil || resp.StatusCode != 200 {
			out.Broken = fmt.Sprintf("initialize: %v %v", resp, err)
			return
		}
		sid = resp.Header.Get("Mcp-Session-Id")
		c.send("POST", "/mcp", map[string]string{"Accept": "application/json", "Mcp-Session-Id": sid}, inited)
		c.head(true)
		g, _ := dialRaw(addr)
		stream = g
		g.send("GET", "/mcp", map[string]string{"Accept": "text/event-stream", "Mcp-Session-Id": sid}, nil)
		if resp, _, err := g.head(false); err != nil || resp.StatusCode != 200 {
			out.Broken = fmt.Sprintf("GET stream: %v %v", resp, err)
			return
		}
		for dl := time.Now().Add(time.Second); mcp.VerifGetStreamCount(srv) < 1 && time.Now().Before(dl); time.Sleep(2 * time.Millisecond) {
		}
	}
	defer stream.c.Close()
	// the peer does not read from now on; the sends of the burst run in their own goroutine (a write to a full
	// connection blocks until the peer reads again)
	pad := strings.Repeat("b", in.Payload)
	type sres struct {
		n  int
		ok bool
	}
	results := make(chan sres, in.N)
	go func() {
		for i := 1; i <= in.N; i++ {
			params := map[string]interface{}{"level": "info", "data": fmt.Sprintf("burst-%d.%s", i, pad)}
			var err error
			if lsrv != nil {
				err = lsrv.SendNotification(sid, "notifications/message", params)
			} else {
				err = srv.SendNotification(sid, "notifications/message", params)
			}
			results <- sres{i, err == nil}
		}
		close(results)
	}()
	time.Sleep(300 * time.Millisecond) // the burst runs against a reader that is not reading
	// read everything: the stream goes quiet once all accepted notifications are out
	got := make(chan int, in.N+16)
	go func() {
		br := bufio.NewReaderSize(stream.br, 1<<20)
		for {
			line, err := br.ReadString('\n')
			if m := c05BurstRe.FindStringSubmatch(line); m != nil && strings.HasPrefix(line, "data:") {
				n, _ := strconv.Atoi(m[1])
				got <- n
			}
			if err != nil {
				if err != io.EOF {
					// read deadline or connection end: stop
				}
				close(got)
				return
			}
		}
	}()
	stream.c.SetReadDeadline(time.Now().Add(20 * time.Second))
	sendsDone := false
	quiet := time.NewTimer(1500 * time.Millisecond)
	for {
		select {
		case r, ok := <-results:
			if !ok {
				results = nil
				sendsDone = true
			} else if r.ok {
				out.Accepted = append(out.Accepted, r.n)
			}
			quiet.Reset(1500 * time.Millisecond)
		case n, ok := <-got:
			if !ok {
				return
			}
			out.Received = append(out.Received, n)
			quiet.Reset(1500 * time.Millisecond)
		case <-quiet.C:
			if sendsDone {
				return
			}
			quiet.Reset(1500 * time.Millisecond)
			if len(out.Received) == 0 && len(out.Accepted) == 0 {
				out.Broken = "nothing was sent or received within 1.5 s"
				return
			}
		}
	}
}

func init() {
	register("c05burst", func(args []string) int {
		var in struct {
			Bursts []c05BurstIn `json:"bursts"`
		}
		readInput(&in)
		out := struct {
			Results []c05BurstOut `json:"results"`
		}{}
		for _, b := range in.Bursts {
			out.Results = append(out.Results, c05Burst(b))
		}
		writeOutput(out)
		return 0
	})
}
