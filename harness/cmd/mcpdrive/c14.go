package main

// C14 (client part): the same scripted server answers are given to the library's three clients
// (Streamable, legacy SSE, stdio) and the values / errors they return are reported for comparison.

import (
	"context"
	"encoding/json"
	"fmt"
	"io"
	"net/http"
	"net/http/httptest"
	"os"
	"path/filepath"
	"sync"
	"time"

	mcp "trpc.group/trpc-go/trpc-mcp-go"
)

type c14Answer struct {
	Method string `json:"method"`
	Raw    string `json:"raw"` // raw JSON of "result", or of "error" when IsErr
	IsErr  bool   `json:"is_err"`
}

type c14Out struct {
	Client string `json:"client"`
	Value  string `json:"value"` // JSON of the returned value ("" on error)
	Err    string `json:"err"`
}

type c14Srv struct {
	mu     sync.Mutex
	ans    c14Answer
	legacy bool
	sseW   http.ResponseWriter
	sseF   http.Flusher
}

func (s *c14Srv) payload(id json.RawMessage, method string) string {
	s.mu.Lock()
	a := s.ans
	s.mu.Unlock()
	if method == "initialize" {
		return fmt.Sprintf(`{"jsonrpc":"2.0","id":%s,"result":%s}`, id, initOK)
	}
	if a.IsErr {
		return fmt.Sprintf(`{"jsonrpc":"2.0","id":%s,"error":%s}`, id, a.Raw)
	}
	return fmt.Sprintf(`{"jsonrpc":"2.0","id":%s,"result":%s}`, id, a.Raw)
}

func (s *c14Srv) serve(w http.ResponseWriter, r *http.Request) {
	if s.legacy && r.Method == http.MethodGet {
		f := w.(http.Flusher)
		w.Header().Set("Content-Type", "text/event-stream")
		w.WriteHeader(200)
		s.mu.Lock()
		s.sseW, s.sseF = w, f
		fmt.Fprintf(w, "event: endpoint\ndata: /message?sessionId=x\n\n")
		f.Flush()
		s.mu.Unlock()
		<-r.Context().Done()
		return
	}
	if r.Method != http.MethodPost {
		http.Error(w, "no", 405)
		return
	}
	body, _ := io.ReadAll(r.Body)
	var m struct {
		ID     json.RawMessage `json:"id"`
		Method string          `json:"method"`
	}
	json.Unmarshal(body, &m)
	if m.ID == nil {
		w.WriteHeader(202)
		return
	}
	p := s.payload(m.ID, m.Method)
	if s.legacy {
		w.WriteHeader(202)
		s.mu.Lock()
		fmt.Fprintf(s.sseW, "event: message\ndata: %s\n\n", p)
		s.sseF.Flush()
		s.mu.Unlock()
		return
	}
	if r.URL.Query().Get("sse") == "1" {
		w.Header().Set("Content-Type", "text/event-stream")
		w.WriteHeader(200)
		fmt.Fprintf(w, "id: e1\ndata: %s\n\n", p)
		return
	}
	w.Header().Set("Content-Type", "application/json")
	w.WriteHeader(200)
	io.WriteString(w, p)
}

func c14Call(ctx context.Context, c c16Client, method string) (interface{}, error) {
	switch method {
	case "tools/list":
		return c.ListTools(ctx, &mcp.ListToolsRequest{})
	case "tools/call":
		r := &mcp.CallToolRequest{}
		r.Params.Name = "x"
		return c.CallTool(ctx, r)
	case "prompts/list":
		return c.ListPrompts(ctx, &mcp.ListPromptsRequest{})
	case "prompts/get":
		r := &mcp.GetPromptRequest{}
		r.Params.Name = "x"
		return c.GetPrompt(ctx, r)
	case "resources/list":
		return c.ListResources(ctx, &mcp.ListResourcesRequest{})
	case "resources/read":
		r := &mcp.ReadResourceRequest{}
		r.Params.URI = "r://x"
		return c.ReadResource(ctx, r)
	}
	return nil, fmt.Errorf("unknown method")
}

func c14Run(answers []c14Answer) (outs [][]c14Out, broken string) {
	outs = make([][]c14Out, len(answers))
	info := mcp.Implementation{Name: "v", Version: "0"}
	run := func(name string, mk func() (c16Client, func(c14Answer), func(), error)) {
		cl, set, cleanup, err := mk()
		if err != nil {
			broken = name + ": " + err.Error()
			return
		}
		defer cleanup()
		ctx, cancel := context.WithTimeout(context.Background(), 5*time.Second)
		_, err = cl.Initialize(ctx, &mcp.InitializeRequest{})
		cancel()
		if err != nil {
			broken = name + " initialize: " + err.Error()
			return
		}
		for i, a := range answers {
			set(a)
			ctx, cancel := context.WithTimeout(context.Background(), 3*time.Second)
			v, err := c14Call(ctx, cl, a.Method)
			cancel()
			o := c14Out{Client: name}
			if err != nil {
				o.Err = err.Error()
			} else {
				b, _ := json.Marshal(v)
				o.Value = string(b)
			}
			outs[i] = append(outs[i], o)
		}
	}
	httpClient := func(legacy bool, sse bool) func() (c16Client, func(c14Answer), func(), error) {
		return func() (c16Client, func(c14Answer), func(), error) {
			srv := &c14Srv{legacy: legacy}
			ts := httptest.NewServer(http.HandlerFunc(srv.serve))
			var cl c16Client
			var err error
			if legacy {
				cl, err = mcp.NewSSEClient(ts.URL+"/sse", info, mcp.WithClientLogger(silentLogger{}))
			} else {
				u := ts.URL + "/mcp"
				if sse {
					u += "?sse=1"
				}
				cl, err = mcp.NewClient(u, info, mcp.WithClientLogger(silentLogger{}), mcp.WithClientGetSSEEnabled(false))
			}
			set := func(a c14Answer) { srv.mu.Lock(); srv.ans = a; srv.mu.Unlock() }
			return cl, set, func() {
				if cl != nil {
					cl.Close()
				}
				closeClientConns(ts)
				closeTS(ts)
			}, err
		}
	}
	run("streamable-json", httpClient(false, false))
	run("streamable-sse", httpClient(false, true))
	run("legacy", httpClient(true, false))
	// stdio: one child per answer table (answers are selected by a control file the child re-reads)
	run("stdio", func() (c16Client, func(c14Answer), func(), error) {
		dir, _ := os.MkdirTemp("", "c14")
		cfgPath := filepath.Join(dir, "cfg.json")
		ansPath := filepath.Join(dir, "answer.json")
		b, _ := json.Marshal(stdioPeerCfg{AnswerFile: ansPath})
		os.WriteFile(cfgPath, b, 0644)
		exe, _ := os.Executable()
		c, err := mcp.NewStdioClient(mcp.StdioTransportConfig{ServerParams: mcp.StdioServerParameters{Command: exe, Args: []string{"stdiopeer", cfgPath}},
			Timeout: 3 * time.Second}, info, mcp.WithStdioLogger(silentLogger{}))
		set := func(a c14Answer) {
			b, _ := json.Marshal(a)
			os.WriteFile(ansPath+".tmp", b, 0644)
			os.Rename(ansPath+".tmp", ansPath)
		}
		return c, set, func() {
			if c != nil {
				c.Close()
			}
			os.RemoveAll(dir)
		}, err
	})
	return
}

func init() {
	register("c14", func(args []string) int {
		var in struct {
			Answers []c14Answer `json:"answers"`
		}
		readInput(&in)
		o, b := c14Run(in.Answers)
		writeOutput(struct {
			Outs   [][]c14Out `json:"outs"`
			Broken string     `json:"broken,omitempty"`
		}{o, b})
		return 0
	})
}
