package main

// C11: replay of TLC-generated schedules of the GetStream specification on the real GET handler
// and push path. Steps are forced with the get.* / push.* gates; verdicts are taken only from what
// a raw HTTP peer observes (SendNotification's result, the stream a nonce-tagged frame shows up on).

import (
	"context"
	"fmt"
	"net/http"
	"net/http/httptest"
	"strings"
	"sync"
	"time"

	mcp "trpc.group/trpc-go/trpc-mcp-go"
	"verifharness/internal/gate"
	"verifharness/internal/peer"
)

type c11Step struct {
	Op   string `json:"op"` // open proceed close cleanup sstart send
	Arg  string `json:"arg"`
	Kind string `json:"kind,omitempty"` // for sstart: notif | request
}

type c11Schedule struct {
	ID    string    `json:"id"`
	Steps []c11Step `json:"steps"`
	Gated bool      `json:"gated"`
	// FlushWindow: the handler of a GET is parked inside its FIRST Flush (right after the response headers went out) by a
	// wrapper around the ResponseWriter - a gate that does not depend on where the library's own hook points sit
	FlushWindow bool `json:"flush_window,omitempty"`
}

// c11FlushGate parks the handler after its first Flush.
type c11FlushGate struct {
	http.ResponseWriter
	req  *http.Request
	ctl  *gate.Controller
	done bool
}

func (f *c11FlushGate) Flush() {
	if fl, ok := f.ResponseWriter.(http.Flusher); ok {
		fl.Flush()
	}
	if !f.done {
		f.done = true
		f.ctl.Hook("h.firstflush", f.req)
	}
}

type c11Obs struct {
	Op     string `json:"op"`
	Arg    string `json:"arg"`
	OK     bool   `json:"ok"`
	On     string `json:"on"`
	Err    string `json:"err,omitempty"`
	Status int    `json:"status,omitempty"`
}

type c11Result struct {
	ID         string                   `json:"id"`
	Obs        []c11Obs                 `json:"obs"`
	Unrealised string                   `json:"unrealised,omitempty"`
	Stuck      string                   `json:"stuck,omitempty"` // an operation of the peer that the model always admits did not complete
	EOF        map[string]bool          `json:"eof"`
	Probe      *c11Obs                  `json:"probe,omitempty"`
	Trace      []map[string]interface{} `json:"trace"`
	Hook       []gate.Event             `json:"hook,omitempty"`
	PanicText  string                   `json:"panic,omitempty"`
	Skipped    int                      `json:"skipped"`
}

const c11Wait = 3 * time.Second

type c11Run struct {
	srv     *mcp.Server
	ts      *httptest.Server
	url     string
	sid     string
	ctl     *gate.Controller
	streams map[string]*peer.Stream
	sends   map[string]*c11Send
	trace   []map[string]interface{}
	mu      sync.Mutex
}

type c11Send struct {
	kind   string
	nonce  string
	done   chan struct{}
	err    error
	cancel context.CancelFunc
}

func (r *c11Run) ev(m map[string]interface{}) {
	r.mu.Lock()
	r.trace = append(r.trace, m)
	r.mu.Unlock()
}

func c11ActorOf(ctl **gate.Controller) func(point string, kv []interface{}) (string, string) {
	return func(point string, kv []interface{}) (string, string) {
		if (strings.HasPrefix(point, "get.") || strings.HasPrefix(point, "h.")) && len(kv) > 0 {
			if req, ok := kv[0].(*http.Request); ok {
				return req.Header.Get("X-Verif-Conn"), ""
			}
		}
		if strings.HasPrefix(point, "sse.write.") {
			return (*ctl).GoroutineName(), ""
		}
		if strings.HasPrefix(point, "push.") {
			info := ""
			if len(kv) > 1 {
				info = fmt.Sprint(kv[1])
			}
			return (*ctl).GoroutineName(), info
		}
		return "", ""
	}
}

func (r *c11Run) whereIs(nonce string, wait time.Duration) string {
	deadline := time.Now().Add(wait)
	for {
		for name, st := range r.streams {
			if st.Contains(nonce) {
				return name
			}
		}
		if time.Now().After(deadline) {
			return "none"
		}
		time.Sleep(2 * time.Millisecond)
	}
}

func c11RunSchedule(s c11Schedule) (res c11Result) {
	res.ID = s.ID
	res.EOF = map[string]bool{}
	var ctl *gate.Controller
	ctl = gate.New(nil)
	ctl.ActorOf = c11ActorOf(&ctl)
	if s.Gated {
		ctl.Gate("get.flushed", true)
		ctl.Gate("get.woken", true)
		ctl.Gate("push.lookup", true)
		ctl.Gate("sse.write.id", true)
	}
	mcp.VerifSetHook(ctl.Hook)
	defer mcp.VerifSetHook(nil)

	srv := mcp.NewServer("verif", "1.0", mcp.WithServerPath("/mcp"), mcp.WithServerLogger(silentLogger{}))
	inner := srv.Handler()
	if s.FlushWindow {
		ctl.Gate("h.firstflush", true)
	}
	ts := httptest.NewServer(http.HandlerFunc(func(w http.ResponseWriter, req *http.Request) {
		if s.FlushWindow && req.Method == http.MethodGet {
			w = &c11FlushGate{ResponseWriter: w, req: req, ctl: ctl}
		}
		inner.ServeHTTP(w, req)
	}))
	r := &c11Run{srv: srv, ts: ts, url: ts.URL + "/mcp", ctl: ctl, streams: map[string]*peer.Stream{}, sends: map[string]*c11Send{}}
	defer func() {
		ctl.ReleaseAll()
		for _, st := range r.streams {
			st.Close()
		}
		for _, sd := range r.sends {
			if sd.cancel != nil {
				sd.cancel()
			}
		}
		closeClientConns(ts)
		closeTS(ts)
	}()
	ctx := context.Background()
	sid, err := peer.Handshake(ctx, r.url, nil)
	if err != nil || sid == "" {
		res.Unrealised = fmt.Sprintf("handshake failed: %v", err)
		return
	}
	r.sid = sid

	startSend := func(name, kind string) *c11Send {
		sd := &c11Send{kind: kind, nonce: "nonce-" + s.ID + "-" + name, done: make(chan struct{})}
		r.sends[name] = sd
		sctx, cancel := context.WithCancel(context.Background())
		sd.cancel = cancel
		go func() {
			defer close(sd.done)
			defer func() {
				if p := recover(); p != nil {
					sd.err = fmt.Errorf("panic: %v", p)
				}
			}()
			ctl.BindGoroutine(name)
			if kind == "request" {
				_, e := srv.SendRequest(sctx, sid, &mcp.JSONRPCRequest{JSONRPC: "2.0", ID: sd.nonce, Request: mcp.Request{Method: "roots/list"}})
				sd.err = e
			} else {
				sd.err = srv.SendNotification(sid, "notifications/message", map[string]interface{}{"level": "info", "data": sd.nonce})
			}
		}()
		return sd
	}
	finishSend := func(name string) c11Obs {
		sd := r.sends[name]
		o := c11Obs{Op: "send", Arg: name}
		if sd.kind == "request" {
			// the request is "sent" once the frame is on a stream; it then waits for an answer we never give
			on := "none"
			select {
			case <-sd.done:
				on = r.whereIs(sd.nonce, 50*time.Millisecond)
			case <-time.After(20 * time.Millisecond):
				on = r.whereIs(sd.nonce, c11Wait)
			}
			sd.cancel()
			select {
			case <-sd.done:
			case <-time.After(c11Wait):
				o.Err = "SendRequest did not return after cancel"
			}
			o.OK = on != "none"
			o.On = on
			if sd.err != nil && o.Err == "" {
				o.Err = sd.err.Error()
			}
			return o
		}
		select {
		case <-sd.done:
		case <-time.After(c11Wait):
			o.Err = "SendNotification did not return"
			o.On = "none"
			return o
		}
		if sd.err != nil {
			o.Err = sd.err.Error()
			o.On = r.whereIs(sd.nonce, 20*time.Millisecond)
			return o
		}
		o.OK = true
		o.On = r.whereIs(sd.nonce, c11Wait)
		return o
	}

	begun := map[string]bool{}
	for i, st := range s.Steps {
		fail := func(why string) {
			res.Unrealised = fmt.Sprintf("step %d %s(%s): %s; parked=%v", i, st.Op, st.Arg, why, ctl.ParkedList())
		}
		switch st.Op {
		case "open":
			if s.FlushWindow {
				ctl.Pass(st.Arg, "h.firstflush")
			}
			r.ev(map[string]interface{}{"e": "open", "c": st.Arg})
			type opened struct {
				st  *peer.Stream
				err error
			}
			och := make(chan opened, 1)
			go func(arg string, n int) {
				h := map[string]string{"Accept": "text/event-stream", "Mcp-Session-Id": sid, "X-Verif-Conn": arg}
				if len(r.streams) > 0 && n%2 == 1 {
					// a reopen the way a client that has seen events does it
					h["Last-Event-ID"] = "evt-1-1"
				}
				st, err := peer.OpenSSE(ctx, http.MethodGet, r.url, h, nil)
				och <- opened{st, err}
			}(st.Arg, i)
			var stream *peer.Stream
			var err error
			select {
			case o := <-och:
				stream, err = o.st, o.err
			case <-time.After(c11Wait):
				// nothing a send or an older stream does may keep a new stream from being opened (GetStream: Open is always enabled)
				res.Stuck = fmt.Sprintf("step %d open(%s): no response headers within %v; parked=%v", i, st.Arg, c11Wait, ctl.ParkedList())
				res.Obs = append(res.Obs, c11Obs{Op: "open", Arg: st.Arg, Err: "no response headers"})
				res.Trace = r.trace
				return
			}
			if err != nil {
				fail("GET failed: " + err.Error())
				return
			}
			r.streams[st.Arg] = stream
			res.Obs = append(res.Obs, c11Obs{Op: "open", Arg: st.Arg, Status: stream.Status, OK: stream.Status == 200})
			if stream.Status != 200 {
				fail(fmt.Sprintf("GET status %d", stream.Status))
				return
			}
			r.ev(map[string]interface{}{"e": "hdr", "c": st.Arg})
			if s.Gated && !ctl.WaitParked(st.Arg, "get.flushed", c11Wait) {
				fail("handler did not reach the get.flushed gate")
				return
			}
		case "openheld":
			// a GET whose handler is held inside its first Flush: the client has the headers, the handler has not moved on
			r.ev(map[string]interface{}{"e": "open", "c": st.Arg})
			stream, err := peer.OpenSSE(ctx, http.MethodGet, r.url, map[string]string{
				"Accept": "text/event-stream", "Mcp-Session-Id": sid, "X-Verif-Conn": st.Arg}, nil)
			if err != nil || stream.Status != 200 {
				fail(fmt.Sprintf("GET failed: %v", err))
				return
			}
			r.streams[st.Arg] = stream
			res.Obs = append(res.Obs, c11Obs{Op: "open", Arg: st.Arg, Status: stream.Status, OK: true})
			r.ev(map[string]interface{}{"e": "hdr", "c": st.Arg})
			if !ctl.WaitParked(st.Arg, "h.firstflush", c11Wait) {
				fail("handler did not park inside its first Flush")
				return
			}
		case "probeheld":
			// a send issued while the newest stream's handler is still inside the Flush that delivered its headers;
			// the handler is released shortly afterwards (the send may have to wait for the stream's write lock)
			ctl.Pass(st.Arg, "push.lookup")
			ctl.Pass(st.Arg, "sse.write.id")
			startSend(st.Arg, "notif")
			time.Sleep(60 * time.Millisecond)
			ctl.Release(st.Kind, "h.firstflush")
			o := finishSend(st.Arg)
			o.Op = "probe"
			res.Obs = append(res.Obs, o)
			r.ev(map[string]interface{}{"e": "probe", "ok": o.OK, "on": o.On})
		case "proceed":
			// internal step: best effort (the implementation may have no window here)
			if s.Gated {
				if !ctl.Release(st.Arg, "get.flushed") {
					res.Skipped++
					continue
				}
			}
			if !ctl.WaitEvent(st.Arg, "get.registered", 0, c11Wait) {
				fail("no get.registered event")
				return
			}
		case "close":
			r.ev(map[string]interface{}{"e": "close", "c": st.Arg})
			r.streams[st.Arg].Close()
			if s.Gated && !ctl.WaitParked(st.Arg, "get.woken", c11Wait) {
				fail("handler did not wake after the client closed the stream")
				return
			}
		case "cleanupbegin":
			// internal step: best effort (the model's handler may be woken where the code's is not)
			if s.Gated {
				if !ctl.WaitParked(st.Arg, "get.woken", 40*time.Millisecond) {
					res.Skipped++
					continue
				}
				ctl.Release(st.Arg, "get.woken")
				begun[st.Arg] = true
			}
		case "cleanup":
			if s.Gated && !begun[st.Arg] {
				res.Skipped++
				continue
			}
			if !ctl.WaitEvent(st.Arg, "get.cleaned", 0, c11Wait) {
				fail("no get.cleaned event")
				return
			}
			if !r.streams[st.Arg].WaitEOF(c11Wait) {
				fail("stream did not end after its handler returned")
				return
			}
			r.ev(map[string]interface{}{"e": "eof", "c": st.Arg})
		case "sstart":
			kind := st.Kind
			if kind == "" {
				kind = "notif"
			}
			r.ev(map[string]interface{}{"e": "sstart", "k": st.Arg})
			sd := startSend(st.Arg, kind)
			if s.Gated {
				ok := ctl.WaitParked(st.Arg, "push.lookup", c11Wait)
				if !ok {
					select {
					case <-sd.done: // returned without reaching the gate (e.g. refused earlier)
					default:
						fail("send neither parked at push.lookup nor returned")
						return
					}
				}
			}
		case "sacq":
			// take the write lock: runs up to the first write point inside the lock, or returns (refused)
			if s.Gated {
				ctl.Release(st.Arg, "push.lookup")
				sd := r.sends[st.Arg]
				deadline := time.Now().Add(c11Wait)
				for !ctl.IsParked(st.Arg, "sse.write.id") {
					select {
					case <-sd.done:
						deadline = time.Now()
					default:
					}
					if !time.Now().Before(deadline) {
						break
					}
					time.Sleep(200 * time.Microsecond)
				}
			}
		case "sreqstart":
			// a server-issued request that stays unanswered for the steps that follow (ungated)
			ctl.Pass(st.Arg, "push.lookup")
			ctl.Pass(st.Arg, "sse.write.id")
			sd := startSend(st.Arg, "request")
			on := r.whereIs(sd.nonce, c11Wait)
			res.Obs = append(res.Obs, c11Obs{Op: "sreqstart", Arg: st.Arg, OK: on != "none", On: on})
			if on == "none" {
				fail("the request frame appeared on no stream")
				return
			}
		case "sreqcheck":
			// nobody has answered or cancelled it: it is still pending; now the session answers, and the answer is accepted
			sd := r.sends[st.Arg]
			o := c11Obs{Op: "sreqcheck", Arg: st.Arg}
			time.Sleep(60 * time.Millisecond)
			select {
			case <-sd.done:
				o.Err = fmt.Sprintf("ended by itself: %v", sd.err)
			default:
				body := fmt.Sprintf(`{"jsonrpc":"2.0","id":%q,"result":{"roots":[]}}`, sd.nonce)
				pr := peer.PostJSON(ctx, r.url, map[string]string{"Mcp-Session-Id": sid}, []byte(body), false)
				select {
				case <-sd.done:
					if sd.err != nil {
						o.Err = fmt.Sprintf("answer posted (status %d), the request ended with: %v", pr.Status, sd.err)
					} else {
						o.OK = true
					}
				case <-time.After(c11Wait):
					o.Err = fmt.Sprintf("answer posted (status %d), the request did not return", pr.Status)
				}
			}
			res.Obs = append(res.Obs, o)
		case "probe":
			// an ungated send at a quiescent point
			ctl.Pass(st.Arg, "push.lookup")
			ctl.Pass(st.Arg, "sse.write.id")
			startSend(st.Arg, "notif")
			o := finishSend(st.Arg)
			o.Op = "probe"
			res.Obs = append(res.Obs, o)
			r.ev(map[string]interface{}{"e": "probe", "ok": o.OK, "on": o.On})
		case "send":
			if s.Gated {
				ctl.Release(st.Arg, "push.lookup")
				ctl.Release(st.Arg, "sse.write.id")
			}
			o := finishSend(st.Arg)
			res.Obs = append(res.Obs, o)
			r.ev(map[string]interface{}{"e": "send", "k": st.Arg, "ok": o.OK, "on": o.On})
		default:
			fail("unknown op")
			return
		}
	}
	// quiescence: let everything run, then probe once more
	ctl.ReleaseAll()
	time.Sleep(30 * time.Millisecond)
	r.ev(map[string]interface{}{"e": "sstart", "k": "probe"})
	startSend("probe", "notif")
	p := finishSend("probe")
	res.Probe = &p
	r.ev(map[string]interface{}{"e": "send", "k": "probe", "ok": p.OK, "on": p.On})
	for name, st := range r.streams {
		res.EOF[name] = st.WaitEOF(0)
	}
	// give superseded streams a moment to end, then re-read
	time.Sleep(30 * time.Millisecond)
	for name, st := range r.streams {
		res.EOF[name] = st.EOF()
	}
	res.Trace = r.trace
	res.Hook = ctl.Events()
	return
}

func init() {
	register("c11", func(args []string) int {
		var in struct {
			Schedules []c11Schedule `json:"schedules"`
		}
		readInput(&in)
		out := struct {
			Results []c11Result `json:"results"`
		}{}
		for _, s := range in.Schedules {
			out.Results = append(out.Results, c11RunSchedule(s))
		}
		writeOutput(out)
		return 0
	})
}
