package main

// C10: scenarios enumerated by TLC from InCall (emission sequence x registration subset x mode)
// are executed with the real Streamable server and client; the handler-side log, the raw wire
// (event ids) and the event trace are reported.

import (
	"context"
	"encoding/json"
	"fmt"
	"net/http/httptest"
	"reflect"
	"strings"
	"sync"
	"time"

	mcp "trpc.group/trpc-go/trpc-mcp-go"
	"verifharness/internal/peer"
)

type c10Emit struct {
	Kind  string `json:"kind"`
	Meta  bool   `json:"meta"`
	I     int    `json:"i"`
	Size  int    `json:"size,omitempty"`  // extra payload bytes (concretisation of the size class)
	Typed bool   `json:"typed,omitempty"` // _meta passed as mcp.Meta instead of a plain map
	// MetaOnly (custom + meta): the params consist of _meta alone, there is no ordinary field
	MetaOnly bool `json:"meta_only,omitempty"`
	// PMode (progress): which value the emission reports - "" its index (increasing), "flat" always 1, "down" 100 - index
	PMode string `json:"pmode,omitempty"`
	// Lvl (log without _meta): the level the handler passes to SendLogMessage ("" = info)
	Lvl string `json:"lvl,omitempty"`
}

func (e c10Emit) level() string {
	if e.Lvl == "" {
		return "info"
	}
	return e.Lvl
}

func (e c10Emit) progress() float64 {
	switch e.PMode {
	case "flat":
		return 1
	case "down":
		return float64(100 - e.I)
	}
	return float64(e.I)
}

type c10Scenario struct {
	ID      string    `json:"id"`
	Srv     string    `json:"srv,omitempty"` // stateful (default) | stateless | nosession
	Mode    string    `json:"mode"`
	Reg     []string  `json:"reg"`
	Emitted []c10Emit `json:"emitted"`
	// Rereg: the handlers are registered twice - first stand-ins, which see one warm-up call, then the real ones for the same methods
	Rereg bool `json:"rereg,omitempty"`
	// SlowUs: every handler invocation takes that long (a handler slower than the stream)
	SlowUs int `json:"slow_us,omitempty"`
	// HandlerErr: the handlers return an error for every other notification
	HandlerErr bool `json:"handler_err,omitempty"`
}

type c10Deliver struct {
	Kind     string `json:"kind"`
	Meta     bool   `json:"meta"`
	I        int    `json:"i"`
	Intact   bool   `json:"intact"`
	Detail   string `json:"detail,omitempty"`
	AfterRet bool   `json:"after_return"`
}

type c10Result struct {
	ID        string                   `json:"id"`
	Delivered []c10Deliver             `json:"delivered"`
	ResultOK  bool                     `json:"result_ok"`
	Err       string                   `json:"err,omitempty"`
	WireIDs   []string                 `json:"wire_ids"`
	WireKinds []string                 `json:"wire_kinds"`
	Trace     []map[string]interface{} `json:"trace"`
	Broken    string                   `json:"broken,omitempty"`
}

var c10Method = map[string]string{"progress": "notifications/progress", "log": "notifications/message", "custom": "notifications/custom"}

func c10Kind(method string) string {
	for k, m := range c10Method {
		if m == method {
			return k
		}
	}
	return "?"
}

func norm(v interface{}) interface{} {
	b, _ := json.Marshal(v)
	var out interface{}
	json.Unmarshal(b, &out)
	return out
}

// c10Send performs emission e through the public sender API and returns what the params must be.
func c10Send(ctx context.Context, nonce string, e c10Emit) error {
	sender, ok := mcp.GetNotificationSender(ctx)
	if !ok {
		return fmt.Errorf("no notification sender in context")
	}
	msg := fmt.Sprintf("m-%s-%d", nonce, e.I)
	var meta interface{} = map[string]interface{}{"tok": msg, "n": float64(e.I)}
	if e.Typed {
		meta = mcp.Meta{"tok": msg, "n": float64(e.I)}
	}
	if e.Size > 0 {
		msg = msg + "|" + strings.Repeat("x", e.Size)
	}
	switch {
	case e.Kind == "progress" && !e.Meta:
		return sender.SendProgress(e.progress(), msg)
	case e.Kind == "progress" && e.Meta:
		return sender.SendNotification(mcp.NewNotification(c10Method["progress"], map[string]interface{}{"progress": e.progress(), "message": msg, "_meta": meta}))
	case e.Kind == "log" && !e.Meta:
		return sender.SendLogMessage(e.level(), msg)
	case e.Kind == "log" && e.Meta:
		return sender.SendCustomNotification(c10Method["log"], map[string]interface{}{"level": "info", "data": msg, "_meta": meta})
	case e.Kind == "custom" && !e.Meta:
		return sender.SendCustomNotification(c10Method["custom"], map[string]interface{}{"seq": float64(e.I), "text": msg, "nested": map[string]interface{}{"a": []interface{}{1.0, "x", nil}}})
	case e.MetaOnly && e.I%2 == 1:
		// a hand-built notification (no constructor): only _meta is set
		n := &mcp.Notification{Method: c10Method["custom"]}
		if m, ok := meta.(mcp.Meta); ok {
			n.Params.Meta = m
		} else {
			n.Params.Meta = mcp.Meta(meta.(map[string]interface{}))
		}
		return sender.SendNotification(n)
	case e.MetaOnly:
		return sender.SendCustomNotification(c10Method["custom"], map[string]interface{}{"_meta": meta})
	default:
		return sender.SendNotification(mcp.NewNotification(c10Method["custom"], map[string]interface{}{"seq": float64(e.I), "text": msg, "_meta": meta}))
	}
}

// c10Check decides whether a received notification is emission (nonce, i) intact.
func c10Check(n *mcp.JSONRPCNotification) (nonce string, i int, meta bool, intact bool, detail string) {
	kind := c10Kind(n.Method)
	af := n.Params.AdditionalFields
	var msg string
	switch kind {
	case "progress":
		msg, _ = af["message"].(string)
	case "log":
		if s, ok := af["data"].(string); ok {
			msg = s
		} else if m, ok := af["data"].(map[string]interface{}); ok {
			msg, _ = m["message"].(string)
		}
	case "custom":
		msg, _ = af["text"].(string)
		if _, has := af["text"]; !has && len(af) == 0 {
			// params of _meta alone: the emission is identified by its _meta
			if tok, ok := n.Params.Meta["tok"].(string); ok {
				i := 0
				parts := strings.Split(tok, "-")
				if len(parts) >= 3 && parts[0] == "m" {
					fmt.Sscan(parts[len(parts)-1], &i)
					want := map[string]interface{}{"tok": tok, "n": float64(i)}
					if reflect.DeepEqual(norm(n.Params.Meta), norm(want)) {
						return strings.Join(parts[1:len(parts)-1], "-"), i, true, true, ""
					}
					return strings.Join(parts[1:len(parts)-1], "-"), i, true, false, fmt.Sprintf("_meta %v != %v", n.Params.Meta, want)
				}
			}
		}
	}
	full := msg
	if k := strings.IndexByte(msg, '|'); k >= 0 {
		msg = msg[:k]
		if strings.Trim(full[k+1:], "x") != "" {
			return "", 0, false, false, "payload padding corrupted"
		}
	}
	parts := strings.Split(msg, "-")
	if len(parts) < 3 || parts[0] != "m" {
		return "", 0, false, false, fmt.Sprintf("payload lost: %v", af)
	}
	fmt.Sscan(parts[len(parts)-1], &i)
	nonce = strings.Join(parts[1:len(parts)-1], "-")
	meta = len(n.Params.Meta) > 0
	intact = true
	wantMeta := map[string]interface{}{"tok": msg, "n": float64(i)}
	if meta && !reflect.DeepEqual(norm(n.Params.Meta), norm(wantMeta)) {
		intact, detail = false, fmt.Sprintf("_meta %v != %v", n.Params.Meta, wantMeta)
	}
	switch kind {
	case "progress":
		// the value is compared by the caller, which knows the emission
		if _, ok := af["progress"].(float64); !ok {
			intact, detail = false, fmt.Sprintf("progress %v is not a number", af["progress"])
		}
	case "log":
		// the level is compared by the caller, which knows the emission
		if _, ok := af["level"].(string); !ok {
			intact, detail = false, fmt.Sprintf("level %v is not a string", af["level"])
		}
	case "custom":
		want := map[string]interface{}{"seq": float64(i), "text": full}
		if !meta {
			want["nested"] = map[string]interface{}{"a": []interface{}{1.0, "x", nil}}
		}
		if !reflect.DeepEqual(norm(af), norm(want)) {
			intact, detail = false, fmt.Sprintf("params %v != %v", af, want)
		}
	}
	return
}

func c10RunGroup(group []c10Scenario) []c10Result {
	results := make([]c10Result, len(group))
	for i := range group {
		results[i].ID = group[i].ID
	}
	mode := group[0].Mode
	var mu sync.Mutex
	traces := map[string]*[]map[string]interface{}{}
	returned := map[string]bool{}
	idx := map[string]int{}
	for i, sc := range group {
		idx[sc.ID] = i
		t := []map[string]interface{}{{"e": "cfg", "mode": sc.Mode, "reg": sc.Reg}}
		traces[sc.ID] = &t
	}
	ev := func(id string, m map[string]interface{}) {
		if t := traces[id]; t != nil {
			*t = append(*t, m)
		}
	}
	sopts := []mcp.ServerOption{mcp.WithServerPath("/mcp"), mcp.WithServerLogger(silentLogger{}), mcp.WithPostSSEEnabled(mode == "sse")}
	switch group[0].Srv {
	case "stateless":
		sopts = append(sopts, mcp.WithStatelessMode(true))
	case "nosession":
		sopts = append(sopts, mcp.WithoutSession())
	}
	srv := mcp.NewServer("verif", "1.0", sopts...)
	srv.RegisterTool(mcp.NewTool("emit", mcp.WithString("nonce")), func(ctx context.Context, req *mcp.CallToolRequest) (*mcp.CallToolResult, error) {
		nonce, _ := req.Params.Arguments["nonce"].(string)
		var script []c10Emit
		b, _ := json.Marshal(req.Params.Arguments["script"])
		json.Unmarshal(b, &script)
		for _, e := range script {
			mu.Lock()
			ev(nonce, map[string]interface{}{"e": "emit", "kind": e.Kind, "meta": e.Meta, "i": e.I})
			mu.Unlock()
			if err := c10Send(ctx, nonce, e); err != nil {
				return nil, err
			}
		}
		return mcp.NewTextResult("done-" + nonce), nil
	})
	ts := httptest.NewServer(srv.Handler())
	defer func() { closeClientConns(ts); closeTS(ts) }()
	url := ts.URL + "/mcp"
	client, err := mcp.NewClient(url, mcp.Implementation{Name: "verif", Version: "0"}, mcp.WithClientLogger(silentLogger{}), mcp.WithClientGetSSEEnabled(false))
	if err != nil {
		results[0].Broken = err.Error()
		return results
	}
	defer client.Close()
	ctx, cancel := context.WithTimeout(context.Background(), 10*time.Second)
	defer cancel()
	if _, err := client.Initialize(ctx, &mcp.InitializeRequest{}); err != nil {
		results[0].Broken = "initialize: " + err.Error()
		return results
	}
	if group[0].Rereg {
		replaced := false
		for _, kind := range group[0].Reg {
			kind := kind
			client.RegisterNotificationHandler(c10Method[kind], func(n *mcp.JSONRPCNotification) error {
				mu.Lock()
				defer mu.Unlock()
				if replaced {
					results[0].Delivered = append(results[0].Delivered, c10Deliver{Kind: kind, Intact: false, Detail: "delivered to a handler that had been replaced by a later registration for the same method"})
				}
				return nil
			})
		}
		req := &mcp.CallToolRequest{}
		req.Params.Name = "emit"
		req.Params.Arguments = map[string]interface{}{"nonce": "warm-" + group[0].ID, "script": group[0].Emitted}
		if _, err := client.CallTool(ctx, req); err != nil {
			// the warm-up call is a call like the judged one: its failure is an observation
			results[0].Err = "warm-up call: " + err.Error()
			return results
		}
		defer func() { mu.Lock(); replaced = false; mu.Unlock() }()
		mu.Lock()
		replaced = true
		mu.Unlock()
	}
	for _, kind := range group[0].Reg {
		client.RegisterNotificationHandler(c10Method[kind], func(n *mcp.JSONRPCNotification) error {
			nonce, i, meta, intact, detail := c10Check(n)
			if group[0].SlowUs > 0 {
				time.Sleep(time.Duration(group[0].SlowUs) * time.Microsecond)
			}
			mu.Lock()
			defer mu.Unlock()
			k, ok := idx[nonce]
			if !ok {
				k = 0
				detail = "unattributable notification: " + detail
				intact = false
			} else if n.Method == c10Method["log"] && intact {
				for _, e := range group[k].Emitted {
					if e.Kind == "log" && e.I == i {
						want := "info"
						if !e.Meta {
							want = e.level()
						}
						if l, _ := n.Params.AdditionalFields["level"].(string); l != want {
							intact, detail = false, fmt.Sprintf("level %q != %q", l, want)
						}
					}
				}
			} else if n.Method == c10Method["progress"] && intact {
				for _, e := range group[k].Emitted {
					if e.Kind == "progress" && e.I == i {
						if p, _ := n.Params.AdditionalFields["progress"].(float64); p != e.progress() {
							intact, detail = false, fmt.Sprintf("progress %v != %v", n.Params.AdditionalFields["progress"], e.progress())
						}
					}
				}
			}
			results[k].Delivered = append(results[k].Delivered, c10Deliver{Kind: c10Kind(n.Method), Meta: meta, I: i, Intact: intact, Detail: detail, AfterRet: returned[nonce]})
			ev(group[k].ID, map[string]interface{}{"e": "deliver", "kind": c10Kind(n.Method), "meta": meta, "i": i})
			if group[0].HandlerErr && i%2 == 1 {
				// what a handler returns is the application's business: the call goes on
				return fmt.Errorf("handler-error-%d", i)
			}
			return nil
		})
	}
	var wg sync.WaitGroup
	for gi, sc := range group {
		wg.Add(1)
		go func(gi int, sc c10Scenario) {
			defer wg.Done()
			req := &mcp.CallToolRequest{}
			req.Params.Name = "emit"
			req.Params.Arguments = map[string]interface{}{"nonce": sc.ID, "script": sc.Emitted}
			res, err := client.CallTool(ctx, req)
			mu.Lock()
			defer mu.Unlock()
			returned[sc.ID] = true
			if err != nil {
				results[gi].Err = err.Error()
				ev(sc.ID, map[string]interface{}{"e": "ret", "result": "error"})
				return
			}
			if len(res.Content) == 1 {
				if tc, ok := res.Content[0].(mcp.TextContent); ok && tc.Text == "done-"+sc.ID {
					results[gi].ResultOK = true
				}
			}
			if results[gi].ResultOK {
				ev(sc.ID, map[string]interface{}{"e": "ret", "result": "ok"})
			} else {
				ev(sc.ID, map[string]interface{}{"e": "ret", "result": "wrong"})
			}
		}(gi, sc)
	}
	wg.Wait()
	time.Sleep(15 * time.Millisecond) // anything dispatched after the return shows up as after_return
	// raw wire of the same call, seen by the reference peer
	sid := client.GetSessionID()
	for gi, sc := range group {
		body, _ := json.Marshal(map[string]interface{}{"jsonrpc": "2.0", "id": 77, "method": "tools/call",
			"params": map[string]interface{}{"name": "emit", "arguments": map[string]interface{}{"nonce": "raw-" + sc.ID, "script": sc.Emitted}}})
		r := peer.PostJSON(ctx, url, map[string]string{"Mcp-Session-Id": sid}, body, true)
		if strings.Contains(r.Header.Get("Content-Type"), "text/event-stream") {
			evs, _ := peer.ParseSSE(r.Body)
			for _, e := range evs {
				results[gi].WireIDs = append(results[gi].WireIDs, e.ID)
				var m map[string]interface{}
				json.Unmarshal([]byte(e.Data), &m)
				switch {
				case m["method"] != nil:
					results[gi].WireKinds = append(results[gi].WireKinds, "notif")
				case m["result"] != nil || m["error"] != nil:
					results[gi].WireKinds = append(results[gi].WireKinds, "result")
				default:
					results[gi].WireKinds = append(results[gi].WireKinds, "other")
				}
			}
		} else {
			results[gi].WireKinds = []string{"json"}
		}
		mu.Lock()
		ids := results[gi].WireIDs
		if ids == nil {
			ids = []string{}
		}
		ev(sc.ID, map[string]interface{}{"e": "wire", "ids": ids})
		results[gi].Trace = *traces[sc.ID]
		mu.Unlock()
	}
	return results
}

func init() {
	register("c10", func(args []string) int {
		var in struct {
			Groups [][]c10Scenario `json:"groups"`
		}
		readInput(&in)
		out := struct {
			Results []c10Result `json:"results"`
		}{}
		for _, g := range in.Groups {
			out.Results = append(out.Results, c10RunGroup(g)...)
		}
		writeOutput(out)
		return 0
	})
}
