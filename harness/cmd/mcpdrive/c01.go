package main

// C01: every call gets exactly one answer, and it is its own.
//   load   : K library clients x M goroutines x L calls (tools/call, resources/read, prompts/get, nonce in the
//            arguments, handler delays shuffle the completion order) on every transport / mode; event log for TLC
//   bigid  : library clients whose request counter is positioned at 10^6-1, 2^31-1, 2^53-3
//   ids    : raw peers replay an id-class table against every server mode and compare the echoed id
//   slow   : legacy SSE: many answers queued while the stream reader stalls
// The stdio server runs in a child process (this binary, sub-command stdioserver) driven by the library's stdio client.

import (
	"bufio"
	"bytes"
	"context"
	"encoding/json"
	"fmt"
	"io"
	"math/rand"
	"net/http"
	"net/http/httptest"
	"os"
	"path/filepath"
	"strings"
	"sync"
	"sync/atomic"
	"time"

	mcp "trpc.group/trpc-go/trpc-mcp-go"
	"verifharness/internal/peer"
)

type c01Caller interface {
	Initialize(ctx context.Context, req *mcp.InitializeRequest) (*mcp.InitializeResult, error)
	Close() error
	CallTool(ctx context.Context, req *mcp.CallToolRequest) (*mcp.CallToolResult, error)
	ReadResource(ctx context.Context, req *mcp.ReadResourceRequest) (*mcp.ReadResourceResult, error)
	GetPrompt(ctx context.Context, req *mcp.GetPromptRequest) (*mcp.GetPromptResult, error)
}

type regAll interface {
	RegisterTool(*mcp.Tool, func(context.Context, *mcp.CallToolRequest) (*mcp.CallToolResult, error))
}

// c01Handlers builds the three echo handlers; every invocation is reported through onRun(nonce).
func c01Tool(onRun func(string)) func(context.Context, *mcp.CallToolRequest) (*mcp.CallToolResult, error) {
	return func(ctx context.Context, req *mcp.CallToolRequest) (*mcp.CallToolResult, error) {
		n, _ := req.Params.Arguments["nonce"].(string)
		onRun(n)
		if d, ok := req.Params.Arguments["delay_ms"].(float64); ok && d > 0 {
			time.Sleep(time.Duration(d * float64(time.Millisecond)))
		}
		pad, _ := req.Params.Arguments["pad"].(float64)
		return mcp.NewTextResult("T:" + n + "|" + strings.Repeat("p", int(pad))), nil
	}
}

// a tool built with the library's typed handler: its answer is computed from the request's own (partly optional) arguments
type c01TypedIn struct {
	Nonce string `json:"nonce"`
	Opt   string `json:"opt,omitempty"`
	Days  int    `json:"days,omitempty"`
	Delay int    `json:"delay_ms,omitempty"`
}
type c01TypedOut struct {
	Echo string `json:"echo"`
}

func c01Typed(onRun func(string)) func(context.Context, *mcp.CallToolRequest) (*mcp.CallToolResult, error) {
	return mcp.NewTypedToolHandler(func(ctx context.Context, req *mcp.CallToolRequest, in c01TypedIn) (c01TypedOut, error) {
		onRun(in.Nonce)
		if in.Delay > 0 {
			time.Sleep(time.Duration(in.Delay) * time.Millisecond)
		}
		return c01TypedOut{Echo: fmt.Sprintf("T:%s|opt=%s;days=%d", in.Nonce, in.Opt, in.Days)}, nil
	})
}

func c01Res(onRun func(string)) func(context.Context, *mcp.ReadResourceRequest) (mcp.ResourceContents, error) {
	return func(ctx context.Context, req *mcp.ReadResourceRequest) (mcp.ResourceContents, error) {
		n, _ := req.Params.Arguments["nonce"].(string)
		onRun(n)
		if d, ok := req.Params.Arguments["delay_ms"].(float64); ok && d > 0 {
			time.Sleep(time.Duration(d * float64(time.Millisecond)))
		}
		return mcp.TextResourceContents{URI: req.Params.URI, Text: "R:" + n + "|"}, nil
	}
}

func c01Prompt(onRun func(string)) func(context.Context, *mcp.GetPromptRequest) (*mcp.GetPromptResult, error) {
	return func(ctx context.Context, req *mcp.GetPromptRequest) (*mcp.GetPromptResult, error) {
		n := req.Params.Arguments["nonce"]
		onRun(n)
		var d float64
		fmt.Sscan(req.Params.Arguments["delay_ms"], &d)
		if d > 0 {
			time.Sleep(time.Duration(d * float64(time.Millisecond)))
		}
		return &mcp.GetPromptResult{Description: "P:" + n + "|", Messages: []mcp.PromptMessage{}}, nil
	}
}

// stdioserver: the library's stdio server on the real stdin/stdout; handler runs are appended to a file.
func stdioServerMain(args []string) int {
	var f *os.File
	if len(args) > 0 {
		f, _ = os.OpenFile(args[0], os.O_APPEND|os.O_CREATE|os.O_WRONLY, 0644)
	}
	var mu sync.Mutex
	onRun := func(n string) {
		if f != nil {
			mu.Lock()
			fmt.Fprintln(f, n)
			mu.Unlock()
		}
	}
	srv := mcp.NewStdioServer("verif-stdio", "1.0", mcp.WithStdioServerLogger(silentLogger{}))
	srv.RegisterTool(mcp.NewTool("echo", mcp.WithString("nonce"), mcp.WithNumber("delay_ms"), mcp.WithNumber("pad")), c01Tool(onRun))
	srv.RegisterTool(mcp.NewTool("typed", mcp.WithInputStruct[c01TypedIn]()), c01Typed(onRun))
	srv.RegisterResource(&mcp.Resource{URI: "r://echo", Name: "echo"}, c01Res(onRun))
	srv.RegisterPrompt(&mcp.Prompt{Name: "echo"}, c01Prompt(onRun))
	if err := srv.Start(); err != nil {
		return 1
	}
	return 0
}

type c01World struct {
	nclients int
	mode     string
	url      string
	ts       *httptest.Server
	dir      string
	runFile  string
	cleanup  []func()
}

func c01NewWorld(mode string, onRun func(string)) (*c01World, error) {
	w := &c01World{mode: mode}
	tool := mcp.NewTool("echo", mcp.WithString("nonce"), mcp.WithNumber("delay_ms"), mcp.WithNumber("pad"))
	switch mode {
	case "json", "sse", "stateless", "nosession":
		opts := []mcp.ServerOption{mcp.WithServerPath("/mcp"), mcp.WithServerLogger(silentLogger{}), mcp.WithPostSSEEnabled(mode == "sse")}
		if mode == "stateless" {
			opts = append(opts, mcp.WithStatelessMode(true))
		}
		if mode == "nosession" {
			opts = append(opts, mcp.WithoutSession())
		}
		srv := mcp.NewServer("verif", "1.0", opts...)
		srv.RegisterTool(tool, c01Tool(onRun))
		srv.RegisterTool(mcp.NewTool("typed", mcp.WithInputStruct[c01TypedIn]()), c01Typed(onRun))
		srv.RegisterResource(&mcp.Resource{URI: "r://echo", Name: "echo"}, c01Res(onRun))
		srv.RegisterPrompt(&mcp.Prompt{Name: "echo"}, c01Prompt(onRun))
		w.ts = httptest.NewServer(srv.Handler())
		w.url = w.ts.URL + "/mcp"
	case "legacy":
		// keep-alive comments every millisecond share the stream with the answers; the stream's sink takes every Write in two
		// pieces (as a slow connection would), so a writer that does not hold the stream's lock lands inside an answer frame
		srv := mcp.NewSSEServer("verif", "1.0", mcp.WithSSEServerLogger(silentLogger{}), mcp.WithKeepAliveInterval(time.Millisecond))
		srv.RegisterTool(tool, c01Tool(onRun))
		srv.RegisterTool(mcp.NewTool("typed", mcp.WithInputStruct[c01TypedIn]()), c01Typed(onRun))
		srv.RegisterResource(&mcp.Resource{URI: "r://echo", Name: "echo"}, c01Res(onRun))
		srv.RegisterPrompt(&mcp.Prompt{Name: "echo"}, c01Prompt(onRun))
		w.ts = httptest.NewServer(http.HandlerFunc(func(rw http.ResponseWriter, r *http.Request) {
			if r.Method == http.MethodGet {
				rw = &splitRW{ResponseWriter: rw}
			}
			srv.ServeHTTP(rw, r)
		}))
		w.url = w.ts.URL + "/sse"
	case "stdio":
		w.dir, _ = os.MkdirTemp("", "c01")
		w.runFile = filepath.Join(w.dir, "runs")
	default:
		return nil, fmt.Errorf("unknown mode %s", mode)
	}
	return w, nil
}

// splitRW passes every Write on in two pieces with a pause between them; each piece is written atomically.
type splitRW struct {
	http.ResponseWriter
	mu sync.Mutex
}

func (w *splitRW) piece(p []byte) (int, error) {
	w.mu.Lock()
	defer w.mu.Unlock()
	return w.ResponseWriter.Write(p)
}

func (w *splitRW) Write(p []byte) (int, error) {
	if len(p) < 8 {
		return w.piece(p)
	}
	h := len(p) / 2
	if n, err := w.piece(p[:h]); err != nil {
		return n, err
	}
	time.Sleep(150 * time.Microsecond)
	n, err := w.piece(p[h:])
	return h + n, err
}

func (w *splitRW) Flush() {
	w.mu.Lock()
	defer w.mu.Unlock()
	if f, ok := w.ResponseWriter.(http.Flusher); ok {
		f.Flush()
	}
}

// slowAckHandler hands the response of a POST to the client 15 ms late.
type slowAckHandler struct{}

func (slowAckHandler) Handle(ctx context.Context, client *http.Client, req *http.Request) (*http.Response, error) {
	resp, err := client.Do(req.WithContext(ctx))
	if req.Method == http.MethodPost {
		time.Sleep(15 * time.Millisecond)
	}
	return resp, err
}

func (w *c01World) close() {
	for _, f := range w.cleanup {
		f()
	}
	if w.ts != nil {
		closeClientConns(w.ts)
		closeTS(w.ts)
	}
	if w.dir != "" {
		os.RemoveAll(w.dir)
	}
}

func (w *c01World) newClient() (c01Caller, error) {
	info := mcp.Implementation{Name: "verif", Version: "0"}
	var c c01Caller
	var err error
	switch w.mode {
	case "legacy":
		// the acknowledgement of a POST reaches every other client late (a slow path back): the answer may be on the stream first
		w.nclients++
		if w.nclients%2 == 0 {
			c, err = mcp.NewSSEClient(w.url, info, mcp.WithClientLogger(silentLogger{}), mcp.WithHTTPReqHandler(slowAckHandler{}))
		} else {
			c, err = mcp.NewSSEClient(w.url, info, mcp.WithClientLogger(silentLogger{}))
		}
	case "stdio":
		exe, _ := os.Executable()
		c, err = mcp.NewStdioClient(mcp.StdioTransportConfig{ServerParams: mcp.StdioServerParameters{Command: exe, Args: []string{"stdioserver", w.runFile}},
			Timeout: 20 * time.Second}, info, mcp.WithStdioLogger(silentLogger{}))
	default:
		c, err = mcp.NewClient(w.url, info, mcp.WithClientLogger(silentLogger{}), mcp.WithClientGetSSEEnabled(false))
	}
	if err != nil {
		return nil, err
	}
	ctx, cancel := context.WithTimeout(context.Background(), 10*time.Second)
	defer cancel()
	if _, err := c.Initialize(ctx, &mcp.InitializeRequest{}); err != nil {
		c.Close()
		return nil, fmt.Errorf("initialize: %w", err)
	}
	return c, nil
}

// c01Call performs one call of the given kind and returns the nonce found in the answer ("" if none).
func c01Call(ctx context.Context, c c01Caller, kind int, nonce string, delay, pad int) (string, error) {
	extract := func(s, prefix string) string {
		if !strings.HasPrefix(s, prefix) {
			return "garbled:" + s
		}
		s = s[len(prefix):]
		if i := strings.IndexByte(s, '|'); i >= 0 {
			return s[:i]
		}
		return "garbled:" + s
	}
	switch kind % 4 {
	case 3:
		// typed tool: optional arguments are sent by some calls and omitted by others
		req := &mcp.CallToolRequest{}
		req.Params.Name = "typed"
		args := map[string]interface{}{"nonce": nonce, "delay_ms": delay}
		want := "opt=;days=0"
		if len(nonce)%2 == 0 {
			args["opt"], args["days"] = "o-"+nonce, len(nonce)+pad%7
			want = fmt.Sprintf("opt=o-%s;days=%d", nonce, len(nonce)+pad%7)
		}
		req.Params.Arguments = args
		res, err := c.CallTool(ctx, req)
		if err != nil {
			return "", err
		}
		if len(res.Content) != 1 {
			return fmt.Sprintf("garbled:%d content items", len(res.Content)), nil
		}
		tc, ok := res.Content[0].(mcp.TextContent)
		if !ok {
			return "garbled:content type", nil
		}
		var out c01TypedOut
		if json.Unmarshal([]byte(tc.Text), &out) != nil {
			return "garbled:" + tc.Text, nil
		}
		if i := strings.IndexByte(out.Echo, '|'); i < 0 || out.Echo[i+1:] != want {
			return "garbled:computed from other arguments: " + out.Echo + " (sent " + want + ")", nil
		}
		return extract(out.Echo, "T:"), nil
	case 0:
		req := &mcp.CallToolRequest{}
		req.Params.Name = "echo"
		req.Params.Arguments = map[string]interface{}{"nonce": nonce, "delay_ms": delay, "pad": pad}
		if pad < 0 {
			// a large REQUEST (5 MiB of an argument the tool ignores), a small answer
			req.Params.Arguments["pad"] = 0
			req.Params.Arguments["ballast"] = strings.Repeat("q", 5<<20)
		}
		res, err := c.CallTool(ctx, req)
		if err != nil {
			return "", err
		}
		if len(res.Content) != 1 {
			return fmt.Sprintf("garbled:%d content items", len(res.Content)), nil
		}
		tc, ok := res.Content[0].(mcp.TextContent)
		if !ok {
			return "garbled:content type", nil
		}
		return extract(tc.Text, "T:"), nil
	case 1:
		req := &mcp.ReadResourceRequest{}
		req.Params.URI = "r://echo"
		req.Params.Arguments = map[string]interface{}{"nonce": nonce, "delay_ms": delay}
		res, err := c.ReadResource(ctx, req)
		if err != nil {
			return "", err
		}
		if len(res.Contents) != 1 {
			return fmt.Sprintf("garbled:%d contents", len(res.Contents)), nil
		}
		tc, ok := res.Contents[0].(mcp.TextResourceContents)
		if !ok {
			return "garbled:contents type", nil
		}
		return extract(tc.Text, "R:"), nil
	default:
		req := &mcp.GetPromptRequest{}
		req.Params.Name = "echo"
		req.Params.Arguments = map[string]string{"nonce": nonce, "delay_ms": fmt.Sprint(delay)}
		res, err := c.GetPrompt(ctx, req)
		if err != nil {
			return "", err
		}
		return extract(res.Description, "P:"), nil
	}
}

type c01LoadIn struct {
	Mode     string `json:"mode"`
	Clients  int    `json:"clients"`
	Workers  int    `json:"workers"`
	Calls    int    `json:"calls"`
	Seed     int64  `json:"seed"`
	StartID  int64  `json:"start_id"` // >0: position the request counter
	MaxDelay int    `json:"max_delay"`
	ID       string `json:"id"`
}

type c01LoadOut struct {
	ID         string                   `json:"id"`
	Mode       string                   `json:"mode"`
	Trace      []map[string]interface{} `json:"trace"`
	Broken     string                   `json:"broken,omitempty"`
	InitFailed string                   `json:"init_failed,omitempty"`
	Pend       int                      `json:"pending_end"`
}

func c01Load(in c01LoadIn) (out c01LoadOut) {
	out.ID, out.Mode = in.ID, in.Mode
	var mu sync.Mutex
	var trace []map[string]interface{}
	ev := func(m map[string]interface{}) { mu.Lock(); trace = append(trace, m); mu.Unlock() }
	onRun := func(n string) { ev(map[string]interface{}{"e": "handler", "nonce": n}) }
	w, err := c01NewWorld(in.Mode, onRun)
	if err != nil {
		out.Broken = err.Error()
		return
	}
	defer w.close()
	rnd := rand.New(rand.NewSource(in.Seed))
	var wg sync.WaitGroup
	var seq int64
	clients := make([]c01Caller, in.Clients)
	for i := range clients {
		c, err := w.newClient()
		if err != nil {
			if strings.HasPrefix(err.Error(), "initialize:") {
				// the handshake request is a request like any other: no answer while the connection is up
				out.InitFailed = err.Error()
				out.Trace = trace
				for _, pc := range clients[:i] {
					pc.Close()
				}
				return
			}
			out.Broken = "client: " + err.Error()
			return
		}
		if in.StartID > 0 {
			mcp.VerifSetNextRequestID(c, in.StartID)
		}
		clients[i] = c
	}
	type plan struct{ kind, delay, pad int }
	plans := map[string][]plan{}
	for ci := range clients {
		for wi := 0; wi < in.Workers; wi++ {
			key := fmt.Sprintf("%d/%d", ci, wi)
			for k := 0; k < in.Calls; k++ {
				d := 0
				if in.MaxDelay > 0 {
					d = rnd.Intn(in.MaxDelay + 1)
				}
				pad := 0
				if rnd.Intn(6) == 0 {
					pad = []int{5000, 70000, 300000}[rnd.Intn(3)]
				}
				plans[key] = append(plans[key], plan{rnd.Intn(4), d, pad})
			}
			if ci == 0 && wi == 0 && in.Mode != "stdio" && in.StartID == 0 {
				plans[key] = append(plans[key], plan{0, 0, -1})
			}
		}
	}
	for ci, c := range clients {
		for wi := 0; wi < in.Workers; wi++ {
			wg.Add(1)
			go func(ci, wi int, c c01Caller) {
				defer wg.Done()
				for _, p := range plans[fmt.Sprintf("%d/%d", ci, wi)] {
					n := atomic.AddInt64(&seq, 1)
					nonce := fmt.Sprintf("n%d", n)
					ev(map[string]interface{}{"e": "call", "c": int(n), "nonce": nonce})
					ctx, cancel := context.WithTimeout(context.Background(), 20*time.Second)
					got, err := c01Call(ctx, c, p.kind, nonce, p.delay, p.pad)
					cancel()
					if err != nil {
						ev(map[string]interface{}{"e": "ret", "c": int(n), "got": "error", "err": err.Error()})
					} else {
						ev(map[string]interface{}{"e": "ret", "c": int(n), "got": got})
					}
				}
			}(ci, wi, c)
		}
	}
	wg.Wait()
	for _, c := range clients {
		if p := mcp.VerifClientPending(c); p > 0 {
			out.Pend += p
		}
		c.Close()
	}
	if w.runFile != "" {
		// handler runs of the child process: placed right after the call they belong to (only their number matters)
		b, _ := os.ReadFile(w.runFile)
		runs := map[string]int{}
		for _, l := range strings.Split(string(b), "\n") {
			if l != "" {
				runs[l]++
			}
		}
		var merged []map[string]interface{}
		for _, e := range trace {
			merged = append(merged, e)
			if e["e"] == "call" {
				for i := 0; i < runs[e["nonce"].(string)]; i++ {
					merged = append(merged, map[string]interface{}{"e": "handler", "nonce": e["nonce"]})
				}
			}
		}
		trace = merged
	}
	trace = append(trace, map[string]interface{}{"e": "end"})
	out.Trace = trace
	return
}

// ---------------------------------------------------------------- raw id table

type c01IDOut struct {
	Mode   string          `json:"mode"`
	Sent   json.RawMessage `json:"sent"`
	Got    json.RawMessage `json:"got"`
	Text   string          `json:"text"`
	Status int             `json:"status"`
	Note   string          `json:"note,omitempty"`
	Frames int             `json:"frames"` // answer frames seen for this one request
}

func c01IDs(mode string, ids []json.RawMessage) (outs []c01IDOut, broken string) {
	onRun := func(string) {}
	ctx := context.Background()
	mk := func(id json.RawMessage, nonce string) []byte {
		pad := 0
		if strings.HasSuffix(nonce, "3") || strings.HasSuffix(nonce, "8") {
			pad = 300000 // a large answer
		}
		return []byte(fmt.Sprintf(`{"jsonrpc":"2.0","id":%s,"method":"tools/call","params":{"name":"echo","arguments":{"nonce":"%s","pad":%d}}}`, id, nonce, pad))
	}
	parse := func(data []byte, nonce string) (json.RawMessage, string) {
		var m struct {
			ID     json.RawMessage `json:"id"`
			Result struct {
				Content []struct {
					Text string `json:"text"`
				} `json:"content"`
			} `json:"result"`
		}
		if err := json.Unmarshal(data, &m); err != nil {
			return nil, "unparsable:" + string(data)
		}
		t := ""
		if len(m.Result.Content) > 0 {
			t = m.Result.Content[0].Text
		}
		return m.ID, t
	}
	if mode == "stdio" {
		srv := mcp.NewStdioServer("verif", "1.0", mcp.WithStdioServerLogger(silentLogger{}))
		srv.RegisterTool(mcp.NewTool("echo", mcp.WithString("nonce")), c01Tool(onRun))
		pr, pw := io.Pipe()
		rec := &recorder{}
		sctx, cancel := context.WithCancel(ctx)
		defer func() { cancel(); pw.Close() }()
		go mcp.VerifServeStdio(sctx, srv, pr, rec)
		fmt.Fprintf(pw, "%s\n", peer.InitRequest("init"))
		for i, id := range ids {
			nonce := fmt.Sprintf("idn%d", i)
			fmt.Fprintf(pw, "%s\n", mk(id, nonce))
			dl := time.Now().Add(2 * time.Second)
			var line string
			for time.Now().Before(dl) && line == "" {
				_, all := rec.snapshot()
				for _, l := range strings.Split(all, "\n") {
					if strings.Contains(l, "T:"+nonce+"|") {
						line = l
					}
				}
				time.Sleep(time.Millisecond)
			}
			o := c01IDOut{Mode: mode, Sent: id}
			if line == "" {
				o.Note = "no answer line"
			} else {
				o.Got, o.Text = parse([]byte(line), nonce)
				time.Sleep(3 * time.Millisecond)
				_, all := rec.snapshot()
				o.Frames = strings.Count(all, "T:"+nonce+"|")
			}
			outs = append(outs, o)
		}
		return
	}
	w, err := c01NewWorld(mode, onRun)
	if err != nil {
		return nil, err.Error()
	}
	defer w.close()
	if mode == "legacy" {
		st, err := peer.OpenSSE(ctx, http.MethodGet, w.url, map[string]string{"Accept": "text/event-stream"}, nil)
		if err != nil || st.Status != 200 {
			return nil, "GET /sse failed"
		}
		defer st.Close()
		var endpoint string
		st.WaitFor(3*time.Second, func(raw []byte, eof bool) bool {
			evs, _ := peer.ParseSSE(raw)
			for _, e := range evs {
				if e.Event == "endpoint" {
					endpoint = e.Data
					return true
				}
			}
			return false
		})
		msg := w.ts.URL + endpoint
		peer.PostJSON(ctx, msg, nil, peer.InitRequest("init"), false)
		peer.PostJSON(ctx, msg, nil, peer.InitializedNotification(), false)
		for i, id := range ids {
			nonce := fmt.Sprintf("idn%d", i)
			r := peer.PostJSON(ctx, msg, nil, mk(id, nonce), false)
			o := c01IDOut{Mode: mode, Sent: id, Status: r.Status}
			var data string
			st.WaitFor(2*time.Second, func(raw []byte, eof bool) bool {
				evs, _ := peer.ParseSSE(raw)
				for _, e := range evs {
					if strings.Contains(e.Data, "T:"+nonce+"|") {
						data = e.Data
						return true
					}
				}
				return false
			})
			if data == "" {
				o.Note = "no answer on the stream"
			} else {
				o.Got, o.Text = parse([]byte(data), nonce)
				time.Sleep(3 * time.Millisecond)
				for _, e := range st.Events() {
					if strings.Contains(e.Data, "T:"+nonce+"|") {
						o.Frames++
					}
				}
			}
			outs = append(outs, o)
		}
		return
	}
	hdr := map[string]string{}
	if mode == "json" || mode == "sse" {
		sid, err := peer.Handshake(ctx, w.url, nil)
		if err != nil {
			return nil, "handshake: " + err.Error()
		}
		hdr["Mcp-Session-Id"] = sid
	}
	for i, id := range ids {
		nonce := fmt.Sprintf("idn%d", i)
		r := peer.PostJSON(ctx, w.url, hdr, mk(id, nonce), mode == "sse")
		o := c01IDOut{Mode: mode, Sent: id, Status: r.Status}
		body := r.Body
		if strings.Contains(r.Header.Get("Content-Type"), "event-stream") {
			evs, _ := peer.ParseSSE(r.Body)
			body = nil
			for _, e := range evs {
				if strings.Contains(e.Data, `"result"`) || strings.Contains(e.Data, `"error"`) {
					body = []byte(e.Data)
					o.Frames++
				}
			}
		} else {
			o.Frames = 1
		}
		if len(bytes.TrimSpace(body)) == 0 {
			o.Note = "empty answer"
		} else {
			o.Got, o.Text = parse(body, nonce)
		}
		outs = append(outs, o)
	}
	return
}

// ---------------------------------------------------------------- legacy slow reader

type c01SlowOut struct {
	Sent     int    `json:"sent"`
	Accepted int    `json:"accepted"`
	Answered int    `json:"answered"`
	Dups     int    `json:"dups"`
	Broken   string `json:"broken,omitempty"`
}

func c01Slow(calls, pad int) (out c01SlowOut) {
	onRun := func(string) {}
	w, err := c01NewWorld("legacy", onRun)
	if err != nil {
		out.Broken = err.Error()
		return
	}
	defer w.close()
	ctx := context.Background()
	// a raw connection whose body we do not read for a while
	req, _ := http.NewRequestWithContext(ctx, http.MethodGet, w.url, nil)
	req.Header.Set("Accept", "text/event-stream")
	resp, err := peer.Client.Do(req)
	if err != nil || resp.StatusCode != 200 {
		out.Broken = "GET /sse failed"
		return
	}
	defer resp.Body.Close()
	rd := bufio.NewReaderSize(resp.Body, 1<<20)
	var endpoint string
	for endpoint == "" {
		line, err := rd.ReadString('\n')
		if err != nil {
			out.Broken = "stream ended before the endpoint event"
			return
		}
		if strings.HasPrefix(line, "data: ") && strings.Contains(line, "sessionId") {
			endpoint = strings.TrimSpace(line[6:])
		}
	}
	msg := w.ts.URL + endpoint
	peer.PostJSON(ctx, msg, nil, peer.InitRequest("init"), false)
	peer.PostJSON(ctx, msg, nil, peer.InitializedNotification(), false)
	out.Sent = calls
	var wg sync.WaitGroup
	var acc int32
	for i := 0; i < calls; i++ {
		wg.Add(1)
		go func(i int) {
			defer wg.Done()
			body := fmt.Sprintf(`{"jsonrpc":"2.0","id":%d,"method":"tools/call","params":{"name":"echo","arguments":{"nonce":"slow%d.","pad":%d}}}`, 1000+i, i, pad)
			if r := peer.PostJSON(ctx, msg, nil, []byte(body), false); r.Status == 202 {
				atomic.AddInt32(&acc, 1)
			}
		}(i)
	}
	wg.Wait()
	out.Accepted = int(acc)
	time.Sleep(300 * time.Millisecond) // the reader stalls: answers pile up in the session's queue
	// now read everything that arrives
	seen := map[string]int{}
	done := make(chan struct{})
	go func() {
		defer close(done)
		for {
			line, err := rd.ReadString('\n')
			if err != nil {
				return
			}
			if i := strings.Index(line, "T:slow"); i >= 0 {
				j := strings.IndexByte(line[i:], '|')
				if j > 0 {
					seen[line[i+2:i+j]]++
				}
			}
			if len(seen) >= calls {
				return
			}
		}
	}()
	select {
	case <-done:
	case <-time.After(8 * time.Second):
		resp.Body.Close()
		<-done
	}
	out.Answered = len(seen)
	for _, n := range seen {
		if n > 1 {
			out.Dups++
		}
	}
	return
}

func init() {
	register("stdioserver", stdioServerMain)
	register("c01", func(args []string) int {
		var in struct {
			Loads []c01LoadIn `json:"loads"`
			IDs   []struct {
				Mode string            `json:"mode"`
				IDs  []json.RawMessage `json:"ids"`
			} `json:"ids"`
			Slow *struct {
				Calls int `json:"calls"`
				Pad   int `json:"pad"`
			} `json:"slow"`
		}
		readInput(&in)
		out := struct {
			Loads  []c01LoadOut `json:"loads"`
			IDs    []c01IDOut   `json:"ids"`
			Slow   *c01SlowOut  `json:"slow,omitempty"`
			Broken string       `json:"broken,omitempty"`
		}{}
		for _, l := range in.Loads {
			out.Loads = append(out.Loads, c01Load(l))
		}
		for _, t := range in.IDs {
			o, b := c01IDs(t.Mode, t.IDs)
			if b != "" {
				out.Broken = b
			}
			out.IDs = append(out.IDs, o...)
		}
		if in.Slow != nil {
			s := c01Slow(in.Slow.Calls, in.Slow.Pad)
			out.Slow = &s
		}
		writeOutput(out)
		return 0
	})
}
