package main

// C07: adversarial server output against the real clients. A scripted server (HTTP / SSE / a scripted
// stdio child) emits one bad frame before, instead of, or after the well-formed answer of call 1;
// then call 2 is answered properly. Reported: how both calls ended, CPU burnt while idle, Close().

import (
	"context"
	"encoding/json"
	"fmt"
	"io"
	"net/http"
	"net/http/httptest"
	"os"
	"path/filepath"
	"strings"
	"sync"
	"sync/atomic"
	"syscall"
	"time"

	mcp "trpc.group/trpc-go/trpc-mcp-go"
)

type c07Scenario struct {
	ID      string `json:"id"`
	Client  string `json:"client"` // json sse get legacy stdio
	Bad     string `json:"bad"`
	Pos     string `json:"pos"` // before instead after
	Variant int    `json:"variant"`
}

type c07Call struct {
	OK  bool    `json:"ok"`
	Own bool    `json:"own"` // the result is this call's own
	Err string  `json:"err,omitempty"`
	Ms  float64 `json:"ms"`
}

type c07Result struct {
	ID       string  `json:"id"`
	Call1    c07Call `json:"call1"`
	Call2    c07Call `json:"call2"`
	IdleCPU  float64 `json:"idle_cpu_ms"`
	CloseErr string  `json:"close_err,omitempty"`
	CloseMs  float64 `json:"close_ms"`
	Marker   *bool   `json:"marker,omitempty"` // GET stream: the well-formed notification after the bad frame was dispatched
	Broken   string  `json:"broken,omitempty"`
	Gets     int     `json:"gets,omitempty"` // streamend: listening streams the client opened during the scenario
}

func cpuMs() float64 {
	var ru syscall.Rusage
	syscall.Getrusage(syscall.RUSAGE_SELF, &ru)
	return float64(ru.Utime.Sec+ru.Stime.Sec)*1000 + float64(ru.Utime.Usec+ru.Stime.Usec)/1000
}

// badBytes returns the raw payload (one JSON text or raw bytes) of a bad frame; raw=true means
// "do not wrap into an SSE data field / a line".
func badBytes(class string, variant int, own json.RawMessage) (payload string, raw bool) {
	switch class {
	case "garbage":
		return "\x00\x01\x02 \xff\xfe binary garbage", true
	case "nonjson":
		return []string{"this is not json", "{not json either}", "<html>502 Bad Gateway</html>"}[variant%3], false
	case "wrongkind":
		if variant%2 == 0 {
			return `{"jsonrpc":"2.0","id":"srv-9","method":"verif/unknown-request","params":{}}`, false
		}
		return `{"jsonrpc":"2.0","method":"notifications/verif-unknown","params":{"x":1}}`, false
	case "unknownid":
		return `{"jsonrpc":"2.0","id":987654321,"result":{"content":[{"type":"text","text":"stray"}]}}`, false
	case "idtype":
		stray := `{"content":[{"type":"text","text":"stray"}]}`
		return []string{`{"jsonrpc":"2.0","id":{"x":1},"result":` + stray + `}`, `{"jsonrpc":"2.0","id":true,"result":` + stray + `}`, `{"jsonrpc":"2.0","id":[1],"result":` + stray + `}`,
			`{"jsonrpc":"2.0","id":null,"error":{"code":-32700,"message":"parse"}}`, `{"jsonrpc":"2.0","id":"someone-else","result":` + stray + `}`,
			`{"jsonrpc":"2.0","id":` + string(own) + `.5,"result":` + stray + `}`}[variant%6], false
	case "giant":
		n := 100 * 1024
		if variant%2 == 1 {
			n = 8 * 1024 * 1024
		}
		return `{"jsonrpc":"2.0","method":"notifications/message","params":{"level":"info","data":"` + strings.Repeat("g", n) + `"}}`, false
	case "blank":
		return "\n\n\n", true
	case "comment":
		// the last variant is not followed by the blank line that ends an event: the stream just ends after it
		return []string{": just a comment", ": c1\n: c2\n:\nretry: 5", ": trailing comment without blank line\nevent: noise", ": unterminated comment" + c07NoBlank}[variant%4], true
	case "noresult":
		return fmt.Sprintf(`{"jsonrpc":"2.0","id":%s}`, own), false
	case "both":
		return fmt.Sprintf(`{"jsonrpc":"2.0","id":%s,"result":{"content":[{"type":"text","text":"both"}]},"error":{"code":-32603,"message":"both"}}`, own), false
	case "badutf8":
		return "{\"jsonrpc\":\"2.0\",\"method\":\"notifications/message\",\"params\":{\"data\":\"bad \xff\xfe utf8 \xc3\x28\"}}", false
	case "control-repeat":
		return "event: endpoint\ndata: /message?sessionId=again", true
	case "noevent":
		// SSE frames that carry data but no event type (and multi-line data): nothing to dispatch on the legacy stream
		return []string{`data: {"jsonrpc":"2.0","method":"notifications/verif-unknown","params":{"x":2}}`,
			"data: first line\ndata: second line", "data:", `data: {"partial":` + "\ndata: true}"}[variant%4], true
	case "streamend":
		return ": end", true
	case "otherevent":
		// well-formed SSE frames of event types the protocol does not define: a reader ignores what it does not know
		return []string{"event: error\ndata: upstream hiccup", "event: ping\ndata: {}", "event: close\ndata: bye", "event: message2\ndata: {\"jsonrpc\":\"2.0\"}"}[variant%4], true
	case "fieldtype":
		// an answer to this very call whose fields have the wrong JSON types
		results := []string{
			`{"content":[{"type":"audio","data":5,"mimeType":"audio/wav"}]}`,
			`{"content":[{"type":"audio","data":"aGk=","mimeType":null}]}`,
			`{"content":[{"type":"text","text":5}]}`,
			`{"content":[{"type":"image","data":{"x":1},"mimeType":"image/png"}]}`,
			`{"content":[{"type":"resource","resource":"not-an-object"}]}`,
			`{"content":"not-an-array"}`,
			`{"content":[7,null,"x"]}`,
			`{"content":[{"type":"text","text":"t"}],"isError":"yes"}`,
			`"a string"`,
			`{"content":[{"type":{"nested":true},"text":"t"}]}`,
			`{"content":[{"type":"resource","resource":{"uri":5,"text":[1]}}]}`,
			`{"content":[{"type":"text","text":"t","annotations":"x"}],"structuredContent":"s"}`,
			// variants 12..17: answers to tools/list (the scenario's first call is ListTools) whose tool schemas have odd shapes
			`{"tools":[{"name":"t","inputSchema":{"type":"object","properties":{"a":{"type":"array","items":[]}}}}]}`,
			`{"tools":[{"name":"t","inputSchema":{"type":"object","properties":{"a":{"type":"array","items":5}},"required":"a"}}]}`,
			`{"tools":[{"name":"t","inputSchema":{"type":7,"properties":[],"items":[[]]}}]}`,
			`{"tools":[{"name":"t","inputSchema":"not-an-object"},{"name":5},null]}`,
			`{"tools":[{"name":"t","inputSchema":{"type":"object","properties":{"a":{"type":"array","items":[{"type":"number"},{"type":"boolean"}]},"b":{"items":{"items":[]}}}},"annotations":"x"}]}`,
			`{"tools":"not-an-array"}`,
		}
		return fmt.Sprintf(`{"jsonrpc":"2.0","id":%s,"result":%s}`, own, results[variant%len(results)]), false
	case "truncated":
		return fmt.Sprintf(`{"jsonrpc":"2.0","id":%s,"result":{"content":[{"type":"te`, own), false
	}
	return "unknown-class", false
}

type c07Srv struct {
	sc     c07Scenario
	legacy bool
	mu     sync.Mutex
	sseW   http.ResponseWriter
	sseF   http.Flusher
	getW   http.ResponseWriter
	getF   http.Flusher
	getUp  chan struct{}
	calls  int32
	gets   int32 // listening streams opened (streamend)
}

// c07NoBlank at the end of a raw payload: write it with a single line end, no blank line after it
const c07NoBlank = "<no-blank-line>"

func c07Answer(id json.RawMessage, nonce string) string {
	return fmt.Sprintf(`{"jsonrpc":"2.0","id":%s,"result":{"content":[{"type":"text","text":"A:%s"}]}}`, id, nonce)
}

func (s *c07Srv) serve(w http.ResponseWriter, r *http.Request) {
	if r.Method == http.MethodGet {
		f := w.(http.Flusher)
		w.Header().Set("Content-Type", "text/event-stream")
		if !s.legacy {
			w.Header().Set("Mcp-Session-Id", "0123456789abcdef0123456789abcdef")
		}
		w.WriteHeader(200)
		s.mu.Lock()
		if s.legacy {
			s.sseW, s.sseF = w, f
			fmt.Fprintf(w, "event: endpoint\ndata: /message?sessionId=x\n\n")
		} else {
			s.getW, s.getF = w, f
			select {
			case <-s.getUp:
			default:
				close(s.getUp)
			}
		}
		f.Flush()
		if s.sc.Bad == "streamend" && !s.legacy {
			// the listening stream ends cleanly right away, every time it is opened (a server that does not keep such streams)
			s.getW, s.getF = nil, nil
			atomic.AddInt32(&s.gets, 1)
			io.WriteString(w, ": this server does not keep listening streams open\n\n")
			f.Flush()
			s.mu.Unlock()
			return
		}
		s.mu.Unlock()
		<-r.Context().Done()
		return
	}
	if r.Method == http.MethodDelete {
		w.WriteHeader(200)
		return
	}
	body, _ := io.ReadAll(r.Body)
	var m struct {
		ID     json.RawMessage `json:"id"`
		Method string          `json:"method"`
		Params struct {
			Arguments struct {
				Nonce string `json:"nonce"`
			} `json:"arguments"`
		} `json:"params"`
	}
	json.Unmarshal(body, &m)
	if m.ID == nil || m.Method == "" {
		w.WriteHeader(202)
		return
	}
	sid := "0123456789abcdef0123456789abcdef"
	if m.Method == "initialize" {
		p := fmt.Sprintf(`{"jsonrpc":"2.0","id":%s,"result":%s}`, m.ID, initOK)
		if s.legacy {
			w.WriteHeader(202)
			s.mu.Lock()
			fmt.Fprintf(s.sseW, "event: message\ndata: %s\n\n", p)
			s.sseF.Flush()
			s.mu.Unlock()
			return
		}
		w.Header().Set("Content-Type", "application/json")
		if s.sc.Client != "json0" {
			w.Header().Set("Mcp-Session-Id", sid)
		}
		w.WriteHeader(200)
		io.WriteString(w, p)
		return
	}
	n := atomic.AddInt32(&s.calls, 1)
	ans := c07Answer(m.ID, m.Params.Arguments.Nonce)
	bad, raw := badBytes(s.sc.Bad, s.sc.Variant, m.ID)
	first := n == 1
	pos := s.sc.Pos
	sseFrame := func(payload string, isRaw bool, legacy bool) string {
		if isRaw {
			if strings.HasSuffix(payload, c07NoBlank) {
				return strings.TrimSuffix(payload, c07NoBlank) + "\n"
			}
			return payload + "\n\n"
		}
		if legacy {
			return "event: message\ndata: " + payload + "\n\n"
		}
		return "id: e" + fmt.Sprint(time.Now().UnixNano()) + "\ndata: " + payload + "\n\n"
	}
	switch s.sc.Client {
	case "legacy":
		w.WriteHeader(202)
		s.mu.Lock()
		defer s.mu.Unlock()
		if first && pos == "before" {
			io.WriteString(s.sseW, sseFrame(bad, raw, true))
		}
		if !(first && pos == "instead") {
			io.WriteString(s.sseW, sseFrame(ans, false, true))
		} else {
			io.WriteString(s.sseW, sseFrame(bad, raw, true))
		}
		if first && pos == "after" {
			io.WriteString(s.sseW, sseFrame(bad, raw, true))
		}
		s.sseF.Flush()
	case "sse":
		w.Header().Set("Content-Type", "text/event-stream")
		w.Header().Set("Mcp-Session-Id", sid)
		w.WriteHeader(200)
		if first && pos == "before" {
			io.WriteString(w, sseFrame(bad, raw, false))
		}
		if !(first && pos == "instead") {
			io.WriteString(w, sseFrame(ans, false, false))
		} else {
			io.WriteString(w, sseFrame(bad, raw, false))
		}
		if first && pos == "after" {
			io.WriteString(w, sseFrame(bad, raw, false))
		}
	case "get":
		// the call is answered properly; the bad frame goes to the listening stream, followed by a well-formed notification
		if first {
			select {
			case <-s.getUp:
			case <-time.After(2 * time.Second):
			}
			s.mu.Lock()
			if s.getW != nil {
				io.WriteString(s.getW, sseFrame(bad, raw, false))
				io.WriteString(s.getW, sseFrame(`{"jsonrpc":"2.0","method":"notifications/verif-marker","params":{"m":1}}`, false, false))
				s.getF.Flush()
			}
			s.mu.Unlock()
		}
		w.Header().Set("Content-Type", "application/json")
		w.Header().Set("Mcp-Session-Id", sid)
		w.WriteHeader(200)
		io.WriteString(w, ans)
	default: // json
		bad = strings.TrimSuffix(bad, c07NoBlank)
		ct := "application/json"
		status := 200
		out := ans
		if first {
			switch pos {
			case "before":
				out = bad + "\n" + ans
			case "instead":
				out = bad
			case "after":
				out = ans + "\n" + bad
			}
			switch s.sc.Variant % 5 {
			case 3:
				ct = "text/html"
			case 4:
				if pos == "instead" {
					status = 502
				}
			}
		}
		w.Header().Set("Content-Type", ct)
		w.Header().Set("Mcp-Session-Id", sid)
		w.WriteHeader(status)
		io.WriteString(w, out)
	}
}

func c07Run(sc c07Scenario) (res c07Result) {
	res.ID = sc.ID
	info := mcp.Implementation{Name: "v", Version: "0"}
	var cl c16Client
	var cleanup func()
	var marker int32
	switch sc.Client {
	case "json", "sse", "get", "legacy":
		srv := &c07Srv{sc: sc, legacy: sc.Client == "legacy", getUp: make(chan struct{})}
		defer func() { res.Gets = int(atomic.LoadInt32(&srv.gets)) }()
		ts := httptest.NewServer(http.HandlerFunc(srv.serve))
		var err error
		if sc.Client == "legacy" {
			cl, err = mcp.NewSSEClient(ts.URL+"/sse", info, mcp.WithClientLogger(silentLogger{}))
		} else {
			c, e := mcp.NewClient(ts.URL+"/mcp", info, mcp.WithClientLogger(silentLogger{}), mcp.WithClientGetSSEEnabled(sc.Client == "get"))
			if e == nil {
				c.RegisterNotificationHandler("notifications/verif-marker", func(n *mcp.JSONRPCNotification) error {
					atomic.StoreInt32(&marker, 1)
					return nil
				})
			}
			cl, err = c, e
		}
		if err != nil {
			closeTS(ts)
			res.Broken = err.Error()
			return
		}
		cleanup = func() { closeClientConns(ts); closeTS(ts) }
	case "stdio":
		dir, _ := os.MkdirTemp("", "c07")
		cfgPath := filepath.Join(dir, "cfg.json")
		bad, raw := badBytes(sc.Bad, sc.Variant, json.RawMessage("3"))
		_ = raw
		line := strings.TrimSuffix(bad, c07NoBlank) + "\n"
		when := sc.Pos
		b, _ := json.Marshal(stdioPeerCfg{Emit: []stdioEmit{{AtLine: 3, When: when, Raw: line}}, Answers: map[string]string{"tools/call": `{"content":[{"type":"text","text":"A:STDIO"}]}`}})
		os.WriteFile(cfgPath, b, 0644)
		exe, _ := os.Executable()
		c, err := mcp.NewStdioClient(mcp.StdioTransportConfig{ServerParams: mcp.StdioServerParameters{Command: exe, Args: []string{"stdiopeer", cfgPath}},
			Timeout: 1500 * time.Millisecond}, info, mcp.WithStdioLogger(silentLogger{}))
		if err != nil {
			os.RemoveAll(dir)
			res.Broken = err.Error()
			return
		}
		cl = c
		cleanup = func() { os.RemoveAll(dir) }
	default:
		res.Broken = "unknown client " + sc.Client
		return
	}
	defer cleanup()
	ctx, cancel := context.WithTimeout(context.Background(), 5*time.Second)
	_, err := cl.Initialize(ctx, &mcp.InitializeRequest{})
	cancel()
	if err != nil {
		res.Broken = "initialize: " + err.Error()
		cl.Close()
		return
	}
	if sc.Client == "get" {
		time.Sleep(30 * time.Millisecond) // let the listening stream come up
	}
	call := func(nonce string, d time.Duration) c07Call {
		ctx, cancel := context.WithTimeout(context.Background(), d)
		defer cancel()
		req := &mcp.CallToolRequest{}
		req.Params.Name = "echo"
		req.Params.Arguments = map[string]interface{}{"nonce": nonce}
		t0 := time.Now()
		var r *mcp.CallToolResult
		var err error
		done := make(chan struct{})
		go func() {
			defer close(done)
			r, err = cl.CallTool(ctx, req)
		}()
		select {
		case <-done:
		case <-time.After(d + 4*time.Second):
			// the call ignores its context: it hangs (its goroutine is left behind)
			return c07Call{Err: "call did not return", Ms: float64(time.Since(t0)) / float64(time.Millisecond)}
		}
		c := c07Call{Ms: float64(time.Since(t0)) / float64(time.Millisecond)}
		if err != nil {
			c.Err = err.Error()
			return c
		}
		c.OK = true
		if sc.Bad == "fieldtype" {
			c.Own = true // the oddly typed answer carried this call's id: accepting it leniently is not a foreign answer
		}
		if len(r.Content) == 1 {
			if tc, ok := r.Content[0].(mcp.TextContent); ok && (tc.Text == "A:"+nonce || tc.Text == "A:STDIO") {
				c.Own = true
			}
		}
		return c
	}
	if sc.Bad == "fieldtype" && sc.Variant%18 >= 12 {
		// the first call is ListTools: its answer carries tool schemas of odd shapes
		lctx, lcancel := context.WithTimeout(context.Background(), 1500*time.Millisecond)
		t0 := time.Now()
		ldone := make(chan error, 1)
		go func() { _, e := cl.ListTools(lctx, &mcp.ListToolsRequest{}); ldone <- e }()
		select {
		case e := <-ldone:
			res.Call1 = c07Call{OK: e == nil, Own: e == nil, Ms: float64(time.Since(t0)) / float64(time.Millisecond)}
			if e != nil {
				res.Call1.Err = e.Error()
			}
		case <-time.After(5500 * time.Millisecond):
			res.Call1 = c07Call{Err: "call did not return", Ms: float64(time.Since(t0)) / float64(time.Millisecond)}
		}
		lcancel()
	} else {
		res.Call1 = call("one", 1500*time.Millisecond)
	}
	c0 := cpuMs()
	time.Sleep(300 * time.Millisecond)
	res.IdleCPU = cpuMs() - c0
	for i := 0; i < 3 && res.IdleCPU > 150; i++ {
		// still busy: a legitimate burst (e.g. an 8 MiB frame being parsed) ends, a spin does not
		c0 = cpuMs()
		time.Sleep(300 * time.Millisecond)
		res.IdleCPU = cpuMs() - c0
	}
	res.Call2 = call("two", 2500*time.Millisecond)
	if sc.Client == "get" {
		dl := time.Now().Add(time.Second)
		for atomic.LoadInt32(&marker) == 0 && time.Now().Before(dl) {
			time.Sleep(2 * time.Millisecond)
		}
		m := atomic.LoadInt32(&marker) == 1
		res.Marker = &m
	}
	t0 := time.Now()
	done := make(chan error, 1)
	go func() { done <- cl.Close() }()
	select {
	case err := <-done:
		if err != nil && sc.Client != "stdio" {
			res.CloseErr = err.Error()
		}
	case <-time.After(8 * time.Second):
		res.CloseErr = "Close did not return within 8 s"
	}
	res.CloseMs = float64(time.Since(t0)) / float64(time.Millisecond)
	return
}

func init() {
	register("c07", func(args []string) int {
		var in struct {
			Scenarios []c07Scenario `json:"scenarios"`
		}
		readInput(&in)
		out := struct {
			Results []c07Result `json:"results"`
		}{}
		for _, s := range in.Scenarios {
			out.Results = append(out.Results, c07Run(s))
		}
		writeOutput(out)
		return 0
	})
}
