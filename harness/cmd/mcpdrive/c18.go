package main

// C18: the schema generators against encoding/json.  For a type description (Schema.tla's TypeDescr) the harness
// builds the struct type at run time (reflect.StructOf; recursive shapes come from a corpus of compile-time types used
// as field types), runs the generator of each style under a time bound, encodes a fully populated value with
// encoding/json, and pushes the encoding through the typed handlers' argument binding.

import (
	"context"
	"encoding/json"
	"fmt"
	"math/big"
	"reflect"
	"time"

	mcp "trpc.group/trpc-go/trpc-mcp-go"
)

type c18Descr struct {
	K1 string `json:"k1"`
	T1 string `json:"t1"`
	K2 string `json:"k2"`
	T2 string `json:"t2"`
}

type c18Item struct {
	Ty    c18Descr `json:"ty"`
	Style string   `json:"style"`
}

type c18Out struct {
	Ty         c18Descr        `json:"ty"`
	Style      string          `json:"style"`
	Built      bool            `json:"built"` // the type could be built at run time
	Note       string          `json:"note,omitempty"`
	Terminated bool            `json:"terminated"`
	Panic      string          `json:"panic,omitempty"`
	Schema     json.RawMessage `json:"schema,omitempty"`
	Inst       json.RawMessage `json:"inst,omitempty"`
	GoType     string          `json:"go_type,omitempty"`
	BindSame   bool            `json:"bind_same"`
	BindNote   string          `json:"bind_note,omitempty"`
}

// ---- corpus of compile-time types used as field types ----

type c18Inner struct {
	A string `json:"a"`
	N int    `json:"n"`
}
type C18Emb struct {
	E1 string `json:"e1"`
	E2 int    `json:"e2,omitempty"`
}
type c18List struct {
	V    int      `json:"v"`
	Next *c18List `json:"next,omitempty"`
}
type c18Tree struct {
	V    int       `json:"v"`
	Kids []c18Tree `json:"kids,omitempty"`
}
type c18Dict struct {
	V   int                `json:"v"`
	Sub map[string]c18Dict `json:"sub,omitempty"`
}
type c18A struct {
	Name string `json:"name"`
	B    *c18B  `json:"b,omitempty"`
}
type c18B struct {
	Count int    `json:"count"`
	A     *c18A  `json:"a,omitempty"`
	L     []c18A `json:"l,omitempty"`
}
type c18Leaf struct {
	V int `json:"v"`
}
type c18Other struct {
	W string `json:"w"`
}
type c18Q struct {
	R c18Leaf  `json:"r"`
	S c18Other `json:"s"`
	T c18Leaf  `json:"t"`
}
type c18X struct {
	Q c18Q `json:"q"`
}
type c18DeepA struct {
	X c18X `json:"x"`
}

// c18Deep: struct types first met several property levels down, with siblings after them, and used again higher up
type c18Deep struct {
	A c18DeepA  `json:"a"`
	Z c18Leaf   `json:"z"`
	Y *c18Other `json:"y,omitempty"`
	L []c18Q    `json:"l"`
}

// c18Shadow: a field three embedded levels down has the same JSON name as a shallower one of a LATER embedded struct (which wins)
type C18DeepE struct {
	Name int `json:"name"`
	Deep int `json:"deep"`
}
type C18MidE struct{ C18DeepE }
type C18TopE struct{ C18MidE }
type C18ShallowE struct {
	Name string `json:"name"`
}
type c18Shadow struct {
	C18TopE
	C18ShallowE
	Own bool `json:"own"`
}

// c18PtrRecv: its JSON form (a string) comes from a marshaler with a POINTER receiver
type c18PtrRecv struct{ A, B int }

func (p *c18PtrRecv) MarshalJSON() ([]byte, error) {
	return json.Marshal(fmt.Sprintf("%d:%d", p.A, p.B))
}
func (p *c18PtrRecv) UnmarshalJSON(b []byte) error {
	var s string
	if err := json.Unmarshal(b, &s); err != nil {
		return err
	}
	_, err := fmt.Sscanf(s, "%d:%d", &p.A, &p.B)
	return err
}

// c18PtrDeep: a type first met below a pointer field that has NO omitempty, and used again later
type c18PtrWrap struct {
	In c18Leaf `json:"in"`
}
type c18PtrDeep struct {
	A *c18PtrWrap `json:"a"`
	B c18Leaf     `json:"b"`
	C []c18Leaf   `json:"c,omitempty"`
	D *c18PtrWrap `json:"d,omitempty"`
}

// an embedded struct whose TYPE NAME is unexported: encoding/json still promotes its exported fields
type c18base struct {
	ID   int    `json:"id"`
	Note string // no tag
}
type c18WithBase struct {
	c18base
	Name string `json:"name"`
}
type c18WithBasePtr struct {
	*c18base
	Name string `json:"name"`
}

// a recursive type whose nodes carry fields that are not encoded after their Go kind
type c18RichNode struct {
	Label string       `json:"label"`
	Stamp time.Time    `json:"stamp"`
	Blob  []byte       `json:"blob"`
	Extra interface{}  `json:"extra"`
	Next  *c18RichNode `json:"next,omitempty"`
}
type c18Twice struct {
	X c18Inner  `json:"x"`
	Y c18Inner  `json:"y"`
	Z *c18Inner `json:"z,omitempty"`
}

func c18FieldType(kind string) (reflect.Type, bool) {
	switch kind {
	case "string":
		return reflect.TypeOf(""), false
	case "int":
		return reflect.TypeOf(int(0)), false
	case "int64":
		return reflect.TypeOf(int64(0)), false
	case "uint8":
		return reflect.TypeOf(uint8(0)), false
	case "float64":
		return reflect.TypeOf(float64(0)), false
	case "bool":
		return reflect.TypeOf(false), false
	case "bytes":
		return reflect.TypeOf([]byte(nil)), false
	case "time":
		return reflect.TypeOf(time.Time{}), false
	case "iface":
		return reflect.TypeOf((*interface{})(nil)).Elem(), false
	case "rawmsg":
		return reflect.TypeOf(json.RawMessage(nil)), false
	case "ptr-string":
		return reflect.TypeOf((*string)(nil)), false
	case "ptr-struct":
		return reflect.TypeOf((*c18Inner)(nil)), false
	case "emb-shadow":
		return reflect.TypeOf(c18Shadow{}), false
	case "ptr-bigint":
		return reflect.TypeOf((*big.Int)(nil)), false
	case "slice-ptr-bigint":
		return reflect.TypeOf([]*big.Int(nil)), false
	case "ptrrecv":
		return reflect.TypeOf((*c18PtrRecv)(nil)), false
	case "slice-ptrrecv":
		return reflect.TypeOf([]c18PtrRecv(nil)), false
	case "ptr-int":
		return reflect.TypeOf((*int)(nil)), false
	case "ptr-float64":
		return reflect.TypeOf((*float64)(nil)), false
	case "ptr-bool":
		return reflect.TypeOf((*bool)(nil)), false
	case "ptr-deep-shared":
		return reflect.TypeOf(c18PtrDeep{}), false
	case "slice-string":
		return reflect.TypeOf([]string(nil)), false
	case "slice-struct":
		return reflect.TypeOf([]c18Inner(nil)), false
	case "slice-ptr-struct":
		return reflect.TypeOf([]*c18Inner(nil)), false
	case "array-int":
		return reflect.TypeOf([3]int{}), false
	case "map-string":
		return reflect.TypeOf(map[string]string(nil)), false
	case "map-struct":
		return reflect.TypeOf(map[string]c18Inner(nil)), false
	case "map-int-key":
		return reflect.TypeOf(map[int]string(nil)), false
	case "struct":
		return reflect.TypeOf(c18Inner{}), false
	case "embedded":
		return reflect.TypeOf(C18Emb{}), true
	case "embedded-ptr":
		return reflect.TypeOf((*C18Emb)(nil)), true
	case "self-ptr":
		return reflect.TypeOf((*c18List)(nil)), false
	case "self-slice":
		return reflect.TypeOf(c18Tree{}), false
	case "self-map":
		return reflect.TypeOf(c18Dict{}), false
	case "mutual":
		return reflect.TypeOf(c18A{}), false
	case "shared-twice":
		return reflect.TypeOf(c18Twice{}), false
	case "emb-unexported":
		return reflect.TypeOf(c18WithBase{}), false
	case "emb-unexported-ptr":
		return reflect.TypeOf(c18WithBasePtr{}), false
	case "self-rich":
		return reflect.TypeOf((*c18RichNode)(nil)), false
	case "anon-str":
		return reflect.TypeOf(struct {
			Value string `json:"value"`
		}{}), false
	case "anon-int":
		return reflect.TypeOf(struct {
			Value int `json:"value"`
		}{}), false
	case "deep-shared":
		return reflect.TypeOf(c18Deep{}), false
	case "array-byte":
		return reflect.TypeOf([4]byte{}), false
	}
	return nil, false
}

func c18Tag(class, name string) reflect.StructTag {
	switch class {
	case "renamed":
		return reflect.StructTag(fmt.Sprintf(`json:"%s"`, name))
	case "omitempty":
		return `json:",omitempty"`
	case "renamed-omitempty":
		return reflect.StructTag(fmt.Sprintf(`json:"%s,omitempty"`, name))
	case "dash":
		return `json:"-"`
	case "string-opt":
		return `json:",string"`
	case "js-required":
		return reflect.StructTag(fmt.Sprintf(`json:"%s,omitempty" jsonschema:"required"`, name))
	case "js-description":
		return reflect.StructTag(fmt.Sprintf(`json:"%s" jsonschema:"description=some text, with a comma"`, name))
	}
	return ""
}

func c18Build(d c18Descr) (t reflect.Type, err error) {
	defer func() {
		if r := recover(); r != nil {
			err = fmt.Errorf("reflect.StructOf: %v", r)
		}
	}()
	var fields []reflect.StructField
	add := func(kind, tag, goName, jsonName string) error {
		ft, emb := c18FieldType(kind)
		if ft == nil {
			return fmt.Errorf("unknown kind %s", kind)
		}
		f := reflect.StructField{Name: goName, Type: ft, Tag: c18Tag(tag, jsonName)}
		if emb {
			f.Anonymous = true
			f.Name = ft.Name() // an embedded field carries its type's name
			if ft.Kind() == reflect.Ptr {
				f.Name = ft.Elem().Name()
			}
		}
		fields = append(fields, f)
		return nil
	}
	if err := add(d.K1, d.T1, "F1", "f_one"); err != nil {
		return nil, err
	}
	if d.K2 != "-" {
		if err := add(d.K2, d.T2, "F2", "f_two"); err != nil {
			return nil, err
		}
	}
	return reflect.StructOf(fields), nil
}

// c18Fill populates v fully: every field non-zero, pointers non-nil, containers non-empty; recursion stops at depth.
func c18Fill(v reflect.Value, depth int) {
	switch v.Kind() {
	case reflect.String:
		v.SetString("s")
	case reflect.Int64:
		v.SetInt(9007199254740991) // 2^53 - 1
	case reflect.Int, reflect.Int8, reflect.Int16, reflect.Int32:
		v.SetInt(7)
	case reflect.Uint, reflect.Uint8, reflect.Uint16, reflect.Uint32, reflect.Uint64:
		v.SetUint(200)
	case reflect.Float32, reflect.Float64:
		v.SetFloat(1.5)
	case reflect.Bool:
		v.SetBool(true)
	case reflect.Interface:
		v.Set(reflect.ValueOf("any value, here a string")) // an interface value need not be an object
	case reflect.Ptr:
		if depth <= 0 {
			return
		}
		p := reflect.New(v.Type().Elem())
		c18Fill(p.Elem(), depth-1)
		if v.CanSet() {
			v.Set(p)
		}
	case reflect.Slice:
		if v.Type() == reflect.TypeOf(json.RawMessage(nil)) {
			v.Set(reflect.ValueOf(json.RawMessage(`{"raw":[1,2]}`)))
			return
		}
		if v.Type().Elem().Kind() == reflect.Uint8 {
			v.SetBytes([]byte{1, 2, 3})
			return
		}
		if depth <= 0 {
			return
		}
		n := 1 // two elements near the top, one further down: recursive values stay small but deep
		if depth > 12 {
			n = 2
		}
		s := reflect.MakeSlice(v.Type(), n, n)
		for i := 0; i < n; i++ {
			c18Fill(s.Index(i), depth-1)
		}
		v.Set(s)
	case reflect.Array:
		for i := 0; i < v.Len(); i++ {
			c18Fill(v.Index(i), depth-1)
		}
	case reflect.Map:
		if depth <= 0 {
			return
		}
		m := reflect.MakeMap(v.Type())
		k := reflect.New(v.Type().Key()).Elem()
		if k.Kind() == reflect.String {
			k.SetString("key")
		} else {
			k.SetInt(5)
		}
		e := reflect.New(v.Type().Elem()).Elem()
		c18Fill(e, depth-1)
		m.SetMapIndex(k, e)
		v.Set(m)
	case reflect.Struct:
		if v.Type() == reflect.TypeOf(time.Time{}) {
			v.Set(reflect.ValueOf(time.Date(2026, 9, 28, 12, 0, 0, 0, time.UTC)))
			return
		}
		for i := 0; i < v.NumField(); i++ {
			f := v.Field(i)
			if !f.CanSet() {
				continue
			}
			c18Fill(f, depth-1)
		}
	}
}

func c18Run(it c18Item) (o c18Out) {
	o.Ty, o.Style = it.Ty, it.Style
	t, err := c18Build(it.Ty)
	if err != nil {
		o.Note = err.Error()
		return
	}
	o.Built = true
	o.GoType = t.String()
	if len(o.GoType) > 300 {
		o.GoType = o.GoType[:300]
	}
	type gen struct {
		b     []byte
		err   error
		panic string
	}
	ch := make(chan gen, 1)
	go func() {
		var g gen
		defer func() {
			if r := recover(); r != nil {
				g.panic = fmt.Sprint(r)
			}
			ch <- g
		}()
		g.b, g.err = mcp.VerifSchemaForType(t, it.Style)
	}()
	select {
	case g := <-ch:
		o.Terminated = true
		if g.panic != "" {
			o.Panic = g.panic
			return
		}
		if g.err != nil {
			o.Note = "schema not encodable: " + g.err.Error()
			return
		}
		o.Schema = g.b
	case <-time.After(10 * time.Second):
		return
	}
	val := reflect.New(t)
	func() {
		defer func() {
			if r := recover(); r != nil {
				o.Note = fmt.Sprintf("populate: %v", r)
			}
		}()
		c18Fill(val.Elem(), 16)
	}()
	inst, err := json.Marshal(val.Interface())
	if err != nil {
		o.Note = "value not encodable: " + err.Error()
		return
	}
	o.Inst = inst
	// argument binding of typed handlers: the encoding, decoded the way a request's arguments are, bound to a fresh value
	var args map[string]interface{}
	if err := json.Unmarshal(inst, &args); err != nil {
		o.BindNote = "arguments: " + err.Error()
		return
	}
	target := reflect.New(t)
	if err := mcp.VerifBindArguments(args, target.Interface()); err != nil {
		o.BindNote = "bind: " + err.Error()
		return
	}
	back, err := json.Marshal(target.Interface())
	if err != nil {
		o.BindNote = "re-encode: " + err.Error()
		return
	}
	o.BindSame = normJSONBytes(back) == normJSONBytes(inst)
	if !o.BindSame {
		o.BindNote = fmt.Sprintf("sent %s, handler would see %s", trunc(string(inst)), trunc(string(back)))
	}
	return
}

// c18TypedSeq: a tool built with NewTypedToolHandler is called several times; every call must receive exactly the value
// whose encoding it was sent - nothing of an earlier call (omitted fields, map entries) may survive.
type c18TypedArgs struct {
	Query  string            `json:"query"`
	Limit  int               `json:"limit,omitempty"`
	Labels map[string]string `json:"labels,omitempty"`
	Tags   []string          `json:"tags,omitempty"`
	Big    int64             `json:"big,omitempty"`
}

func c18TypedSeq() (diffs []string) {
	var got []string
	h := mcp.NewTypedToolHandler(func(ctx context.Context, req *mcp.CallToolRequest, in c18TypedArgs) (map[string]string, error) {
		b, _ := json.Marshal(in)
		got = append(got, string(b))
		return map[string]string{"ok": "1"}, nil
	})
	calls := []string{
		`{"query":"a","limit":25,"labels":{"x":"1"},"tags":["t1","t2"],"big":9007199254740991}`,
		`{"query":"b"}`,
		`{"query":"c","labels":{"y":"2"}}`,
		`{"query":"d","tags":[]}`,
		`{"query":"e","limit":0,"big":-9007199254740991}`,
	}
	for k, c := range calls {
		var args map[string]interface{}
		json.Unmarshal([]byte(c), &args)
		req := &mcp.CallToolRequest{}
		req.Params.Name = "typed"
		req.Params.Arguments = args
		if _, err := h(context.Background(), req); err != nil {
			diffs = append(diffs, fmt.Sprintf("call %d: %v", k+1, err))
			continue
		}
		var want c18TypedArgs
		json.Unmarshal([]byte(c), &want)
		wb, _ := json.Marshal(want)
		if len(got) != k+1 {
			diffs = append(diffs, fmt.Sprintf("call %d: the handler did not run", k+1))
			continue
		}
		if got[k] != string(wb) {
			diffs = append(diffs, fmt.Sprintf("call %d sent %s, the handler received %s", k+1, c, got[k]))
		}
	}
	return
}

func normJSONBytes(b []byte) string {
	var x interface{}
	if json.Unmarshal(b, &x) != nil {
		return string(b)
	}
	out, _ := json.Marshal(x)
	return string(out)
}

func init() {
	register("c18", func(args []string) int {
		var in struct {
			Items []c18Item `json:"items"`
		}
		readInput(&in)
		out := struct {
			Outs     []c18Out `json:"outs"`
			TypedSeq []string `json:"typed_seq"`
		}{}
		out.TypedSeq = c18TypedSeq()
		if out.TypedSeq == nil {
			out.TypedSeq = []string{}
		}
		for _, it := range in.Items {
			out.Outs = append(out.Outs, c18Run(it))
		}
		writeOutput(out)
		return 0
	})
}
