package main

// C05, the library client's end of the session's stream: notifications the server sends to a session whose client is the
// library's Streamable client (listening GET stream open) reach the registered handler exactly once each - also when the event
// ids of the listening stream coincide with event ids the client has seen on its POST response streams (ids are the server's
// and are only unique per stream; here the millisecond part of the library server's ids is frozen by a wrapper).

import (
	"context"
	"fmt"
	"net/http"
	"net/http/httptest"
	"regexp"
	"sync"
	"sync/atomic"
	"time"

	mcp "trpc.group/trpc-go/trpc-mcp-go"
)

type c05ClientOut struct {
	ID       string         `json:"id"`
	Sent     []string       `json:"sent"`    // notifications the server reported as sent (nil error), in order
	Handled  []string       `json:"handled"` // in the order the handler was entered
	Counts   map[string]int `json:"counts"`
	CallErrs []string       `json:"call_errs"`
	Broken   string         `json:"broken,omitempty"`
}

var evtIDRe = regexp.MustCompile(`^id: evt-[0-9]+-`)
var evtNRe = regexp.MustCompile(`^id: evt-[0-9]+-([0-9]+)`)

type freezeIDsRW struct {
	http.ResponseWriter
	freeze bool
	onID   func(n int) // the per-stream number of every event id written
}

func (w freezeIDsRW) Write(p []byte) (int, error) {
	if w.onID != nil {
		if m := evtNRe.FindSubmatch(p); m != nil {
			n := 0
			fmt.Sscan(string(m[1]), &n)
			w.onID(n)
		}
	}
	if w.freeze && evtIDRe.Match(p) {
		q := evtIDRe.ReplaceAll(p, []byte("id: evt-0-"))
		if _, err := w.ResponseWriter.Write(q); err != nil {
			return 0, err
		}
		return len(p), nil
	}
	return w.ResponseWriter.Write(p)
}
func (w freezeIDsRW) Flush() {
	if f, ok := w.ResponseWriter.(http.Flusher); ok {
		f.Flush()
	}
}

func c05Client(id string, rounds int, freeze bool) (out c05ClientOut) {
	out.ID = id
	out.Counts = map[string]int{}
	out.Sent, out.Handled, out.CallErrs = []string{}, []string{}, []string{}
	srv := mcp.NewServer("verif", "1.0", mcp.WithServerPath("/mcp"), mcp.WithServerLogger(silentLogger{}))
	srv.RegisterTool(mcp.NewTool("emit", mcp.WithNumber("n")), func(ctx context.Context, req *mcp.CallToolRequest) (*mcp.CallToolResult, error) {
		n, _ := req.Params.Arguments["n"].(float64)
		if sender, ok := mcp.GetNotificationSender(ctx); ok {
			for i := 0; i < int(n); i++ {
				sender.SendProgress(float64(i), "in-call")
			}
		}
		return mcp.NewTextResult("done"), nil
	})
	h := srv.Handler()
	var lastGetN int64 // number of the last event written to the listening stream
	ts := httptest.NewServer(http.HandlerFunc(func(w http.ResponseWriter, r *http.Request) {
		fw := freezeIDsRW{ResponseWriter: w, freeze: freeze}
		if r.Method == http.MethodGet {
			fw.onID = func(n int) { atomic.StoreInt64(&lastGetN, int64(n)) }
		}
		h.ServeHTTP(fw, r)
	}))
	defer func() { closeClientConns(ts); closeTS(ts) }()
	cl, err := mcp.NewClient(ts.URL+"/mcp", mcp.Implementation{Name: "v", Version: "0"}, mcp.WithClientLogger(silentLogger{}), mcp.WithClientGetSSEEnabled(true))
	if err != nil {
		out.Broken = err.Error()
		return
	}
	defer cl.Close()
	var mu sync.Mutex
	cl.RegisterNotificationHandler("notifications/message", func(n *mcp.JSONRPCNotification) error {
		d, _ := n.Params.AdditionalFields["data"].(string)
		mu.Lock()
		out.Handled = append(out.Handled, d)
		out.Counts[d]++
		mu.Unlock()
		return nil
	})
	ctx, cancel := context.WithTimeout(context.Background(), 20*time.Second)
	defer cancel()
	if _, err := cl.Initialize(ctx, &mcp.InitializeRequest{}); err != nil {
		out.Broken = "initialize: " + err.Error()
		return
	}
	for dl := time.Now().Add(2 * time.Second); mcp.VerifGetStreamCount(srv) < 1 && time.Now().Before(dl); time.Sleep(2 * time.Millisecond) {
	}
	if mcp.VerifGetStreamCount(srv) < 1 {
		out.Broken = "the client's listening stream did not come up"
		return
	}
	sid := cl.GetSessionID()
	for k := 0; k < rounds; k++ {
		// a call whose response stream ends with the event number the listening stream will use next
		req := &mcp.CallToolRequest{}
		req.Params.Name = "emit"
		req.Params.Arguments = map[string]interface{}{"n": float64(atomic.LoadInt64(&lastGetN))}
		if _, err := cl.CallTool(ctx, req); err != nil {
			out.CallErrs = append(out.CallErrs, err.Error())
		}
		for j := 0; j < 2; j++ {
			d := fmt.Sprintf("gn-%d-%d", k, j)
			if err := srv.SendNotification(sid, "notifications/message", map[string]interface{}{"level": "info", "data": d}); err == nil {
				out.Sent = append(out.Sent, d)
			}
		}
		time.Sleep(15 * time.Millisecond)
	}
	// everything sent has had time to arrive
	for dl := time.Now().Add(1500 * time.Millisecond); time.Now().Before(dl); time.Sleep(10 * time.Millisecond) {
		mu.Lock()
		n := len(out.Handled)
		mu.Unlock()
		if n >= len(out.Sent) {
			break
		}
	}
	time.Sleep(30 * time.Millisecond)
	mu.Lock()
	defer mu.Unlock()
	out.Handled = append([]string(nil), out.Handled...)
	return
}

func init() {
	register("c05client", func(args []string) int {
		var in struct {
			Runs []struct {
				ID     string `json:"id"`
				Rounds int    `json:"rounds"`
				Freeze bool   `json:"freeze"`
			} `json:"runs"`
		}
		readInput(&in)
		out := struct {
			Results []c05ClientOut `json:"results"`
		}{}
		for _, r := range in.Runs {
			out.Results = append(out.Results, c05Client(r.ID, r.Rounds, r.Freeze))
		}
		writeOutput(out)
		return 0
	})
}
