package main

// stdiopeer: a scripted stdio MCP server process, independent of the library (plain JSON lines).
// It is this binary re-executed as a child by the library's stdio client.
//   mcpdrive stdiopeer <config.json>
// config: {"init":["ok","rpc",...], "count_file":path, "behaviour": {...}}

import (
	"bufio"
	"encoding/json"
	"fmt"
	"io"
	"os"
	"strings"
	"time"
)

type stdioPeerCfg struct {
	Init      []string          `json:"init"`       // outcome of the k-th initialize request
	CountFile string            `json:"count_file"` // number of lines received so far is written here
	Answers   map[string]string `json:"answers"`    // method -> raw result JSON (overrides)
	Emit      []stdioEmit       `json:"emit"`       // extra output tied to the n-th request line
	ExitAfter int               `json:"exit_after"` // exit (code 0) after this many request lines (0 = never)
	KillSelf  int               `json:"kill_self"`  // SIGKILL-like abrupt exit after this many lines (0 = never)
	Silent    []string          `json:"silent"`     // methods that are never answered
	DelayMs   int               `json:"delay_ms"`
	// C08: after this many tools/call lines the answer to the first of them is cut at FaultAt and the fault follows
	FaultAfterCalls int    `json:"fault_after_calls"`
	Fault           string `json:"fault"`    // exit kill stall close
	FaultAt         string `json:"fault_at"` // boundary name or byte:N
	FaultFile       string `json:"fault_file"`
	RecordFile      string `json:"record_file"` // every byte read from stdin is appended here (C09: the client's frames)
	AnswerFile      string `json:"answer_file"` // when set: every non-initialize request is answered from this file ({"raw":..,"is_err":..})
}

type stdioEmit struct {
	AtLine int    `json:"at_line"` // 1-based index of the received line that triggers it
	When   string `json:"when"`    // "before" | "after" the regular answer, or "instead"
	Raw    string `json:"raw"`     // bytes written verbatim (may contain several lines / garbage)
}

var genericAnswers = map[string]string{
	"ping":           `{}`,
	"tools/list":     `{"tools":[]}`,
	"tools/call":     `{"content":[{"type":"text","text":"ok"}]}`,
	"prompts/list":   `{"prompts":[]}`,
	"prompts/get":    `{"messages":[]}`,
	"resources/list": `{"resources":[]}`,
	"resources/read": `{"contents":[]}`,
}

const initOK = `{"protocolVersion":"2025-03-26","serverInfo":{"name":"stdiopeer","version":"1"},"capabilities":{"tools":{}}}`

func stdioPeerMain(args []string) int {
	var cfg stdioPeerCfg
	if len(args) > 0 {
		b, err := os.ReadFile(args[0])
		if err == nil {
			json.Unmarshal(b, &cfg)
		}
	}
	out := bufio.NewWriter(os.Stdout)
	write := func(s string) {
		out.WriteString(s)
		out.Flush()
	}
	var src io.Reader = os.Stdin
	if cfg.RecordFile != "" {
		if f, err := os.OpenFile(cfg.RecordFile, os.O_CREATE|os.O_WRONLY|os.O_APPEND, 0644); err == nil {
			defer f.Close()
			src = io.TeeReader(os.Stdin, f)
		}
	}
	rd := bufio.NewReaderSize(src, 1<<20)
	lines := 0
	inits := 0
	faultCalls := 0
	var faultID json.RawMessage
	faultNonce := ""
	for {
		line, err := rd.ReadString('\n')
		if line == "" && err != nil {
			return 0
		}
		line = strings.TrimSpace(line)
		if line == "" {
			continue
		}
		lines++
		if cfg.CountFile != "" {
			os.WriteFile(cfg.CountFile+".tmp", []byte(fmt.Sprint(lines)), 0644)
			os.Rename(cfg.CountFile+".tmp", cfg.CountFile)
		}
		var m struct {
			ID     json.RawMessage `json:"id"`
			Method string          `json:"method"`
		}
		json.Unmarshal([]byte(line), &m)
		if cfg.FaultAfterCalls > 0 && m.Method == "tools/call" && faultCalls < cfg.FaultAfterCalls {
			var a struct {
				Params struct {
					Arguments struct {
						Nonce string `json:"nonce"`
					} `json:"arguments"`
				} `json:"params"`
			}
			json.Unmarshal([]byte(line), &a)
			faultCalls++
			if faultCalls == 1 {
				faultID, faultNonce = m.ID, a.Params.Arguments.Nonce
			}
			if faultCalls == cfg.FaultAfterCalls {
				parts := []string{c08Notif + "\n", c08Text(faultID, faultNonce) + "\n"}
				all, off, deliv := (&c08Srv{sc: c08Scenario{At: cfg.FaultAt}}).cut("", parts)
				write(all[:off])
				time.Sleep(30 * time.Millisecond)
				d := 0
				if deliv {
					d = 1
				}
				os.WriteFile(cfg.FaultFile+".tmp", []byte(fmt.Sprintf("%d %d %d %d %s", time.Now().UnixNano(), d, off, len(all), faultNonce)), 0644)
				os.Rename(cfg.FaultFile+".tmp", cfg.FaultFile)
				switch cfg.Fault {
				case "exit":
					os.Exit(0)
				case "kill":
					p, _ := os.FindProcess(os.Getpid())
					p.Kill()
					time.Sleep(time.Second)
				case "close":
					os.Stdout.Close()
					select {}
				case "none":
					// keep serving
				default:
					select {}
				}
			}
			continue
		}
		instead := false
		for _, e := range cfg.Emit {
			if e.AtLine == lines && e.When == "before" {
				write(e.Raw)
			}
			if e.AtLine == lines && e.When == "instead" {
				write(e.Raw)
				instead = true
			}
		}
		if cfg.DelayMs > 0 {
			time.Sleep(time.Duration(cfg.DelayMs) * time.Millisecond)
		}
		silent := false
		for _, s := range cfg.Silent {
			if s == m.Method {
				silent = true
			}
		}
		if m.ID != nil && m.Method != "" && !instead && !silent {
			switch m.Method {
			case "initialize":
				outcome := "ok"
				if inits < len(cfg.Init) {
					outcome = cfg.Init[inits]
				}
				inits++
				switch outcome {
				case "ok":
					write(fmt.Sprintf(`{"jsonrpc":"2.0","id":%s,"result":%s}`+"\n", m.ID, initOK))
				case "rpc":
					write(fmt.Sprintf(`{"jsonrpc":"2.0","id":%s,"error":{"code":-32603,"message":"scripted handshake failure"}}`+"\n", m.ID))
				case "badresult":
					write(fmt.Sprintf(`{"jsonrpc":"2.0","id":%s,"result":{"protocolVersion":5,"capabilities":"x"}}`+"\n", m.ID))
				case "transport":
					// no answer at all
				}
			default:
				if cfg.AnswerFile != "" {
					var a struct {
						Raw   string `json:"raw"`
						IsErr bool   `json:"is_err"`
					}
					if b, err := os.ReadFile(cfg.AnswerFile); err == nil && json.Unmarshal(b, &a) == nil {
						if a.IsErr {
							write(fmt.Sprintf(`{"jsonrpc":"2.0","id":%s,"error":%s}`+"\n", m.ID, a.Raw))
						} else {
							write(fmt.Sprintf(`{"jsonrpc":"2.0","id":%s,"result":%s}`+"\n", m.ID, a.Raw))
						}
						break
					}
				}
				res, ok := cfg.Answers[m.Method]
				if !ok {
					res, ok = genericAnswers[m.Method]
				}
				if ok {
					write(fmt.Sprintf(`{"jsonrpc":"2.0","id":%s,"result":%s}`+"\n", m.ID, res))
				} else {
					write(fmt.Sprintf(`{"jsonrpc":"2.0","id":%s,"error":{"code":-32601,"message":"method not found"}}`+"\n", m.ID))
				}
			}
		}
		for _, e := range cfg.Emit {
			if e.AtLine == lines && e.When == "after" {
				write(e.Raw)
			}
		}
		if cfg.KillSelf > 0 && lines >= cfg.KillSelf {
			p, _ := os.FindProcess(os.Getpid())
			p.Kill()
			time.Sleep(time.Second)
		}
		if cfg.ExitAfter > 0 && lines >= cfg.ExitAfter {
			return 0
		}
	}
}

func init() {
	register("stdiopeer", stdioPeerMain)
}
