package main

// C11 binding B: ungated reconnect storms. A raw peer opens, drops and re-opens listening streams of
// one session while other goroutines send to the session; the black-box event log (ordered by the
// harness mutex at the moment each mark is taken) is validated by TLC against TraceGetStream.

import (
	"context"
	"fmt"
	"math/rand"
	"net/http"
	"net/http/httptest"
	"sync"
	"time"

	mcp "trpc.group/trpc-go/trpc-mcp-go"
	"verifharness/internal/peer"
)

func c11Storm(id string, seed int64) (res c11Result) {
	res.ID = id
	res.EOF = map[string]bool{}
	rnd := rand.New(rand.NewSource(seed))
	srv := mcp.NewServer("verif", "1.0", mcp.WithServerPath("/mcp"), mcp.WithServerLogger(silentLogger{}))
	ts := httptest.NewServer(srv.Handler())
	url := ts.URL + "/mcp"
	var mu sync.Mutex
	streams := map[string]*peer.Stream{}
	var trace []map[string]interface{}
	ev := func(m map[string]interface{}) { mu.Lock(); trace = append(trace, m); mu.Unlock() }
	defer func() {
		mu.Lock()
		for _, st := range streams {
			st.Close()
		}
		mu.Unlock()
		closeClientConns(ts)
		closeTS(ts)
	}()
	ctx := context.Background()
	sid, err := peer.Handshake(ctx, url, nil)
	if err != nil || sid == "" {
		res.Unrealised = fmt.Sprintf("handshake failed: %v", err)
		return
	}
	whereIs := func(nonce string, wait time.Duration) string {
		deadline := time.Now().Add(wait)
		for {
			mu.Lock()
			for name, st := range streams {
				if st.Contains(nonce) {
					mu.Unlock()
					return name
				}
			}
			mu.Unlock()
			if time.Now().After(deadline) {
				return "none"
			}
			time.Sleep(time.Millisecond)
		}
	}
	send := func(name string) {
		nonce := "nonce-" + id + "-" + name
		ev(map[string]interface{}{"e": "sstart", "k": name})
		err := srv.SendNotification(sid, "notifications/message", map[string]interface{}{"level": "info", "data": nonce})
		on := "none"
		if err == nil {
			on = whereIs(nonce, 3*time.Second)
		}
		ev(map[string]interface{}{"e": "send", "k": name, "ok": err == nil, "on": on})
	}
	nconn := 2 + rnd.Intn(4)
	delays := make([]time.Duration, 64)
	for i := range delays {
		delays[i] = time.Duration(rnd.Intn(2500)) * time.Microsecond
	}
	closeIdx := -1
	if rnd.Intn(4) == 0 {
		closeIdx = 1 + rnd.Intn(nconn)
	}
	var wg sync.WaitGroup
	wg.Add(1)
	go func() {
		defer wg.Done()
		for i := 1; i <= nconn; i++ {
			name := fmt.Sprintf("s%d", i)
			ev(map[string]interface{}{"e": "open", "c": name})
			st, err := peer.OpenSSE(ctx, http.MethodGet, url, map[string]string{"Accept": "text/event-stream", "Mcp-Session-Id": sid}, nil)
			if err != nil || st.Status != 200 {
				return
			}
			mu.Lock()
			streams[name] = st
			mu.Unlock()
			ev(map[string]interface{}{"e": "hdr", "c": name})
			time.Sleep(delays[i])
			if i == closeIdx && i < nconn {
				ev(map[string]interface{}{"e": "close", "c": name})
				st.Close()
				time.Sleep(delays[i+10])
			}
		}
	}()
	for g := 0; g < 2; g++ {
		wg.Add(1)
		go func(g int) {
			defer wg.Done()
			for j := 0; j < 3; j++ {
				time.Sleep(delays[20+g*8+j])
				send(fmt.Sprintf("g%d-%d", g, j))
			}
		}(g)
	}
	wg.Wait()
	time.Sleep(20 * time.Millisecond)
	send("probe")
	time.Sleep(20 * time.Millisecond)
	mu.Lock()
	for name, st := range streams {
		res.EOF[name] = st.EOF()
	}
	mu.Unlock()
	res.Trace = trace
	return
}

func init() {
	register("c11storm", func(args []string) int {
		var in struct {
			Seed int64 `json:"seed"`
			Runs int   `json:"runs"`
		}
		readInput(&in)
		out := struct {
			Results []c11Result `json:"results"`
		}{}
		for i := 0; i < in.Runs; i++ {
			out.Results = append(out.Results, c11Storm(fmt.Sprintf("storm%d", i), in.Seed*1000003+int64(i)))
		}
		writeOutput(out)
		return 0
	})
}
