// Package peer holds reference peers that are independent of the library under test:
// a raw HTTP poster and an SSE reader written to the WHATWG event-stream rules.
package peer

import (
	"bufio"
	"bytes"
	"context"
	"encoding/json"
	"fmt"
	"io"
	"net/http"
	"strings"
	"sync"
	"time"
)

// Resp is the outcome of one HTTP exchange.
type Resp struct {
	Status int
	Header http.Header
	Body   []byte
	Err    error
}

// Client is a shared HTTP client without timeouts (callers use contexts).
var Client = &http.Client{Transport: &http.Transport{MaxIdleConnsPerHost: 64, DisableCompression: true}}

// Do sends one request and reads the whole body.
func Do(ctx context.Context, method, url string, hdr map[string]string, body []byte) Resp {
	if _, ok := ctx.Deadline(); !ok {
		// no exchange of the reference peer waits for ever, whatever the server does
		var cancel context.CancelFunc
		ctx, cancel = context.WithTimeout(ctx, 10*time.Second)
		defer cancel()
	}
	var rd io.Reader
	if body != nil {
		rd = bytes.NewReader(body)
	}
	req, err := http.NewRequestWithContext(ctx, method, url, rd)
	if err != nil {
		return Resp{Err: err}
	}
	for k, v := range hdr {
		req.Header.Set(k, v)
	}
	resp, err := Client.Do(req)
	if err != nil {
		return Resp{Err: err}
	}
	defer resp.Body.Close()
	b, err := io.ReadAll(resp.Body)
	return Resp{Status: resp.StatusCode, Header: resp.Header, Body: b, Err: err}
}

// PostJSON posts a JSON body with the usual MCP headers (Accept JSON only unless sse is set).
func PostJSON(ctx context.Context, url string, hdr map[string]string, body []byte, sse bool) Resp {
	h := map[string]string{"Content-Type": "application/json", "Accept": "application/json"}
	if sse {
		h["Accept"] = "application/json, text/event-stream"
	}
	for k, v := range hdr {
		h[k] = v
	}
	return Do(ctx, http.MethodPost, url, h, body)
}

// SSEEvent is one dispatched event.
type SSEEvent struct {
	ID    string
	Event string
	Data  string
}

// ParseSSE splits a byte stream into events following the WHATWG rules (CRLF, LF or CR line ends;
// "data" lines joined by LF; comments ignored; an event is dispatched at a blank line if it has data).
func ParseSSE(b []byte) (events []SSEEvent, comments []string) {
	s := strings.ReplaceAll(string(b), "\r\n", "\n")
	s = strings.ReplaceAll(s, "\r", "\n")
	var data []string
	var id, ev string
	hasData := false
	for _, line := range strings.Split(s, "\n") {
		if line == "" {
			if hasData {
				events = append(events, SSEEvent{ID: id, Event: ev, Data: strings.Join(data, "\n")})
			}
			data, ev, hasData = nil, "", false
			continue
		}
		if strings.HasPrefix(line, ":") {
			comments = append(comments, line[1:])
			continue
		}
		field, value := line, ""
		if i := strings.IndexByte(line, ':'); i >= 0 {
			field, value = line[:i], line[i+1:]
			value = strings.TrimPrefix(value, " ")
		}
		switch field {
		case "data":
			data = append(data, value)
			hasData = true
		case "id":
			id = value
		case "event":
			ev = value
		}
	}
	return
}

// Stream is an open SSE response being read in the background.
type Stream struct {
	Name   string
	Status int
	Header http.Header
	mu     sync.Mutex
	cond   *sync.Cond
	raw    bytes.Buffer
	eof    bool
	err    error
	cancel context.CancelFunc
	body   io.ReadCloser
}

// OpenSSE issues the request and, when the status is 200, keeps reading the body.
func OpenSSE(parent context.Context, method, url string, hdr map[string]string, body []byte) (*Stream, error) {
	ctx, cancel := context.WithCancel(parent)
	var rd io.Reader
	if body != nil {
		rd = bytes.NewReader(body)
	}
	req, err := http.NewRequestWithContext(ctx, method, url, rd)
	if err != nil {
		cancel()
		return nil, err
	}
	for k, v := range hdr {
		req.Header.Set(k, v)
	}
	// the response headers must arrive within a bound; the body may stay open for ever
	hdrTimer := time.AfterFunc(10*time.Second, cancel)
	resp, err := Client.Do(req)
	hdrTimer.Stop()
	if err != nil {
		cancel()
		return nil, err
	}
	st := &Stream{Status: resp.StatusCode, Header: resp.Header, cancel: cancel, body: resp.Body}
	st.cond = sync.NewCond(&st.mu)
	go st.read()
	return st, nil
}

func (s *Stream) read() {
	rd := bufio.NewReaderSize(s.body, 64*1024)
	buf := make([]byte, 32*1024)
	for {
		n, err := rd.Read(buf)
		s.mu.Lock()
		if n > 0 {
			s.raw.Write(buf[:n])
		}
		if err != nil {
			s.eof = true
			s.err = err
		}
		s.cond.Broadcast()
		s.mu.Unlock()
		if err != nil {
			s.body.Close()
			return
		}
	}
}

// Close drops the stream from the client side.
func (s *Stream) Close() { s.cancel() }

// Raw returns a copy of everything read so far.
func (s *Stream) Raw() []byte {
	s.mu.Lock()
	defer s.mu.Unlock()
	return append([]byte(nil), s.raw.Bytes()...)
}

// EOF reports whether the body has ended.
func (s *Stream) EOF() bool {
	s.mu.Lock()
	defer s.mu.Unlock()
	return s.eof
}

// Events parses what has been read so far.
func (s *Stream) Events() []SSEEvent {
	ev, _ := ParseSSE(s.Raw())
	return ev
}

// Contains reports whether the raw bytes contain sub.
func (s *Stream) Contains(sub string) bool {
	s.mu.Lock()
	defer s.mu.Unlock()
	return bytes.Contains(s.raw.Bytes(), []byte(sub))
}

// WaitFor waits until pred holds on the stream (checked after every read) or the timeout passes.
func (s *Stream) WaitFor(timeout time.Duration, pred func(raw []byte, eof bool) bool) bool {
	deadline := time.Now().Add(timeout)
	t := time.AfterFunc(timeout, func() { s.mu.Lock(); s.cond.Broadcast(); s.mu.Unlock() })
	defer t.Stop()
	s.mu.Lock()
	defer s.mu.Unlock()
	for !pred(s.raw.Bytes(), s.eof) {
		if time.Now().After(deadline) {
			return false
		}
		s.cond.Wait()
	}
	return true
}

// WaitEOF waits for the end of the body.
func (s *Stream) WaitEOF(timeout time.Duration) bool {
	return s.WaitFor(timeout, func(_ []byte, eof bool) bool { return eof })
}

// InitRequest is a well-formed initialize request body.
func InitRequest(id interface{}) []byte {
	b, _ := json.Marshal(map[string]interface{}{"jsonrpc": "2.0", "id": id, "method": "initialize",
		"params": map[string]interface{}{"protocolVersion": "2025-03-26",
			"clientInfo": map[string]interface{}{"name": "verif-peer", "version": "0"}, "capabilities": map[string]interface{}{}}})
	return b
}

// InitializedNotification is the notifications/initialized body.
func InitializedNotification() []byte {
	return []byte(`{"jsonrpc":"2.0","method":"notifications/initialized"}`)
}

// Handshake initializes a Streamable-HTTP session with the raw peer and returns the session id.
func Handshake(ctx context.Context, url string, extra map[string]string) (string, error) {
	r := PostJSON(ctx, url, extra, InitRequest(1), false)
	if r.Err != nil {
		return "", r.Err
	}
	if r.Status != 200 {
		return "", fmt.Errorf("initialize: status %d body %q", r.Status, r.Body)
	}
	sid := r.Header.Get("Mcp-Session-Id")
	h := map[string]string{}
	for k, v := range extra {
		h[k] = v
	}
	if sid != "" {
		h["Mcp-Session-Id"] = sid
	}
	r2 := PostJSON(ctx, url, h, InitializedNotification(), false)
	if r2.Err != nil {
		return "", r2.Err
	}
	if r2.Status != 202 {
		return "", fmt.Errorf("initialized: status %d body %q", r2.Status, r2.Body)
	}
	return sid, nil
}
