// Package gate turns the library's verif hook into a tracer and a scheduler gate:
// a goroutine reaching a gated point parks until the controller releases it.
package gate

import (
	"bytes"
	"fmt"
	"runtime"
	"strconv"
	"sync"
	"time"
)

// Event is one hook event, ordered by Seq (taken under the controller's mutex).
type Event struct {
	Seq   int    `json:"seq"`
	Actor string `json:"actor"`
	Point string `json:"point"`
	Info  string `json:"info,omitempty"`
}

type parkKey struct{ actor, point string }

// Controller records events and parks goroutines at gated points.
type Controller struct {
	mu      sync.Mutex
	cond    *sync.Cond
	seq     int
	events  []Event
	gated   map[string]bool           // point -> park there
	parked  map[parkKey]chan struct{} // currently parked
	open    map[parkKey]int           // pre-released passes (release before arrival)
	ActorOf func(point string, kv []interface{}) (actor string, info string)
	gids    map[int64]string
	free    bool // when set nobody parks any more
}

// New creates a controller.
func New(actorOf func(point string, kv []interface{}) (string, string)) *Controller {
	c := &Controller{gated: map[string]bool{}, parked: map[parkKey]chan struct{}{}, open: map[parkKey]int{},
		ActorOf: actorOf, gids: map[int64]string{}}
	c.cond = sync.NewCond(&c.mu)
	return c
}

// GoID returns the current goroutine's id.
func GoID() int64 {
	var buf [64]byte
	n := runtime.Stack(buf[:], false)
	b := buf[:n]
	b = bytes.TrimPrefix(b, []byte("goroutine "))
	i := bytes.IndexByte(b, ' ')
	id, _ := strconv.ParseInt(string(b[:i]), 10, 64)
	return id
}

// BindGoroutine names the calling goroutine (used to attribute hook events fired on it).
func (c *Controller) BindGoroutine(name string) {
	id := GoID()
	c.mu.Lock()
	c.gids[id] = name
	c.mu.Unlock()
}

// GoroutineName returns the name bound to the calling goroutine ("" if none).
func (c *Controller) GoroutineName() string {
	id := GoID()
	c.mu.Lock()
	defer c.mu.Unlock()
	return c.gids[id]
}

// Gate switches parking at a point on or off.
func (c *Controller) Gate(point string, on bool) {
	c.mu.Lock()
	c.gated[point] = on
	c.mu.Unlock()
}

// Hook is the function to install with mcp.VerifSetHook.
func (c *Controller) Hook(point string, kv ...interface{}) {
	actor, info := "", ""
	if c.ActorOf != nil {
		actor, info = c.ActorOf(point, kv)
	}
	c.mu.Lock()
	c.seq++
	c.events = append(c.events, Event{Seq: c.seq, Actor: actor, Point: point, Info: info})
	if !c.gated[point] || c.free || actor == "" {
		c.cond.Broadcast()
		c.mu.Unlock()
		return
	}
	k := parkKey{actor, point}
	if c.open[k] > 0 {
		c.open[k]--
		c.cond.Broadcast()
		c.mu.Unlock()
		return
	}
	ch := make(chan struct{})
	c.parked[k] = ch
	c.cond.Broadcast()
	c.mu.Unlock()
	<-ch
}

// Emit appends a harness-level event to the same ordered log.
func (c *Controller) Emit(actor, point, info string) int {
	c.mu.Lock()
	defer c.mu.Unlock()
	c.seq++
	c.events = append(c.events, Event{Seq: c.seq, Actor: actor, Point: point, Info: info})
	c.cond.Broadcast()
	return c.seq
}

func (c *Controller) waitFor(timeout time.Duration, pred func() bool) bool {
	deadline := time.Now().Add(timeout)
	timer := time.AfterFunc(timeout, func() { c.mu.Lock(); c.cond.Broadcast(); c.mu.Unlock() })
	defer timer.Stop()
	c.mu.Lock()
	defer c.mu.Unlock()
	for !pred() {
		if time.Now().After(deadline) {
			return false
		}
		c.cond.Wait()
	}
	return true
}

// WaitParked waits until actor is parked at point.
func (c *Controller) WaitParked(actor, point string, timeout time.Duration) bool {
	return c.waitFor(timeout, func() bool { _, ok := c.parked[parkKey{actor, point}]; return ok })
}

// IsParked reports whether actor is parked at point right now.
func (c *Controller) IsParked(actor, point string) bool {
	c.mu.Lock()
	defer c.mu.Unlock()
	_, ok := c.parked[parkKey{actor, point}]
	return ok
}

// Release lets actor continue from point; false if it is not parked there.
func (c *Controller) Release(actor, point string) bool {
	c.mu.Lock()
	defer c.mu.Unlock()
	k := parkKey{actor, point}
	ch, ok := c.parked[k]
	if !ok {
		return false
	}
	delete(c.parked, k)
	close(ch)
	return true
}

// Pass lets actor go through point once without parking (pre-release).
func (c *Controller) Pass(actor, point string) {
	c.mu.Lock()
	c.open[parkKey{actor, point}]++
	c.mu.Unlock()
}

// Seen reports whether an event (actor, point) with Seq > after has been logged.
func (c *Controller) seenLocked(actor, point string, after int) bool {
	for i := len(c.events) - 1; i >= 0; i-- {
		e := c.events[i]
		if e.Seq <= after {
			return false
		}
		if e.Actor == actor && e.Point == point {
			return true
		}
	}
	return false
}

// WaitEvent waits until an event (actor, point) newer than seq `after` has been logged.
func (c *Controller) WaitEvent(actor, point string, after int, timeout time.Duration) bool {
	return c.waitFor(timeout, func() bool { return c.seenLocked(actor, point, after) })
}

// Seq returns the current sequence number.
func (c *Controller) Seq() int {
	c.mu.Lock()
	defer c.mu.Unlock()
	return c.seq
}

// ReleaseAll frees every parked goroutine and disables parking for good.
func (c *Controller) ReleaseAll() {
	c.mu.Lock()
	c.free = true
	for k, ch := range c.parked {
		delete(c.parked, k)
		close(ch)
	}
	c.cond.Broadcast()
	c.mu.Unlock()
}

// Events returns a copy of the event log.
func (c *Controller) Events() []Event {
	c.mu.Lock()
	defer c.mu.Unlock()
	return append([]Event(nil), c.events...)
}

// ParkedList lists the parked (actor, point) pairs, for diagnostics.
func (c *Controller) ParkedList() []string {
	c.mu.Lock()
	defer c.mu.Unlock()
	var out []string
	for k := range c.parked {
		out = append(out, fmt.Sprintf("%s@%s", k.actor, k.point))
	}
	return out
}
